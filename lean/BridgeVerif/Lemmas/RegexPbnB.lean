import BridgeVerif.Lemmas.RegexPbnA
import BridgeVerif.Lemmas.RegexPbnFacts
/-!
# The three patterns of `PbnParser`, anchored  (R11, part B)
-/
namespace Bridge.RegexPbn
open Bridge Bridge.Re

/-! ## the parsed patterns -/
def wsC : Re := .cls false [.ch ' ', .ch '\t', .ch '\r', .ch '\n']
def spC : Re := .cls false [.ch ' ']
def notqC : Re := .cls true [.ch '"']
def upC : Re := .cls false [.range 'A' 'Z']
def letC : Re := .cls false [.range 'a' 'z', .range 'A' 'Z']
def R7 : Re := .seq (.rep 0 (some 1) spC) (.lit ']')
def R6 : Re := .seq (.lit '"') R7
def R5 : Re := .seq (.group 2 (.rep 0 none notqC)) R6
def R4 : Re := .seq (.lit '"') R5
def R3 : Re := .seq (.lit ' ') R4
def R2 : Re := .seq (.group 1 (.seq upC (.rep 1 none letC))) R3
def R1 : Re := .seq (.rep 0 (some 1) spC) R2
def tagRe : Re := .seq (.lit '[') R1
def replRe : Re := .rep 1 none wsC
def vosRe : Re := .alt (.seq (.lit '"') (.seq (.rep 0 none notqC) (.lit '"'))) (.rep 1 none wsC)

theorem parse_repl : Re.parse REPLACE_PATTERN = some replRe := by decide +kernel
theorem parse_tag : Re.parse TAG_PATTERN = some tagRe := by decide +kernel
theorem parse_vos : Re.parse VALUE_OR_SPACE_PATTERN = some vosRe := by decide +kernel

/-! ## character tests -/
theorem charEq_false (c x : Char) : charEq false c x = (x == c) := by
  simp only [charEq, Bool.false_and, Bool.or_false]; exact BEq.comm
theorem ble_dec (a b : Nat) : Nat.ble a b = decide (a ≤ b) := by
  rw [Bool.eq_iff_iff]; simp [Nat.ble_eq]
theorem ct_sp (x : Char) : (classTest false x [.ch ' '] != false) = (x == ' ') := by
  simp [classTest, ClassItem.test, charEq_false]
theorem ct_notq (x : Char) : (classTest false x [.ch '"'] != true) = decide (x ≠ '"') := by
  by_cases h : x = '"' <;> simp [classTest, ClassItem.test, charEq_false, h]
theorem ct_ws (x : Char) : (classTest false x [.ch ' ', .ch '\t', .ch '\r', .ch '\n'] != false) = isPbnWs x := by
  simp [classTest, ClassItem.test, charEq_false, isPbnWs, Bool.or_assoc]
theorem ct_upper (x : Char) : (classTest false x [.range 'A' 'Z'] != false) = isUpper x := by
  simp [classTest, ClassItem.test, isUpper, Char.le_def, UInt32.le_iff_toNat_le, ble_dec]
theorem ct_letter (x : Char) : (classTest false x [.range 'a' 'z', .range 'A' 'Z'] != false) = isLetter x := by
  simp [classTest, ClassItem.test, isLetter, Char.le_def, UInt32.le_iff_toNat_le, Bool.or_comm, ble_dec]

/-! ## `den` step by step -/
theorem den_seq (a b : Re) (k : St → Re.Res St) (st : St) : den false (.seq a b) k st = den false a (den false b k) st := rfl
theorem den_lit_nil (c : Char) (k : St → Re.Res St) (pos : Nat) (caps : Caps) :
    den false (.lit c) k ⟨pos, [], caps⟩ = .fail := rfl
theorem den_lit_cons (c : Char) (k : St → Re.Res St) (pos : Nat) (x : Char) (xs : List Char) (caps : Caps) :
    den false (.lit c) k ⟨pos, x :: xs, caps⟩ = if x = c then k ⟨pos + 1, xs, caps⟩ else .fail := by
  simp [den, stepChar, charEq_false]
theorem den_cls_nil (neg : Bool) (items : List ClassItem) (k : St → Re.Res St) (pos : Nat) (caps : Caps) :
    den false (.cls neg items) k ⟨pos, [], caps⟩ = .fail := rfl
theorem den_cls_cons (neg : Bool) (items : List ClassItem) (k : St → Re.Res St) (pos : Nat) (x : Char) (xs : List Char)
    (caps : Caps) :
    den false (.cls neg items) k ⟨pos, x :: xs, caps⟩ =
      if (classTest false x items != neg) = true then k ⟨pos + 1, xs, caps⟩ else .fail := rfl
theorem den_rep_cls (mn : Nat) (mx : Option Nat) (neg : Bool) (items : List ClassItem) (k : St → Re.Res St) (pos : Nat)
    (rest : List Char) (caps : Caps) :
    den false (.rep mn mx (.cls neg items)) k ⟨pos, rest, caps⟩ =
      repDen (fun x => classTest false x items != neg) mn mx k caps 0 pos rest := rfl
theorem den_group (i : Nat) (r : Re) (k : St → Re.Res St) (st : St) :
    den false (.group i r) k st =
      den false r (fun st' => k { st' with caps := setCap st'.caps i (st.pos, st'.pos) }) st := rfl

/-! ## greedy star -/
def star (p : Char → Bool) (k : St → Re.Res St) (caps : Caps) : Nat → List Char → Re.Res St
  | pos, [] => k ⟨pos, [], caps⟩
  | pos, x :: xs =>
    if p x then orFail (star p k caps (pos + 1) xs) (k ⟨pos, x :: xs, caps⟩) else k ⟨pos, x :: xs, caps⟩

theorem repDen_star (p : Char → Bool) (mn : Nat) (k : St → Re.Res St) (caps : Caps) :
    ∀ (rest : List Char) (count pos : Nat), mn ≤ count →
      repDen p mn none k caps count pos rest = star p k caps pos rest := by
  intro rest
  induction rest with
  | nil => intro count pos h; simp [repDen, star, Nat.not_lt.mpr h]
  | cons x xs ih =>
    intro count pos h
    simp [repDen, star, Nat.not_lt.mpr h, mxOk, ih (count + 1) (pos + 1) (by omega)]

theorem repDen_plus (p : Char → Bool) (k : St → Re.Res St) (caps : Caps) (pos : Nat) (rest : List Char) :
    repDen p 1 none k caps 0 pos rest =
      match rest with
      | [] => .fail
      | x :: xs => if p x then star p k caps (pos + 1) xs else .fail := by
  cases rest <;> simp [repDen, repDen_star]

theorem repDen_opt (p : Char → Bool) (k : St → Re.Res St) (caps : Caps) (pos : Nat) (rest : List Char) :
    repDen p 0 (some 1) k caps 0 pos rest =
      match rest with
      | [] => k ⟨pos, [], caps⟩
      | x :: xs => if p x then orFail (k ⟨pos + 1, xs, caps⟩) (k ⟨pos, x :: xs, caps⟩) else k ⟨pos, x :: xs, caps⟩ := by
  cases rest with
  | nil => simp [repDen]
  | cons x xs => cases xs <;> simp [repDen, mxOk]

theorem st_pos_congr (k : St → Re.Res St) (a b : Nat) (r : List Char) (c : Caps) (h : a = b) :
    k ⟨a, r, c⟩ = k ⟨b, r, c⟩ := by rw [h]

theorem star_of_fail_on_p (p : Char → Bool) (k : St → Re.Res St) (caps : Caps)
    (hk : ∀ pos' x xs, p x = true → k ⟨pos', x :: xs, caps⟩ = .fail) :
    ∀ (rest : List Char) (pos : Nat),
      star p k caps pos rest = k ⟨pos + (rest.takeWhile p).length, rest.drop (rest.takeWhile p).length, caps⟩ := by
  intro rest
  induction rest with
  | nil => intro pos; simp [star]
  | cons x xs ih =>
    intro pos
    by_cases hp : p x = true
    · simp only [star, hp, if_true, List.takeWhile_cons, ih, hk pos x xs hp, orFail_self_fail, List.length_cons,
        List.drop_succ_cons]
      exact st_pos_congr k _ _ _ _ (by omega)
    · simp [star, hp, List.takeWhile_cons]

theorem orFail_of_ne (r a : Re.Res St) (h : r ≠ .fail) : orFail r a = r := by
  cases r <;> simp_all

theorem star_greedy (p : Char → Bool) (k : St → Re.Res St) (caps : Caps) :
    ∀ (rest : List Char) (pos : Nat),
      k ⟨pos + (rest.takeWhile p).length, rest.drop (rest.takeWhile p).length, caps⟩ ≠ .fail →
      star p k caps pos rest = k ⟨pos + (rest.takeWhile p).length, rest.drop (rest.takeWhile p).length, caps⟩ := by
  intro rest
  induction rest with
  | nil => intro pos _; simp [star]
  | cons x xs ih =>
    intro pos hne
    by_cases hp : p x = true
    · simp only [hp, if_true, List.takeWhile_cons, List.length_cons, List.drop_succ_cons] at hne
      have e : pos + ((xs.takeWhile p).length + 1) = pos + 1 + (xs.takeWhile p).length := by omega
      rw [e] at hne
      simp only [star, hp, if_true, List.takeWhile_cons, List.length_cons, List.drop_succ_cons, e]
      rw [ih (pos + 1) hne]
      exact orFail_of_ne _ _ hne
    · simp [star, hp, List.takeWhile_cons]


/-! ## pattern 1 : `[ \t\r\n]+` under `fullmatch` -/
theorem drop_takeWhile_isEmpty (p : Char → Bool) (xs : List Char) :
    (xs.drop (xs.takeWhile p).length).isEmpty = xs.all p := by
  induction xs with
  | nil => rfl
  | cons x xs ih => by_cases hp : p x = true <;> simp [List.takeWhile_cons, hp, ih]

theorem repl_anchored (l : Str) (fuel : Nat) (hf : replRe.size + l.length ≤ fuel) :
    (resToOpt (matchCore false replRe fuel 0 l true false)).map Option.isSome = some (semiEmpty l) := by
  rw [matchCore_eq_den false replRe rfl fuel 0 l true false hf]
  have hk : ∀ pos' x xs, isPbnWs x = true → kfin 0 true false ⟨pos', x :: xs, []⟩ = .fail := by
    intro pos' x xs _; simp [kfin]
  show (resToOpt (match den false (.rep 1 none (.cls false [.ch ' ', .ch '\t', .ch '\r', .ch '\n'])) (kfin 0 true false)
    ⟨0, l, []⟩ with
      | .ok st => .ok { span := (0, st.pos), groups := st.caps }
      | .fail => .fail
      | .oof => .oof : Re.Res MatchObj)).map Option.isSome = some (semiEmpty l)
  simp only [den_rep_cls, ct_ws, repDen_plus]
  cases l with
  | nil => simp [semiEmpty, resToOpt]
  | cons x xs =>
    by_cases hx : isPbnWs x = true
    · simp only [hx, if_true]
      rw [star_of_fail_on_p isPbnWs _ [] hk]
      have e := drop_takeWhile_isEmpty isPbnWs xs
      by_cases ha : xs.all isPbnWs = true
      · rw [ha] at e
        simp [kfin, e, semiEmpty, hx, resToOpt]
        simpa using ha
      · have ha' : xs.all isPbnWs = false := by simpa using ha
        rw [ha'] at e
        simp [kfin, e, semiEmpty, hx, resToOpt]
        simpa using ha'
    · simp [hx, semiEmpty, resToOpt]


/-! ## pattern 2 : the tag pattern, cut into the stages of `matchTagAt` -/
def m7 (nm val r5 : Str) : Option (Str × Str × Str) :=
  let r6 := match r5 with | ' ' :: ']' :: _ => r5.drop 1 | _ => r5
  match r6 with
  | ']' :: r7 => some (nm, val, r7)
  | _ => none
def m5 (nm r4 : Str) : Option (Str × Str × Str) :=
  let val := r4.takeWhile (· ≠ '"')
  match r4.drop val.length with
  | '"' :: r5 => m7 nm val r5
  | _ => none
def m3 (nm r3 : Str) : Option (Str × Str × Str) :=
  match r3 with
  | ' ' :: '"' :: r4 => m5 nm r4
  | _ => none
def m2 (r1 : Str) : Option (Str × Str × Str) :=
  match r1 with
  | c :: r2 =>
    if isUpper c then
      let more := r2.takeWhile isLetter
      let r3 := r2.drop more.length
      if more.isEmpty then none else m3 (c :: more) r3
    else none
  | [] => none
def m1 (r0 : Str) : Option (Str × Str × Str) :=
  m2 (match r0 with | ' ' :: r => r | _ => r0)
theorem matchTagAt_eq (s : Str) :
    matchTagAt s = match s with | '[' :: r0 => m1 r0 | _ => none := by
  unfold matchTagAt m1 m2 m3 m5 m7
  rfl

theorem den_R7 (k : St → Re.Res St) (pos : Nat) (r5 : Str) (caps : Caps) (nm val : Str) :
    den false R7 k ⟨pos, r5, caps⟩ =
      match m7 nm val r5 with
      | none => .fail
      | some (_, _, r7) => k ⟨pos + r5.length - r7.length, r7, caps⟩ := by
  simp only [R7, spC, den_seq, den_rep_cls, ct_sp, repDen_opt]
  cases r5 with
  | nil => simp [m7, den_lit_nil]
  | cons x xs =>
    by_cases hx : x = ' '
    · subst hx
      cases xs with
      | nil => simp [m7, den_lit_cons, den_lit_nil]
      | cons y ys =>
        by_cases hy : y = ']'
        · subst hy
          simp [m7, den_lit_cons, orFail_self_fail]
          apply st_pos_congr; omega
        · simp [m7, den_lit_cons, hy]
    · by_cases hx2 : x = ']'
      · subst hx2
        simp [m7, den_lit_cons]
        apply st_pos_congr; omega
      · simp [m7, den_lit_cons, hx, hx2]


theorem takeWhile_len_le (p : Char → Bool) (l : List Char) : (l.takeWhile p).length ≤ l.length := by
  induction l with
  | nil => simp
  | cons x xs ih => by_cases hp : p x = true <;> simp [List.takeWhile_cons, hp]; omega
theorem drop_takeWhile_len (p : Char → Bool) (l : List Char) : l.drop (l.takeWhile p).length = l.dropWhile p := by
  induction l with
  | nil => simp
  | cons x xs ih => by_cases hp : p x = true <;> simp [List.takeWhile_cons, List.dropWhile_cons, hp, ih]
theorem takeWhile_append_drop (p : Char → Bool) (l : List Char) : l.takeWhile p ++ l.drop (l.takeWhile p).length = l := by
  rw [drop_takeWhile_len]; exact List.takeWhile_append_dropWhile

theorem m7_fst (nm val r5 n v r7 : Str) (h : m7 nm val r5 = some (n, v, r7)) : n = nm ∧ v = val := by
  unfold m7 at h
  split at h
  · simp at h; exact ⟨h.1.symm, h.2.1.symm⟩
  · simp only at h
    split at h
    · simp at h; exact ⟨h.1.symm, h.2.1.symm⟩
    · simp at h

theorem den_R5 (k : St → Re.Res St) (pos : Nat) (r4 : Str) (g1 g2 : Option (Nat × Nat)) (nm : Str) :
    den false R5 k ⟨pos, r4, [g1, g2]⟩ =
      match m5 nm r4 with
      | none => .fail
      | some (_, v, r7) => k ⟨pos + r4.length - r7.length, r7, [g1, some (pos, pos + v.length)]⟩ := by
  simp only [R5, R6, notqC, den_seq, den_group, den_rep_cls, ct_notq]
  rw [repDen_star _ _ _ _ _ _ _ (Nat.le_refl 0)]
  rw [star_of_fail_on_p _ _ _ (by
    intro pos' x xs hx
    have hx' : ¬ x = '"' := by simpa using hx
    simp [den_lit_cons, hx'])]
  simp only [setCap, List.set_cons_succ, List.set_cons_zero]
  unfold m5
  have hlen := takeWhile_len_le (fun x => decide (x ≠ '"')) r4
  generalize hval : r4.takeWhile (fun x => decide (x ≠ '"')) = val at hlen
  cases hd : r4.drop val.length with
  | nil => simp [den_lit_nil, hd]
  | cons y ys =>
    have hl := congrArg List.length hd
    simp only [List.length_drop, List.length_cons] at hl
    by_cases hy : y = '"'
    · subst hy
      simp only [den_lit_cons, if_true, setCap, List.set_cons_succ, List.set_cons_zero]
      rw [den_R7 _ _ _ _ nm val]
      simp only [hd]
      cases hm : m7 nm val ys with
      | none => rfl
      | some t =>
        obtain ⟨n, v, r7⟩ := t
        obtain ⟨_, rfl⟩ := m7_fst _ _ _ _ _ _ hm
        simp only
        apply st_pos_congr; omega
    · simp [den_lit_cons, hy, hd]


theorem m5_fst (nm r4 n v r7 : Str) (h : m5 nm r4 = some (n, v, r7)) : n = nm := by
  unfold m5 at h
  simp only at h
  split at h
  · exact (m7_fst _ _ _ _ _ _ h).1
  · simp at h

theorem m3_fst (nm r3 n v r7 : Str) (h : m3 nm r3 = some (n, v, r7)) : n = nm := by
  unfold m3 at h
  split at h
  · exact m5_fst _ _ _ _ _ h
  · simp at h

theorem den_R3 (k : St → Re.Res St) (pos : Nat) (r3 : Str) (g1 g2 : Option (Nat × Nat)) (nm : Str) :
    den false R3 k ⟨pos, r3, [g1, g2]⟩ =
      match m3 nm r3 with
      | none => .fail
      | some (_, v, r7) => k ⟨pos + r3.length - r7.length, r7, [g1, some (pos + 2, pos + 2 + v.length)]⟩ := by
  simp only [R3, R4, den_seq]
  cases r3 with
  | nil => simp [m3, den_lit_nil]
  | cons x xs =>
    by_cases hx : x = ' '
    · subst hx
      cases xs with
      | nil => simp [m3, den_lit_cons, den_lit_nil, den_seq]
      | cons y ys =>
        by_cases hy : y = '"'
        · subst hy
          simp only [den_lit_cons, if_true, m3, den_seq]
          rw [den_R5 _ _ _ _ _ nm]
          cases hm : m5 nm ys with
          | none => rfl
          | some t =>
            obtain ⟨n, v, r7⟩ := t
            simp only [List.length_cons]
            apply st_pos_congr; omega
        · simp [m3, den_lit_cons, hy, den_seq]
    · simp [m3, den_lit_cons, hx]

theorem isLetter_ne_space (x : Char) (h : isLetter x = true) : ¬ x = ' ' := by
  intro e; subst e; revert h; decide
theorem isUpper_space : isUpper ' ' = false := by decide

theorem den_R2 (k : St → Re.Res St) (pos : Nat) (r1 : Str) :
    den false R2 k ⟨pos, r1, [none, none]⟩ =
      match m2 r1 with
      | none => .fail
      | some (n, v, r7) =>
        k ⟨pos + r1.length - r7.length, r7,
          [some (pos, pos + n.length), some (pos + n.length + 2, pos + n.length + 2 + v.length)]⟩ := by
  simp only [R2, upC, letC, den_seq, den_group, den_rep_cls, ct_letter]
  cases r1 with
  | nil => simp [m2, den_cls_nil]
  | cons c r2 =>
    simp only [den_cls_cons, ct_upper]
    by_cases hc : isUpper c = true
    · simp only [hc, if_true, repDen_plus, m2, den_rep_cls, ct_letter]
      cases r2 with
      | nil => simp
      | cons x xs =>
        by_cases hx : isLetter x = true
        · simp only [hx, if_true, List.takeWhile_cons]
          rw [star_of_fail_on_p _ _ _ (by
            intro pos' y ys hy
            have hy' := isLetter_ne_space y hy
            simp [R3, den_seq, den_lit_cons, hy'])]
          simp only [setCap, List.set_cons_succ, List.set_cons_zero, List.length_cons, List.drop_succ_cons,
            List.isEmpty_cons, Bool.false_eq_true, if_false]
          rw [den_R3 _ _ _ _ _ (c :: x :: xs.takeWhile isLetter)]
          have hlen := takeWhile_len_le isLetter xs
          cases hm : m3 (c :: x :: xs.takeWhile isLetter) (xs.drop (xs.takeWhile isLetter).length) with
          | none => rfl
          | some t =>
            obtain ⟨n, v, r7⟩ := t
            have hn := m3_fst _ _ _ _ _ hm
            subst hn
            simp only [List.length_cons, List.length_drop]
            have e1 : pos + 1 + 1 + (xs.takeWhile isLetter).length = pos + ((xs.takeWhile isLetter).length + 1 + 1) := by
              omega
            rw [e1]
            have he : (List.takeWhile (fun x => isLetter x) xs).length = (xs.takeWhile isLetter).length := rfl
            apply st_pos_congr; omega
        · simp [hx, List.takeWhile_cons]
    · simp [hc, m2]


/-- where the tag name starts, relative to the `[` -/
def tagOff (rest : Str) : Nat := match rest with | _ :: ' ' :: _ => 2 | _ => 1

theorem m2_space (xs : Str) : m2 (' ' :: xs) = none := by simp [m2, isUpper_space]

theorem den_tag (k : St → Re.Res St) (pos : Nat) (rest : Str) :
    den false tagRe k ⟨pos, rest, [none, none]⟩ =
      match matchTagAt rest with
      | none => .fail
      | some (n, v, r7) =>
        k ⟨pos + rest.length - r7.length, r7,
          [some (pos + tagOff rest, pos + tagOff rest + n.length),
           some (pos + tagOff rest + n.length + 2, pos + tagOff rest + n.length + 2 + v.length)]⟩ := by
  rw [matchTagAt_eq]
  simp only [tagRe, R1, spC, den_seq]
  cases rest with
  | nil => simp [den_lit_nil]
  | cons b r0 =>
    by_cases hb : b = '['
    · subst hb
      simp only [den_lit_cons, if_true, den_seq, den_rep_cls, ct_sp, repDen_opt]
      cases r0 with
      | nil => simp [den_R2, m1, m2]
      | cons x xs =>
        by_cases hx : x = ' '
        · subst hx
          simp only [beq_self_eq_true, if_true, m1, tagOff]
          rw [den_R2 k (pos + 1) (' ' :: xs), m2_space]
          simp only [orFail_self_fail]
          rw [den_R2]
          cases hm : m2 xs with
          | none => rfl
          | some t =>
            obtain ⟨n, v, r7⟩ := t
            simp only [List.length_cons]
            have e1 : pos + 1 + 1 = pos + 2 := rfl
            rw [e1]
            apply st_pos_congr; omega
        · have hx' : (x == ' ') = false := by simpa using hx
          simp only [hx', Bool.false_eq_true, if_false, m1, tagOff]
          rw [den_R2]
          cases hm : m2 (x :: xs) with
          | none => simp [hx, hm]
          | some t =>
            obtain ⟨n, v, r7⟩ := t
            simp [hx, hm]
            apply st_pos_congr; omega
    · simp [den_lit_cons, hb]


/-! ### the texts of a tag match -/
def TagShape (rest n v r7 : Str) : Prop :=
  ∃ pre sp2, rest = pre ++ (n ++ (' ' :: '"' :: (v ++ ('"' :: (sp2 ++ ']' :: r7))))) ∧ pre.length = tagOff rest

theorem m7_shape (nm val r5 n v r7 : Str) (h : m7 nm val r5 = some (n, v, r7)) : ∃ sp2, r5 = sp2 ++ ']' :: r7 := by
  unfold m7 at h
  split at h
  · simp at h; exact ⟨[' '], by simp [h.2.2]⟩
  · simp only at h
    split at h
    · simp at h; exact ⟨[], by simp [h.2.2]⟩
    · simp at h

theorem m5_shape (nm r4 n v r7 : Str) (h : m5 nm r4 = some (n, v, r7)) :
    ∃ sp2, r4 = v ++ ('"' :: (sp2 ++ ']' :: r7)) := by
  unfold m5 at h
  simp only at h
  split at h
  · rename_i r5 heq
    obtain ⟨sp2, h2⟩ := m7_shape _ _ _ _ _ _ h
    obtain ⟨_, hv⟩ := m7_fst _ _ _ _ _ _ h
    refine ⟨sp2, ?_⟩
    have := takeWhile_append_drop (fun x => decide (x ≠ '"')) r4
    rw [heq, h2, ← hv] at this
    exact this.symm
  · simp at h

theorem m3_shape (nm r3 n v r7 : Str) (h : m3 nm r3 = some (n, v, r7)) :
    ∃ sp2, r3 = ' ' :: '"' :: (v ++ ('"' :: (sp2 ++ ']' :: r7))) := by
  unfold m3 at h
  split at h
  · obtain ⟨sp2, h2⟩ := m5_shape _ _ _ _ _ h
    exact ⟨sp2, by rw [h2]⟩
  · simp at h

theorem m2_shape (r1 n v r7 : Str) (h : m2 r1 = some (n, v, r7)) :
    ∃ sp2, r1 = n ++ (' ' :: '"' :: (v ++ ('"' :: (sp2 ++ ']' :: r7)))) := by
  unfold m2 at h
  split at h
  · rename_i c r2
    split at h
    · simp only at h
      split at h
      · simp at h
      · obtain ⟨sp2, h2⟩ := m3_shape _ _ _ _ _ h
        have hn := m3_fst _ _ _ _ _ h
        refine ⟨sp2, ?_⟩
        have := takeWhile_append_drop isLetter r2
        rw [h2] at this
        rw [hn]
        exact (congrArg (c :: ·) this).symm.trans (by simp)
    · simp at h
  · simp at h

theorem matchTagAt_shape (rest n v r7 : Str) (h : matchTagAt rest = some (n, v, r7)) : TagShape rest n v r7 := by
  rw [matchTagAt_eq] at h
  split at h
  · rename_i r0
    unfold m1 at h
    cases r0 with
    | nil => simp [m2] at h
    | cons x xs =>
      by_cases hx : x = ' '
      · subst hx
        simp only at h
        obtain ⟨sp2, h2⟩ := m2_shape _ _ _ _ h
        exact ⟨['[', ' '], sp2, by rw [h2]; simp, by simp [tagOff]⟩
      · simp [hx] at h
        obtain ⟨sp2, h2⟩ := m2_shape _ _ _ _ h
        exact ⟨['['], sp2, by rw [h2]; simp, by simp [tagOff, hx]⟩
  · simp at h

/-! ## pattern 4 : `"[^"]*"|[ \t\r\n]+` -/
theorem den_alt (a b : Re) (k : St → Re.Res St) (st : St) :
    den false (.alt a b) k st = orFail (den false a k st) (den false b k st) := rfl
theorem isPbnWs_quote : isPbnWs '"' = false := by decide

theorem den_vos (k : St → Re.Res St) (pos : Nat) (c : Char) (r : Str) :
    den false vosRe k ⟨pos, c :: r, []⟩ =
      if c = '"' then
        (match r.drop (r.takeWhile (· ≠ '"')).length with
          | '"' :: rest' => k ⟨pos + (r.takeWhile (· ≠ '"')).length + 2, rest', []⟩
          | _ => .fail)
      else if isPbnWs c then star isPbnWs k [] (pos + 1) r
      else .fail := by
  simp only [vosRe, notqC, wsC, den_alt, den_seq, den_lit_cons, den_rep_cls, ct_notq, ct_ws, repDen_plus]
  by_cases hc : c = '"'
  · subst hc
    simp only [if_true, isPbnWs_quote, Bool.false_eq_true, if_false, orFail_self_fail, den_seq, den_rep_cls, ct_notq]
    rw [repDen_star _ _ _ _ _ _ _ (Nat.le_refl 0)]
    rw [star_of_fail_on_p _ _ _ (by
      intro pos' x xs hx
      have hx' : ¬ x = '"' := by simpa using hx
      simp [den_lit_cons, hx'])]
    cases hd : r.drop (r.takeWhile (fun x => decide (x ≠ '"'))).length with
    | nil => simp [den_lit_nil]
    | cons y ys =>
      by_cases hy : y = '"'
      · subst hy
        simp only [den_lit_cons, if_true]
        apply st_pos_congr; omega
      · simp [den_lit_cons, hy]
  · simp only [hc, if_false, orFail_fail]

end Bridge.RegexPbn
