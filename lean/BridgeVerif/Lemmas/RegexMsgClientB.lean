import BridgeVerif.Lemmas.RegexMsgClient
import BridgeVerif.Lemmas.RegexConnectB
/-!
# The classes of `Lemmas/RegexMsgClient.lean` hold EVERY character (up to non-ASCII digits for the board header)

`Lemmas/RegexConnectB.lean` proves from the folding tables that above ASCII only ſ, K, İ, ı fold into ASCII
(`foldNat_ge`, `foldC_big`).  Hence for ASCII pattern letters the engine's `Re.charEq true` and the scanner's `eqCI` agree
on EVERY subject character (`agreeLit_all_of`), so
* `match_lead_all`, `match_teams_all` : the regular expression IS the scanner on EVERY subject;
* `match_board_nodigit` : … on every subject without a non-ASCII decimal digit (`\d` is Unicode-aware in `re`).
-/
namespace Bridge.RegexMsgClient
open Bridge Bridge.Re Bridge.RegexPbn Bridge.RegexHands Bridge.RegexConnect

/-- the pattern characters are ASCII and fold inside ASCII, in the engine and in the scanner -/
def smallOK (ps : List Char) : Bool :=
  ps.all fun p => decide (foldNat p.toNat < 128) && decide ((foldC p).toNat < 128) && decide (p.toNat < 128)

/-- engine and scanner compare ASCII pattern characters alike with EVERY character -/
theorem agreeLit_all_of (ps : List Char) (hsmall : smallOK ps = true)
    (hspec : agreeLit ps (Char.ofNat 0x17F) = true ∧ agreeLit ps (Char.ofNat 0x212A) = true ∧
      agreeLit ps (Char.ofNat 0x130) = true ∧ agreeLit ps (Char.ofNat 0x131) = true)
    (hascii : ∀ x : Char, x.toNat < 128 → agreeLit ps x = true) (x : Char) : agreeLit ps x = true := by
  by_cases h : x.toNat < 128
  · exact hascii x h
  · have hge : 128 ≤ x.toNat := by omega
    by_cases h1 : x.toNat = 0x17F
    · rw [char_eq_of_toNat x _ rfl h1]; exact hspec.1
    by_cases h2 : x.toNat = 0x212A
    · rw [char_eq_of_toNat x _ rfl h2]; exact hspec.2.1
    by_cases h3 : x.toNat = 0x130
    · rw [char_eq_of_toNat x _ rfl h3]; exact hspec.2.2.1
    by_cases h4 : x.toNat = 0x131
    · rw [char_eq_of_toNat x _ rfl h4]; exact hspec.2.2.2
    have hf := foldNat_ge x.toNat hge h1 h2 h3 h4
    have hc := foldC_big x hge h1 h2 h3 h4
    simp only [agreeLit, List.all_eq_true]
    intro p hp
    have hs := List.all_eq_true.mp hsmall p hp
    simp only [Bool.and_eq_true, decide_eq_true_eq] at hs
    obtain ⟨⟨hs1, hs2⟩, hs3⟩ := hs
    have e1 : (p == x) = false := by
      apply beq_eq_false_iff_ne.mpr
      intro e; rw [e] at hs3; omega
    have e2 : (foldNat p.toNat == foldNat x.toNat) = false := by
      apply beq_eq_false_iff_ne.mpr
      intro e; omega
    have e3 : eqCI p x = false := by
      unfold eqCI
      rw [hc]
      apply beq_eq_false_iff_ne.mpr
      intro e; rw [e] at hs2; omega
    simp only [charEq, e1, e2, e3, Bool.and_false, Bool.or_false, beq_self_eq_true]

/-! ### the three classes -/
theorem agreeLead_all (x : Char) : agreeLead x = true :=
  agreeLit_all_of leadChars (by decide +kernel) (by decide +kernel) (fun x h => agreeLead_ascii x h) x

theorem agreeTeams_all (x : Char) : agreeTeams x = true :=
  agreeLit_all_of teamsChars (by decide +kernel) (by decide +kernel) (fun x h => agreeTeams_ascii x h) x

theorem agreeBoard_lit_all (x : Char) : agreeLit boardChars x = true :=
  agreeLit_all_of boardChars (by decide +kernel) (by decide +kernel) (fun x h => by
    have := agreeBoard_ascii x h
    simp only [agreeBoard, Bool.and_eq_true] at this
    exact this.1) x

/-- the class of the board header: `\d` and the ASCII digit test agree on the character -/
theorem agreeBoard_iff_digit (x : Char) : agreeBoard x = (Re.isDigit x == Bridge.isDigit x) := by
  simp only [agreeBoard, agreeBoard_lit_all, Bool.true_and]

/-- a character that is no Unicode decimal digit is in the class -/
theorem agreeBoard_of_not_digit (x : Char) (h : Re.isDigit x = false) : agreeBoard x = true := by
  by_cases hx : x.toNat < 128
  · exact agreeBoard_ascii x hx
  · rw [agreeBoard_iff_digit, h]
    have : Bridge.isDigit x = false := by
      simp only [Bridge.isDigit, decide_eq_false_iff_not, Char.le_def, UInt32.le_iff_toNat_le]
      intro hc
      have e : x.toNat = x.val.toNat := rfl
      have e2 : ('9' : Char).val.toNat = 57 := rfl
      omega
    rw [this]; rfl

/-- `(.*) to lead` IS the scanner of `parseLeader?` on EVERY subject -/
theorem match_lead_all (s : List Char) :
    (Re.pyMatch true LEAD_PATTERN s).map (Option.map (groupTexts s)) = some ((leadFields? s).map (·.map some)) :=
  match_lead s fun x _ => agreeLead_all x

/-- `Teams : N/S : "(.*)".? E/W : "(.*)"` IS the scanner `parseTeamNames?` on EVERY subject -/
theorem match_teams_all (s : List Char) :
    (Re.pyMatch true TEAMS_PATTERN s).map (Option.map (groupTexts s)) = some ((teamFields? s).map (·.map some)) :=
  match_teams s fun x _ => agreeTeams_all x

/-- `Board number (\d+)\. Dealer (.*)\. (.*) vulnerable\.` IS the scanner of `parseBoard?` on every subject without a
non-ASCII decimal digit -/
theorem match_board_nodigit (s : List Char) (hs : ∀ x ∈ s, x.toNat < 128 ∨ Re.isDigit x = false) :
    (Re.pyMatch true BOARD_PATTERN s).map (Option.map (groupTexts s)) = some ((boardFields? s).map (·.map some)) :=
  match_board s fun x hx => by
    rcases hs x hx with h | h
    · exact agreeBoard_ascii x h
    · exact agreeBoard_of_not_digit x h

/-- the restriction is necessary: Arabic-Indic digits are `\d` for `re` but not for the scanner -/
example : (Re.pyMatch true BOARD_PATTERN "Board number ١٨. Dealer North. Both vulnerable.".toList).map
      (Option.map (groupTexts "Board number ١٨. Dealer North. Both vulnerable.".toList)) ≠
    some ((boardFields? "Board number ١٨. Dealer North. Both vulnerable.".toList).map (·.map some)) := by
  decide +kernel

end Bridge.RegexMsgClient
