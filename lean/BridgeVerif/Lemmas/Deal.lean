import BridgeVerif.Spec.Deal
import BridgeVerif.Props.C15
/-! Helper lemmas for C14 (deal encodings). -/
namespace Bridge

/-! ### single cards -/
theorem mem_deck_of_ok {c : Card} (h : c.ok = true) : c ∈ Card.deck := C15.deck_complete.2 c h

theorem deck_facts : ∀ c ∈ Card.deck, c.ok = true ∧ c.idx < 52 ∧ Card.ofIdx? c.idx = some c ∧
    strToCard? (cardStr c) = some c ∧
    isRankChar ((rankChar? c.rank).getD '?') = true ∧
    ((rankOfChar? ((rankChar? c.rank).getD '?')).bind fun r => mkCard? r c.suit) = some c := by
  decide +kernel

theorem ofIdx_facts : ∀ n : Fin 52, ∃ c, Card.ofIdx? n.val = some c ∧ c.ok = true ∧ c.idx = n.val := by
  decide +kernel

theorem idx_inj {a b : Card} (ha : a.ok = true) (hb : b.ok = true) (h : a.idx = b.idx) : a = b :=
  C15.card_notations_injective.2 a (mem_deck_of_ok ha) b (mem_deck_of_ok hb) h

theorem not_rank_dot : isRankChar '.' = false := by decide
theorem not_hand_dash : isHandChar '-' = false := by decide

/-! ### sorting -/
theorem insertDesc_perm (c : Card) (l : List Card) : (insertDesc c l).Perm (c :: l) := by
  induction l with
  | nil => simp [insertDesc]
  | cons d r ih =>
    simp only [insertDesc]
    split
    · exact List.Perm.refl _
    · exact (List.Perm.cons d ih).trans (List.Perm.swap c d r)

theorem sortDesc_perm (l : List Card) : (sortDesc l).Perm l := by
  induction l with
  | nil => exact List.Perm.refl _
  | cons c r ih =>
    exact (insertDesc_perm c _).trans (List.Perm.cons c ih)

theorem insertAsc_perm (c : Card) (l : List Card) : (insertAsc c l).Perm (c :: l) := by
  induction l with
  | nil => simp [insertAsc]
  | cons d r ih =>
    simp only [insertAsc]
    split
    · exact List.Perm.refl _
    · exact (List.Perm.cons d ih).trans (List.Perm.swap c d r)

theorem sortAsc_perm (l : List Card) : (sortAsc l).Perm l := by
  induction l with
  | nil => exact List.Perm.refl _
  | cons c r ih =>
    exact (insertAsc_perm c _).trans (List.Perm.cons c ih)

theorem insertDesc_sorted (c : Card) (l : List Card) (h : l.Pairwise fun a b => b.idx ≤ a.idx) :
    (insertDesc c l).Pairwise fun a b => b.idx ≤ a.idx := by
  induction l with
  | nil => simp [insertDesc]
  | cons d r ih =>
    simp only [insertDesc]
    rw [List.pairwise_cons] at h
    split
    · rename_i hle
      refine List.pairwise_cons.2 ⟨?_, List.pairwise_cons.2 h⟩
      intro b hb
      rcases List.mem_cons.1 hb with rfl | hb
      · exact hle
      · exact Nat.le_trans (h.1 b hb) hle
    · rename_i hnle
      refine List.pairwise_cons.2 ⟨?_, ih h.2⟩
      intro b hb
      rcases List.mem_cons.1 ((insertDesc_perm c r).mem_iff.1 hb) with rfl | hb
      · omega
      · exact h.1 b hb

theorem sortDesc_sorted (l : List Card) : (sortDesc l).Pairwise fun a b => b.idx ≤ a.idx := by
  induction l with
  | nil => exact List.Pairwise.nil
  | cons c r ih => exact insertDesc_sorted c _ ih

theorem insertAsc_sorted (c : Card) (l : List Card) (h : l.Pairwise fun a b => a.idx ≤ b.idx) :
    (insertAsc c l).Pairwise fun a b => a.idx ≤ b.idx := by
  induction l with
  | nil => simp [insertAsc]
  | cons d r ih =>
    simp only [insertAsc]
    rw [List.pairwise_cons] at h
    split
    · rename_i hle
      refine List.pairwise_cons.2 ⟨?_, List.pairwise_cons.2 h⟩
      intro b hb
      rcases List.mem_cons.1 hb with rfl | hb
      · exact hle
      · exact Nat.le_trans hle (h.1 b hb)
    · rename_i hnle
      refine List.pairwise_cons.2 ⟨?_, ih h.2⟩
      intro b hb
      rcases List.mem_cons.1 ((insertAsc_perm c r).mem_iff.1 hb) with rfl | hb
      · omega
      · exact h.1 b hb

theorem sortAsc_sorted (l : List Card) : (sortAsc l).Pairwise fun a b => a.idx ≤ b.idx := by
  induction l with
  | nil => exact List.Pairwise.nil
  | cons c r ih => exact insertAsc_sorted c _ ih

theorem pairwise_idx_ne (l : List Card) (hok : ∀ c ∈ l, c.ok = true) (hn : l.Nodup) :
    l.Pairwise fun a b => a.idx ≠ b.idx := by
  refine List.Pairwise.imp_of_mem ?_ hn
  intro a b ha hb hne e
  exact hne (idx_inj (hok a ha) (hok b hb) e)

theorem sortAsc_strict (l : List Card) (hok : ∀ c ∈ l, c.ok = true) (hn : l.Nodup) :
    (sortAsc l).Pairwise fun a b => a.idx < b.idx := by
  have hp := sortAsc_perm l
  have h1 := sortAsc_sorted l
  have h2 := pairwise_idx_ne (sortAsc l) (fun c hc => hok c (hp.mem_iff.1 hc)) (hp.nodup_iff.2 hn)
  exact (h1.and h2).imp (fun ⟨x, y⟩ => by omega)

theorem sortDesc_strict (l : List Card) (hok : ∀ c ∈ l, c.ok = true) (hn : l.Nodup) :
    (sortDesc l).Pairwise fun a b => b.idx < a.idx := by
  have hp := sortDesc_perm l
  have h1 := sortDesc_sorted l
  have h2 := pairwise_idx_ne (sortDesc l) (fun c hc => hok c (hp.mem_iff.1 hc)) (hp.nodup_iff.2 hn)
  exact (h1.and h2).imp (fun ⟨x, y⟩ => by omega)

/-! ### dedup -/
theorem dedup_of_nodup (l : List Card) (hn : l.Nodup) : dedup l = l := by
  induction l with
  | nil => rfl
  | cons c r ih =>
    rw [List.nodup_cons] at hn
    have : dedup (c :: r) = if c ∈ dedup r then dedup r else c :: dedup r := rfl
    rw [this, ih hn.2, if_neg hn.1]

theorem mapM_strToCard (l : List Card) (hok : ∀ c ∈ l, c.ok = true) :
    (l.map cardStr).mapM strToCard? = some l := by
  induction l with
  | nil => rfl
  | cons c r ih =>
    have h1 := (deck_facts c (mem_deck_of_ok (hok c List.mem_cons_self))).2.2.2.1
    have h2 := ih fun x hx => hok x (List.mem_cons_of_mem _ hx)
    simp [List.mapM_cons, h1, h2]

theorem PartialDeal.nodup_hand {h : Hands} (hd : PartialDeal h) (p : Seat) : (h p).Nodup := by
  have := hd.nodup
  simp only [handsAll, List.nodup_append] at this
  cases p <;> simp_all

theorem PartialDeal.disjoint {h : Hands} (hd : PartialDeal h) {p q : Seat} (hpq : p ≠ q) {c : Card}
    (hp : c ∈ h p) (hq : c ∈ h q) : False := by
  have := hd.nodup
  simp only [handsAll, List.nodup_append, List.mem_append] at this
  cases p <;> cases q <;> first | exact hpq rfl | grind

theorem toBinary_length (h : Hands) (p : Seat) : (toBinary h p).length = 52 := by simp [toBinary]

theorem toBinary_bits (h : Hands) (p : Seat) : ∀ x ∈ toBinary h p, x = 0 ∨ x = 1 := by
  intro x hx
  simp only [toBinary, List.mem_map] at hx
  obtain ⟨i, _, rfl⟩ := hx
  split <;> simp

theorem toBinary_getD (h : Hands) (p : Seat) (i : Nat) (hi : i < 52) :
    (toBinary h p).getD i 0 = 1 ↔ ∃ c ∈ h p, c.idx = i := by
  simp [toBinary, List.getD_eq_getElem?_getD, List.getElem?_map, List.getElem?_range hi]

theorem nodup_filterMap_ofIdx (f : Nat → Option Card)
    (hf : ∀ i c, f i = some c → c.idx = i) (l : List Nat) (hl : l.Nodup) : (l.filterMap f).Nodup := by
  induction l with
  | nil => simp
  | cons a r ih =>
    rw [List.nodup_cons] at hl
    rw [List.filterMap_cons]
    split
    · exact ih hl.2
    · rename_i c hc
      refine List.nodup_cons.2 ⟨?_, ih hl.2⟩
      intro hm
      obtain ⟨j, hj, hjc⟩ := List.mem_filterMap.1 hm
      have := hf _ _ hc
      have := hf _ _ hjc
      exact hl.1 (by simp_all)

theorem ofIdx_some {i : Nat} {c : Card} (h : Card.ofIdx? i = some c) : c.ok = true ∧ c.idx = i := by
  by_cases hi : i < 52
  · obtain ⟨c', h1, h2, h3⟩ := ofIdx_facts ⟨i, hi⟩
    simp only at h1 h3
    rw [h1] at h
    cases h
    exact ⟨h2, h3⟩
  · simp [Card.ofIdx?, show i > 51 by omega] at h

theorem ofIdx_idx {c : Card} (h : c.ok = true) : c.idx < 52 ∧ Card.ofIdx? c.idx = some c :=
  let f := deck_facts c (mem_deck_of_ok h); ⟨f.2.1, f.2.2.1⟩

theorem mem_convertNpBinary (h : Hands) (hok : ∀ p, ∀ c ∈ h p, c.ok = true) (p : Seat) (c : Card) :
    c ∈ convertNpBinary (toBinary h) p ↔ c ∈ h p := by
  simp only [convertNpBinary, List.mem_filterMap, List.mem_range]
  constructor
  · rintro ⟨i, hi, hc⟩
    split at hc
    · rename_i h1
      obtain ⟨c', hc', rfl⟩ := (toBinary_getD h p i hi).1 h1
      have := (ofIdx_idx (hok p c' hc')).2
      rw [this] at hc; cases hc; exact hc'
    · cases hc
  · intro hc
    have := ofIdx_idx (hok p c hc)
    refine ⟨c.idx, this.1, ?_⟩
    rw [if_pos ((toBinary_getD h p _ this.1).2 ⟨c, hc, rfl⟩)]
    exact this.2

theorem convertNpBinary_nodup (b : Seat → List Nat) (p : Seat) : (convertNpBinary b p).Nodup := by
  apply nodup_filterMap_ofIdx _ _ _ List.nodup_range
  intro i c hc
  split at hc
  · exact (ofIdx_some hc).2
  · cases hc

theorem ite_some_iff {α : Type} {P : Prop} [Decidable P] {x : Option α} {c : α} :
    (if P then x else none) = some c ↔ P ∧ x = some c := by split <;> simp_all

theorem convertBinary_nodup (b : Seat → List Nat) (p : Seat) : (convertBinary b p).Nodup := by
  apply nodup_filterMap_ofIdx _ _ _ List.nodup_range
  intro i c hc
  exact (ofIdx_some (ite_some_iff.1 hc).2).2

theorem mem_convertBinary (h : Hands) (hd : PartialDeal h) (p : Seat) (c : Card) :
    c ∈ convertBinary (toBinary h) p ↔ c ∈ h p := by
  simp only [convertBinary, List.mem_filterMap, List.mem_range, ite_some_iff]
  have key : ∀ q i, i < 52 → (toBinary h q).getD i 0 = 1 → Card.ofIdx? i = some c → c ∈ h q := by
    intro q i hi h1 hc
    obtain ⟨c', hc', rfl⟩ := (toBinary_getD h q i hi).1 h1
    have := (ofIdx_idx (hd.ok q c' hc')).2
    rw [this] at hc; cases hc; exact hc'
  constructor
  · rintro ⟨i, hi, h1, hc⟩
    split at h1
    · cases h1; exact key _ i hi ‹_› hc
    · split at h1
      · cases h1; exact key _ i hi ‹_› hc
      · split at h1
        · cases h1; exact key _ i hi ‹_› hc
        · split at h1
          · cases h1; exact key _ i hi ‹_› hc
          · cases h1
  · intro hc
    have hi := ofIdx_idx (hd.ok p c hc)
    refine ⟨c.idx, hi.1, ?_, hi.2⟩
    have hp : (toBinary h p).getD c.idx 0 = 1 := (toBinary_getD h p _ hi.1).2 ⟨c, hc, rfl⟩
    have hq : ∀ q, q ≠ p → ¬ (toBinary h q).getD c.idx 0 = 1 := by
      intro q hqp h1
      exact hd.disjoint hqp (key q c.idx hi.1 h1 hi.2) hc
    cases p
    · rw [if_pos hp]
    · rw [if_neg (hq .N (by decide)), if_pos hp]
    · rw [if_neg (hq .N (by decide)), if_neg (hq .E (by decide)), if_pos hp]
    · rw [if_neg (hq .N (by decide)), if_neg (hq .E (by decide)), if_neg (hq .S (by decide)), if_pos hp]

theorem freshPack_perm_deck : freshPack.Perm Card.deck := by decide +kernel
theorem deck_nodup : Card.deck.Nodup := by decide +kernel
theorem deck_ok : ∀ c ∈ Card.deck, c.ok = true := fun c hc => (deck_facts c hc).1

theorem handsAll_dealOfList (l : List Card) (hl : l.length = 52) : handsAll (dealOfList l) = l := by
  simp only [handsAll, dealOfList]
  have e1 : (l.drop 39).take 13 = l.drop 39 := List.take_of_length_le (by simp; omega)
  have e2 : l.drop 39 = (l.drop 26).drop 13 := by simp
  have e3 : l.drop 26 = (l.drop 13).drop 13 := by simp
  rw [e1, e2, List.append_assoc, List.append_assoc, List.take_append_drop, e3, List.take_append_drop,
    List.take_append_drop]

theorem dealOfList_length (l : List Card) (hl : l.length = 52) (p : Seat) : (dealOfList l p).length = 13 := by
  cases p <;> simp [dealOfList] <;> omega

theorem dealOfList_partial (l : List Card) (hp : l.Perm freshPack) :
    PartialDeal (dealOfList l) ∧ (∀ p, (dealOfList l p).length = 13) ∧
    (handsAll (dealOfList l)).Perm Card.deck := by
  have hpd := hp.trans freshPack_perm_deck
  have hl : l.length = 52 := hpd.length_eq.trans C15.deck_complete.1
  have hall := handsAll_dealOfList l hl
  refine ⟨⟨?_, ?_, ?_⟩, dealOfList_length l hl, by rw [hall]; exact hpd⟩
  · rw [hall]; exact hpd.nodup_iff.2 deck_nodup
  · intro p c hc
    apply deck_ok c (hpd.mem_iff.1 _)
    rw [← hall]
    simp only [handsAll, List.mem_append]
    cases p <;> simp [hc]
  · intro p; exact Or.inr (dealOfList_length l hl p)

/-- the PBN holding of one suit -/
def suitGroup (hand : List Card) (su : Suit) : List Char :=
  ((sortDesc hand).filter fun c => decide (c.suit = su)).map fun c => (rankChar? c.rank).getD '?'

theorem handToPbn_13 (hand : List Card) (hl : hand.length = 13) :
    handToPbn? hand = some (suitGroup hand .S ++ '.' :: (suitGroup hand .H ++ '.' :: (suitGroup hand .D ++ '.' :: suitGroup hand .C))) := by
  simp [handToPbn?, hl, pbnSuits, List.intercalate, suitGroup]

theorem count_filter_ite (p : Card → Bool) (a : Card) (l : List Card) :
    (l.filter p).count a = if p a then l.count a else 0 := by
  split
  · rename_i h; exact List.count_filter h
  · rename_i h
    apply List.count_eq_zero.2
    intro hm
    exact h (List.mem_filter.1 hm).2

theorem suit_partition (l : List Card) (h : ∀ c ∈ l, c.ok = true) :
    (l.filter (fun c => decide (c.suit = .S)) ++ (l.filter (fun c => decide (c.suit = .H)) ++
      (l.filter (fun c => decide (c.suit = .D)) ++ l.filter (fun c => decide (c.suit = .C))))).Perm l := by
  rw [List.perm_iff_count]
  intro a
  simp only [List.count_append, count_filter_ite]
  by_cases ha : a ∈ l
  · have := h a ha
    obtain ⟨r, s⟩ := a
    cases s <;> simp_all [Card.ok]
  · have := List.count_eq_zero.2 ha
    simp [this]

theorem filterMap_eq_self {α : Type} (f : α → Option α) (l : List α) (h : ∀ c ∈ l, f c = some c) :
    l.filterMap f = l := by
  induction l with
  | nil => rfl
  | cons c r ih =>
    rw [List.filterMap_cons, h c List.mem_cons_self, ih fun x hx => h x (List.mem_cons_of_mem _ hx)]

theorem suitGroup_rank (hand : List Card) (hok : ∀ c ∈ hand, c.ok = true) (su : Suit) :
    ∀ ch ∈ suitGroup hand su, isRankChar ch = true := by
  intro ch hch
  simp only [suitGroup, List.mem_map, List.mem_filter] at hch
  obtain ⟨c, ⟨hc, _⟩, rfl⟩ := hch
  exact (deck_facts c (mem_deck_of_ok (hok c ((sortDesc_perm hand).mem_iff.1 hc)))).2.2.2.2.1

theorem suitGroup_parse (hand : List Card) (hok : ∀ c ∈ hand, c.ok = true) (su : Suit) :
    ((suitGroup hand su).filterMap fun ch => (rankOfChar? ch).bind fun r => mkCard? r su) =
      (sortDesc hand).filter fun c => decide (c.suit = su) := by
  rw [suitGroup, List.filterMap_map]
  apply filterMap_eq_self
  intro c hc
  obtain ⟨hc, hs⟩ := List.mem_filter.1 hc
  have := (deck_facts c (mem_deck_of_ok (hok c ((sortDesc_perm hand).mem_iff.1 hc)))).2.2.2.2.2
  simp only [decide_eq_true_eq] at hs
  subst hs
  exact this

theorem suitGroup_length (hand : List Card) (hok : ∀ c ∈ hand, c.ok = true) :
    (suitGroup hand .S).length + (suitGroup hand .H).length + (suitGroup hand .D).length +
      (suitGroup hand .C).length = hand.length := by
  have := (suit_partition (sortDesc hand) fun c hc => hok c ((sortDesc_perm hand).mem_iff.1 hc)).length_eq
  rw [(sortDesc_perm hand).length_eq] at this
  simp only [List.length_append] at this
  simp only [suitGroup, List.length_map]
  omega

theorem tryLen_hit (cont : List Char → Option (List (List Char))) (g rest : List Char) (sep : Char)
    (gs : List (List Char)) (hc : cont rest = some gs) :
    tryLen cont (g ++ sep :: rest) g.length = some (g :: gs) := by
  cases g with
  | nil => simp [tryLen, hc]
  | cons a g' =>
    have hd : (a :: g' ++ sep :: rest).drop (g'.length + 1) = sep :: rest :=
      List.drop_left' (by simp)
    have ht : (a :: g' ++ sep :: rest).take (g'.length + 1) = a :: g' :=
      List.take_left' (by simp)
    simp only [List.length_cons, tryLen, hd, hc, ht]

theorem takeWhile_group (g rest : List Char) (hg : ∀ ch ∈ g, isRankChar ch = true) :
    (g ++ '.' :: rest).takeWhile isRankChar = g := by
  rw [List.takeWhile_append_of_pos hg, List.takeWhile_cons, not_rank_dot]; simp

theorem takeWhile_last (g : List Char) (hg : ∀ ch ∈ g, isRankChar ch = true) :
    g.takeWhile isRankChar = g := by
  have := List.takeWhile_append_of_pos (l₂ := []) hg
  simpa using this

theorem matchGroups_succ (k : Nat) (g rest : List Char) (gs : List (List Char))
    (hg : ∀ ch ∈ g, isRankChar ch = true) (h : matchGroups k rest = some gs) :
    matchGroups (k + 1) (g ++ '.' :: rest) = some (g :: gs) := by
  rw [matchGroups, takeWhile_group g rest hg]
  exact tryLen_hit _ g rest '.' gs h

theorem matchGroups_field (g1 g2 g3 g4 : List Char)
    (h1 : ∀ ch ∈ g1, isRankChar ch = true) (h2 : ∀ ch ∈ g2, isRankChar ch = true)
    (h3 : ∀ ch ∈ g3, isRankChar ch = true) (h4 : ∀ ch ∈ g4, isRankChar ch = true) :
    matchGroups 3 (g1 ++ '.' :: (g2 ++ '.' :: (g3 ++ '.' :: g4))) = some [g1, g2, g3, g4] := by
  apply matchGroups_succ _ _ _ _ h1
  apply matchGroups_succ _ _ _ _ h2
  apply matchGroups_succ _ _ _ _ h3
  rw [matchGroups, takeWhile_last g4 h4]

/-- what `takeHandField?` recognises -/
def IsField (f : List Char) : Prop := f = ['-'] ∨ (f.length = 16 ∧ ∀ ch ∈ f, isHandChar ch = true)

theorem takeHandField_field (f rest : List Char) (hf : IsField f) :
    takeHandField? (f ++ rest) = some (f, rest) := by
  rcases hf with rfl | ⟨hl, hc⟩
  · have : ¬ ((List.take 16 (['-'] ++ rest)).length = 16 ∧ (List.take 16 (['-'] ++ rest)).all isHandChar = true) := by
      rintro ⟨_, h⟩
      simp [not_hand_dash] at h
    unfold takeHandField?
    rw [if_neg this]
    rfl
  · have ht : (f ++ rest).take 16 = f := List.take_left' hl
    have hd : (f ++ rest).drop 16 = rest := List.drop_left' hl
    unfold takeHandField?
    rw [ht, hd, if_pos]
    exact ⟨hl, List.all_eq_true.2 hc⟩

/-- the PBN field of one hand -/
def handField (hand : List Card) : List Char :=
  if hand.length = 0 then ['-']
  else suitGroup hand .S ++ '.' :: (suitGroup hand .H ++ '.' :: (suitGroup hand .D ++ '.' :: suitGroup hand .C))

theorem handToPbn_field (hand : List Card) (hs : hand.length = 0 ∨ hand.length = 13) :
    handToPbn? hand = some (handField hand) := by
  rcases hs with hs | hs
  · simp [handToPbn?, handField, hs]
  · rw [handToPbn_13 hand hs, handField, if_neg (by omega)]

theorem handField_length (hand : List Card) (hok : ∀ c ∈ hand, c.ok = true) (hs : hand.length = 13) :
    (handField hand).length = 16 := by
  have := suitGroup_length hand hok
  rw [handField, if_neg (by omega)]
  simp only [List.length_append, List.length_cons]
  omega

theorem handField_isField (hand : List Card) (hok : ∀ c ∈ hand, c.ok = true)
    (hs : hand.length = 0 ∨ hand.length = 13) : IsField (handField hand) := by
  rcases hs with hs | hs
  · left; simp [handField, hs]
  · right
    refine ⟨handField_length hand hok hs, ?_⟩
    rw [handField, if_neg (by omega)]
    have := suitGroup_rank hand hok
    intro ch hch
    simp only [List.mem_append, List.mem_cons] at hch
    simp only [isHandChar, Bool.or_eq_true, beq_iff_eq]
    rcases hch with h | rfl | h | rfl | h | rfl | h
    all_goals first | exact Or.inr rfl | exact Or.inl (this _ _ h)

theorem handParser_field (hand : List Card) (hok : ∀ c ∈ hand, c.ok = true) (hn : hand.Nodup)
    (hs : hand.length = 0 ∨ hand.length = 13) :
    ∃ l, handParser? (handField hand) = some l ∧ l.Perm hand := by
  rcases hs with hs | hs
  · refine ⟨[], by simp [handField, hs, handParser?], ?_⟩
    rw [List.length_eq_zero_iff.1 hs]
  · have hne : handField hand ≠ ['-'] := by
      intro e
      have := handField_length hand hok hs
      rw [e] at this; simp at this
    have hm := matchGroups_field _ _ _ _ (suitGroup_rank hand hok .S) (suitGroup_rank hand hok .H)
      (suitGroup_rank hand hok .D) (suitGroup_rank hand hok .C)
    have hsok : ∀ c ∈ sortDesc hand, c.ok = true := fun c hc => hok c ((sortDesc_perm hand).mem_iff.1 hc)
    have hperm := (suit_partition (sortDesc hand) hsok).trans (sortDesc_perm hand)
    refine ⟨_, ?_, hperm⟩
    unfold handParser?
    rw [if_neg hne]
    have : handField hand = suitGroup hand .S ++ '.' :: (suitGroup hand .H ++ '.' :: (suitGroup hand .D ++ '.' :: suitGroup hand .C)) := by
      rw [handField, if_neg (by omega)]
    rw [this, hm]
    simp only [suitGroup_parse hand hok, List.append_assoc]
    rw [dedup_of_nodup _ (hperm.nodup_iff.2 hn)]

theorem toPbn_eq (h : Hands) (hs : ∀ p, (h p).length = 0 ∨ (h p).length = 13) (first : Seat) :
    toPbn? h first = some (first.name ++ [':'] ++ handField (h first) ++ [' '] ++ handField (h first.left) ++
      [' '] ++ handField (h first.left.left) ++ [' '] ++ handField (h first.left.left.left)) := by
  simp [toPbn?, seatsFrom, List.mapM_cons, handToPbn_field _ (hs _)]

theorem convertPbn_fields (first : Seat) (a b c d : List Char) (c0 c1 c2 c3 : List Card)
    (ha : IsField a) (hb : IsField b) (hc : IsField c) (hd : IsField d)
    (pa : handParser? a = some c0) (pb : handParser? b = some c1)
    (pc : handParser? c = some c2) (pd : handParser? d = some c3) :
    convertPbn? (first.name ++ [':'] ++ a ++ [' '] ++ b ++ [' '] ++ c ++ [' '] ++ d) =
      some fun p => if p = first then c0 else if p = first.left then c1
                  else if p = first.left.left then c2 else c3 := by
  have e : first.name ++ [':'] ++ a ++ [' '] ++ b ++ [' '] ++ c ++ [' '] ++ d =
      (first.name.headD 'N') :: ':' :: (a ++ ' ' :: (b ++ ' ' :: (c ++ ' ' :: (d ++ [])))) := by
    cases first <;> simp [Seat.name]
  have hn : seatOfName? [first.name.headD 'N'] = some first := by cases first <;> rfl
  rw [e]
  unfold convertPbn?
  simp only [hn, takeHandField_field _ _ ha, takeHandField_field _ _ hb, takeHandField_field _ _ hc,
    takeHandField_field _ _ hd, pa, pb, pc, pd]

theorem suitRanksDesc_map (hand : List Card) (su : Suit) :
    (suitRanksDesc hand su).map (fun r => (rankChar? r).getD '?') = suitGroup hand su := by
  simp [suitRanksDesc, suitGroup, List.map_map, Function.comp_def]

theorem strictDesc_of_pairwise (l : List Nat) (h : l.Pairwise fun a b => b < a) : StrictDesc l := by
  induction l with
  | nil => trivial
  | cons a r ih =>
    cases r with
    | nil => trivial
    | cons b r' =>
      rw [List.pairwise_cons] at h
      exact ⟨h.1 b List.mem_cons_self, ih h.2⟩

theorem suitRanksDesc_strict (hand : List Card) (hok : ∀ c ∈ hand, c.ok = true) (hn : hand.Nodup)
    (su : Suit) : StrictDesc (suitRanksDesc hand su) := by
  apply strictDesc_of_pairwise
  rw [suitRanksDesc, List.pairwise_map]
  refine List.Pairwise.imp_of_mem ?_ ((sortDesc_strict hand hok hn).filter _)
  intro a b ha hb hlt
  have h1 := (List.mem_filter.1 ha).2
  have h2 := (List.mem_filter.1 hb).2
  simp only [decide_eq_true_eq] at h1 h2
  simp only [Card.idx, h1, h2] at hlt
  omega

theorem mem_suitRanksDesc (hand : List Card) (su : Suit) (r : Nat) :
    r ∈ suitRanksDesc hand su ↔ (⟨r, su⟩ : Card) ∈ hand := by
  simp only [suitRanksDesc, List.mem_map, List.mem_filter, (sortDesc_perm hand).mem_iff,
    decide_eq_true_eq]
  constructor
  · rintro ⟨⟨r', s'⟩, ⟨hc, rfl⟩, rfl⟩
    exact hc
  · intro hc
    exact ⟨⟨r, su⟩, ⟨hc, rfl⟩, rfl⟩

end Bridge
