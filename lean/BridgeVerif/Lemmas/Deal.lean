import BridgeVerif.Spec.Deal
/-! Helper lemmas for C14 (deal encodings). -/
namespace Bridge

end Bridge
