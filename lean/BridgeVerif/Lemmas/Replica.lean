import BridgeVerif.Spec.Replica
import BridgeVerif.Lemmas.SessionC08
import BridgeVerif.Lemmas.Deal
import BridgeVerif.Props.C06
import BridgeVerif.Props.C11a
import BridgeVerif.Props.C19
/-! Helper lemmas for C11 (protocol half): the table manager's and the clients' reading of a board's messages. -/
namespace Bridge

/-! ## the auction -/

theorem serverCalls_of_parse (dealer : Seat) : ∀ (l : List (Call × Text)) (j : Nat),
    (∀ i (h : i < l.length), parseBid? (preprocessBid l[i].2) (dealer.rot (j + i)).formal = some l[i].1) →
    serverCalls dealer j l = some (l.map (·.1)) := by
  intro l
  induction l with
  | nil => intro j _; rfl
  | cons x rest ih =>
    intro j h
    obtain ⟨c, text⟩ := x
    have h0 : parseBid? (preprocessBid text) (dealer.rot j).formal = some c := h 0 (by simp)
    have hr := ih (j + 1) (fun i hi => by
      have := h (i + 1) (by simp; omega)
      simpa [Nat.add_assoc, Nat.add_comm 1 i] using this)
    simp [serverCalls, h0, hr]

theorem clientCalls_of_parse (p dealer : Seat) : ∀ (l : List (Call × Text)) (j : Nat),
    (∀ i (h : i < l.length), parseBid? (preprocessBid l[i].2) (dealer.rot (j + i)).formal = some l[i].1) →
    clientCalls p dealer j l = some (l.map (·.1)) := by
  intro l
  induction l with
  | nil => intro j _; rfl
  | cons x rest ih =>
    intro j h
    obtain ⟨c, text⟩ := x
    have h0 : parseBid? (preprocessBid text) (dealer.rot j).formal = some c := h 0 (by simp)
    have hr := ih (j + 1) (fun i hi => by
      have := h (i + 1) (by simp; omega)
      simpa [Nat.add_assoc, Nat.add_comm 1 i] using this)
    rw [clientCalls]
    split <;> simp [h0, hr]

theorem texts_take (b : BoardSetting) (d : Decisions) (ht : TextsConform b d) (k : Nat) :
    ∀ i (h : i < (d.calls.take k).length),
      parseBid? (preprocessBid (d.calls.take k)[i].2) (b.dealer.rot (0 + i)).formal = some (d.calls.take k)[i].1 := by
  intro i h
  have hi : i < d.calls.length := by
    rw [List.length_take] at h; omega
  have := ht.calls i hi
  simpa [List.getElem_take] using this

theorem serverCalls_conform (b : BoardSetting) (d : Decisions) (ht : TextsConform b d) :
    serverCalls b.dealer 0 d.calls = some (d.calls.map (·.1)) := by
  apply serverCalls_of_parse
  intro i h
  simpa using ht.calls i h

theorem clientCalls_conform (b : BoardSetting) (d : Decisions) (ht : TextsConform b d) (p : Seat) (k : Nat) :
    ∃ cs, clientCalls p b.dealer 0 (d.calls.take k) = some cs ∧
          serverCalls b.dealer 0 (d.calls.take k) = some cs ∧
          auctionAfter b cs = auctionAfter b ((d.calls.take k).map (·.1)) :=
  ⟨(d.calls.take k).map (·.1), clientCalls_of_parse p b.dealer _ 0 (texts_take b d ht k),
    serverCalls_of_parse b.dealer _ 0 (texts_take b d ht k), rfl⟩

theorem client_contract (b : BoardSetting) (d : Decisions) (ht : TextsConform b d) (p : Seat) :
    ∃ cs, clientCalls p b.dealer 0 d.calls = some cs ∧
      (auctionAfter b cs).contract = contractOfCalls b (d.calls.map (·.1)) := by
  refine ⟨d.calls.map (·.1), ?_, rfl⟩
  apply clientCalls_of_parse
  intro i h
  simpa using ht.calls i h

/-! ## the play -/

/-- every text parses, for the seat on turn, to the decided card (`TextsConform.cards` from an arbitrary state) -/
def CardTexts (s : PState) (l : List (Card × Text)) : Prop :=
  ∀ j (h : j < l.length), parseCard? l[j].2 (runPlay s ((l.take j).map (·.1))).active = some l[j].1

theorem cardTexts_nil (s : PState) : CardTexts s [] := by
  intro j h; simp at h

theorem cardTexts_cons (s : PState) (c : Card) (t : Text) (rest : List (Card × Text)) :
    CardTexts s ((c, t) :: rest) ↔ (parseCard? t s.active = some c ∧ CardTexts (playCard s c) rest) := by
  constructor
  · intro h
    refine ⟨h 0 (by simp), ?_⟩
    intro j hj
    have := h (j + 1) (by simp; omega)
    simpa using this
  · rintro ⟨h1, h2⟩ j hj
    cases j with
    | zero => simpa using h1
    | succ j =>
      have := h2 j (by simpa using hj)
      simpa using this

theorem playsAccepted_cons (w : WithHands) (c : Card) (cs : List Card) :
    playsAccepted w (c :: cs) =
      match w.play c w.base.active with
      | .ok w' => playsAccepted w' cs
      | .error _ => none := by
  unfold playsAccepted
  rw [List.foldlM_cons]
  cases w.play c w.base.active <;> rfl

theorem serverPlay_eq_playsAccepted : ∀ (l : List (Card × Text)) (w : WithHands), CardTexts w.base l →
    serverPlay w l = playsAccepted w (l.map (·.1)) := by
  intro l
  induction l with
  | nil => intro w _; rfl
  | cons x rest ih =>
    intro w h
    obtain ⟨c, t⟩ := x
    obtain ⟨h1, h2⟩ := (cardTexts_cons _ _ _ _).1 h
    rw [List.map_cons, playsAccepted_cons]
    cases hp : w.play c w.base.active with
    | error e => simp [serverPlay, h1, hp]
    | ok w1 =>
      have hb := play_base _ _ _ _ hp
      simp only [serverPlay, h1, hp, Option.bind_eq_bind, Option.bind_some]
      exact ih w1 (by rw [hb]; exact h2)

theorem cardTexts_of_conform (b : BoardSetting) (d : Decisions) (ht : TextsConform b d)
    (w0 : WithHands) (hw : WithHands.init (boardContract b d) b.deal = some w0) : CardTexts w0.base d.cards := by
  obtain ⟨s0, hs, rfl⟩ := withHands_init_some hw
  exact ht.cards s0 hs

theorem serverPlay_conform (b : BoardSetting) (d : Decisions) (ht : TextsConform b d) (hp : ConformingPlay b d)
    (w0 : WithHands) (hw : WithHands.init (boardContract b d) b.deal = some w0) :
    serverPlay w0 d.cards = playsAccepted w0 (d.cards.map (·.1)) ∧ (serverPlay w0 d.cards).isSome = true := by
  have h := serverPlay_eq_playsAccepted d.cards w0 (cardTexts_of_conform b d ht w0 hw)
  refine ⟨h, ?_⟩
  rw [h]
  unfold ConformingPlay at hp
  rw [hw] at hp
  exact hp.2

/-- the client of seat `p` follows the table manager card by card -/
theorem clientPlay_follows (p decl : Seat) (dh : List Card) :
    ∀ (l : List (Card × Text)) (w : WithHands) (o : Observed) (j : Nat),
    FInv w o → o.me = p → w.base.dummy = decl.partner → (j = 0 ↔ w.base.used = []) →
    (w.base.used = [] → w.hands decl.partner = dh) →
    CardTexts w.base l → (playsAccepted w (l.map (·.1))).isSome = true →
    ∀ k, ∃ w' o', serverPlay w (l.take k) = some w' ∧ clientPlay p decl dh o j (l.take k) = some o' ∧
      FInv w' o' := by
  intro l
  induction l with
  | nil => intro w o j hi _ _ _ _ _ _ k; exact ⟨w, o, by simp [serverPlay], by simp [clientPlay], hi⟩
  | cons x rest ih =>
    intro w o j hi hme hdum hj hdh ht hacc k
    obtain ⟨c, t⟩ := x
    cases k with
    | zero => exact ⟨w, o, by simp [serverPlay], by simp [clientPlay], hi⟩
    | succ k =>
      obtain ⟨h1, h2⟩ := (cardTexts_cons _ _ _ _).1 ht
      rw [List.map_cons, playsAccepted_cons] at hacc
      cases hp : w.play c w.base.active with
      | error e => rw [hp] at hacc; simp at hacc
      | ok w1 =>
        rw [hp] at hacc
        have hb := play_base _ _ _ _ hp
        obtain ⟨o1, hoplay, hi1, hme1⟩ := finv_step w w1 o c _ hi hp
        have hact : o.base.active = w.base.active := by rw [hi.rel.base]
        have hdum1 : w1.base.dummy = decl.partner := by rw [hb, playCard_dummy]; exact hdum
        have ho1me : o1.me = p := ((C05.observed_conservation o o1 c _ hoplay).2.1).trans hme
        have hused1 : w1.base.used ≠ [] := by rw [hb, playCard_used]; exact setAdd_ne_nil _ _
        -- the replica the client continues with is the one of the feed
        have hsame : (if j = 0 ∧ p ≠ decl.partner then o1.setDummy dh else o1) =
            (if w.base.used = [] ∧ o1.me ≠ w1.base.dummy then o1.setDummy (w1.hands w1.base.dummy) else o1) := by
          rw [ho1me, hdum1]
          by_cases hu : w.base.used = []
          · have hj0 : j = 0 := hj.2 hu
            have hne : w.base.active ≠ decl.partner := by rw [← hdum]; exact hi.lead hu
            have hh : w1.hands decl.partner = dh := by
              rw [(C05.accepted_effect w w1 c _ hp).2.1 decl.partner (fun e => hne e.symm)]
              exact hdh hu
            simp [hu, hj0, hh]
          · have hj0 : j ≠ 0 := fun e => hu (hj.1 e)
            simp [hu, hj0]
        rw [← hsame] at hi1 hme1
        obtain ⟨w', o', hs, hc, hi'⟩ := ih w1 _ (j + 1) hi1 (hme1.trans hme) hdum1
          ⟨fun e => by omega, fun e => absurd e hused1⟩ (fun e => absurd e hused1)
          (by rw [hb]; exact h2) hacc k
        refine ⟨w', o', ?_, ?_, hi'⟩
        · simp only [List.take_succ_cons, serverPlay, h1, hp, Option.bind_eq_bind, Option.bind_some]
          exact hs
        · rw [← hact] at hoplay h1
          rw [List.take_succ_cons, clientPlay]
          split <;> simp only [h1, hoplay, Option.bind_eq_bind, Option.bind_some] <;> exact hc

theorem clientPlay_conform (b : BoardSetting) (d : Decisions) (ht : TextsConform b d) (hp : ConformingPlay b d)
    (decl : Seat) (hdecl : (boardContract b d).declarer = some decl) (p : Seat)
    (w0 : WithHands) (hw : WithHands.init (boardContract b d) b.deal = some w0)
    (o0 : Observed) (ho : Observed.init (boardContract b d) p (b.deal p) = some o0) (k : Nat) :
    ∃ w o, serverPlay w0 (d.cards.take k) = some w ∧
           clientPlay p decl (b.deal decl.partner) o0 0 (d.cards.take k) = some o ∧ ObsRel w o := by
  obtain ⟨hi, hme⟩ := finv_init hw ho
  have hct := cardTexts_of_conform b d ht w0 hw
  have hacc : (playsAccepted w0 (d.cards.map (·.1))).isSome = true := by
    unfold ConformingPlay at hp
    rw [hw] at hp
    exact hp.2
  obtain ⟨s0, hs, rfl⟩ := withHands_init_some hw
  obtain ⟨bb, dd, _, hd, rfl⟩ := init_some hs
  have hdd : dd = decl := by rw [hd] at hdecl; exact Option.some.inj hdecl
  subst hdd
  obtain ⟨w, o, h1, h2, h3⟩ := clientPlay_follows p dd (b.deal dd.partner) d.cards _ o0 0 hi hme rfl
    ⟨fun _ => rfl, fun _ => rfl⟩ (fun _ => rfl) hct hacc k
  exact ⟨w, o, h1, h2, h3.rel⟩

/-! ## the bundled example client: the auction 1♣ – pass – pass – pass -/

theorem weak_calls (d : Seat) : (weakBidCalls d).map (·.1) = [.bid ⟨0, by omega⟩, .pass, .pass, .pass] := rfl

theorem weak_contract (d : Seat) (v : Vul) :
    (runAuction (AState.init d v) [.bid ⟨0, by omega⟩, .pass, .pass, .pass]).1.contract =
      some ⟨some ⟨0, by omega⟩, false, false, v, some d⟩ := by
  cases d <;> rfl

theorem weak_legal (d : Seat) : LegalLaw d [.pass, .pass, .pass, .bid ⟨0, by omega⟩] :=
  .cons (.cons (.cons (.cons .nil rfl rfl) rfl rfl) rfl rfl) rfl rfl

theorem weak_ended : EndedLaw [.pass, .pass, .pass, .bid ⟨0, by omega⟩] :=
  Or.inr ⟨_, [], by simp, rfl⟩

/-- the bundled client's call texts carry no alert: the table manager parses them as they are -/
theorem weak_no_alert (c : Call) (hc : c = .bid ⟨0, by omega⟩ ∨ c = .pass) (p : Seat) :
    preprocessBid (bidMsg c p.formal) = bidMsg c p.formal := by
  rcases hc with rfl | rfl <;> cases p <;> decide +kernel

theorem weak_parse (c : Call) (hc : c = .bid ⟨0, by omega⟩ ∨ c = .pass) (p : Seat) :
    parseBid? (preprocessBid (bidMsg c p.formal)) p.formal = some c := by
  rw [weak_no_alert c hc p]
  exact C19.bid_msg_round_trip c p _ rfl

theorem bundled_boardContract (b : BoardSetting) (choose : List Card → Card) :
    boardContract b (bundledDecisions b choose) = ⟨some ⟨0, by omega⟩, false, false, b.vul, some b.dealer⟩ := by
  show (contractOfCalls b ((weakBidCalls b.dealer).map (·.1))).getD _ = _
  rw [weak_calls, contractOfCalls, weak_contract]; rfl

/-! ## the bundled example client: 52 accepted cards -/

theorem seat_rot_cases (l q : Seat) : ∃ i, i < 4 ∧ q = l.rot i := by
  cases l <;> cases q <;>
    first
    | exact ⟨0, by omega, rfl⟩
    | exact ⟨1, by omega, rfl⟩
    | exact ⟨2, by omega, rfl⟩
    | exact ⟨3, by omega, rfl⟩

theorem seat_rot_inj (l : Seat) (i j : Nat) (hi : i < 4) (hj : j < 4) (h : l.rot i = l.rot j) : i = j := by
  have h1 : i = 0 ∨ i = 1 ∨ i = 2 ∨ i = 3 := by omega
  have h2 : j = 0 ∨ j = 1 ∨ j = 2 ∨ j = 3 := by omega
  rcases h1 with rfl | rfl | rfl | rfl <;> rcases h2 with rfl | rfl | rfl | rfl <;>
    first
    | rfl
    | (exfalso; revert h; cases l <;> decide)

/-- hand sizes after `n` accepted cards of four 13-card hands: a seat that has already played to the current trick
holds one card less than a seat that has not -/
structure HS (w : WithHands) (n : Nat) : Prop where
  played : ∀ i, i < n % 4 → (w.hands (w.base.leader.rot i)).length + n / 4 + 1 = 13
  toPlay : ∀ i, n % 4 ≤ i → i < 4 → (w.hands (w.base.leader.rot i)).length + n / 4 = 13

theorem hs_step {w w' : WithHands} {n : Nat} {c : Card} (hp : PInv w.base n) (hs : HS w n)
    (hw : w.play c w.base.active = .ok w') : HS w' (n + 1) := by
  have hact : w.base.active = w.base.leader.rot (n % 4) := by rw [hp.act, hp.len]
  have hn4 : n % 4 < 4 := Nat.mod_lt _ (by omega)
  obtain ⟨herase, hsame, hb, _⟩ := C05.accepted_effect w w' c _ hw
  have hmem : c ∈ w.hands w.base.active := ((play_ok_iff w c _ w').1 hw).2.1
  have hpos : 0 < (w.hands w.base.active).length := List.length_pos_of_mem hmem
  have hel : (w'.hands w.base.active).length + 1 = (w.hands w.base.active).length := by
    rw [herase, List.length_erase_of_mem hmem]; omega
  have hcur := hs.toPlay (n % 4) (Nat.le_refl _) hn4
  rw [← hact] at hcur
  by_cases h3 : w.base.trick.length = 3
  · have hn3 : n % 4 = 3 := by rw [← hp.len]; exact h3
    constructor
    · intro i hi; omega
    · intro i _ hi
      generalize w'.base.leader.rot i = q
      obtain ⟨i', hi', rfl⟩ := seat_rot_cases w.base.leader q
      by_cases h : i' = 3
      · subst h
        rw [← hn3, ← hact]
        omega
      · have hne : w.base.leader.rot i' ≠ w.base.active := by
          rw [hact]; intro e
          have := seat_rot_inj _ _ _ hi' hn4 e
          omega
        rw [hsame _ hne]
        have := hs.played i' (by omega)
        omega
  · have hn3 : n % 4 ≠ 3 := by rw [← hp.len]; exact h3
    have hl : w'.base.leader = w.base.leader := by rw [hb, playCard_incomplete _ _ h3]
    constructor
    · intro i hi
      rw [hl]
      by_cases h : i = n % 4
      · subst h
        rw [← hact]
        omega
      · have hne : w.base.leader.rot i ≠ w.base.active := by
          rw [hact]; intro e
          exact h (seat_rot_inj _ _ _ (by omega) hn4 e)
        rw [hsame _ hne]
        have := hs.played i (by omega)
        omega
    · intro i h1 h2
      rw [hl]
      have hne : w.base.leader.rot i ≠ w.base.active := by
        rw [hact]; intro e
        have := seat_rot_inj _ _ _ h2 hn4 e
        omega
      rw [hsame _ hne]
      have := hs.toPlay i (by omega) h2
      omega

/-- `RandomPlay` never runs out of cards before the 52nd: with `n` cards played, `fuel ≤ 52 - n` further rounds
produce `fuel` cards, each accepted by the table manager, each announced by a text that parses to it -/
theorem randomPlay_spec (choose : List Card → Card) (hc : ChoiceOK choose) :
    ∀ (fuel : Nat) (w : WithHands) (n : Nat), PInv w.base n → HS w n →
    (∀ q, ∀ x ∈ w.hands q, x.ok = true) → n + fuel ≤ 52 →
    (randomPlayCards choose fuel w).length = fuel ∧
    (playsAccepted w ((randomPlayCards choose fuel w).map (·.1))).isSome = true ∧
    CardTexts w.base (randomPlayCards choose fuel w) := by
  intro fuel
  induction fuel with
  | zero => intro w n _ _ _ _; exact ⟨rfl, rfl, cardTexts_nil _⟩
  | succ fuel ih =>
    intro w n hp hs hok hn
    have hact : w.base.active = w.base.leader.rot (n % 4) := by rw [hp.act, hp.len]
    have hlen : (w.hands w.base.active).length + n / 4 = 13 := by
      rw [hact]; exact hs.toPlay _ (Nat.le_refl _) (Nat.mod_lt _ (by omega))
    have hne : w.hands w.base.active ≠ [] := by
      intro e; rw [e] at hlen; simp at hlen; omega
    obtain ⟨_, hmem⟩ := C06.random_play_in_available choose hc w.base _ hne
    generalize hcdef : choose (w.base.currentAvailable (w.hands w.base.active)) = c at hmem
    obtain ⟨w', hplay⟩ := (C05.accepted_iff w c w.base.active).2 ⟨rfl, hmem⟩
    have hrp : randomPlayCards choose (fuel + 1) w =
        (c, playMsg w.base.active c false) :: randomPlayCards choose fuel w' := by
      rw [randomPlayCards]
      simp only [hcdef, hplay]
    obtain ⟨herase, hsame, hb, _⟩ := C05.accepted_effect w w' c _ hplay
    have hok' : ∀ q, ∀ x ∈ w'.hands q, x.ok = true := by
      intro q x hx
      by_cases hq : q = w.base.active
      · subst hq
        rw [herase] at hx
        exact hok _ x (List.mem_of_mem_erase hx)
      · rw [hsame q hq] at hx
        exact hok q x hx
    obtain ⟨i1, i2, i3⟩ := ih w' (n + 1) (by rw [hb]; exact pinv_step hp c) (hs_step hp hs hplay) hok'
      (by omega)
    rw [hrp]
    refine ⟨by simp [i1], ?_, ?_⟩
    · rw [List.map_cons, playsAccepted_cons]
      simp only [hplay]
      exact i2
    · refine (cardTexts_cons _ _ _ _).2 ⟨?_, by rw [← hb]; exact i3⟩
      exact C19.card_msg_round_trip c (mem_deck_of_ok (hok _ c hmem)) _ false _ rfl

theorem bundled_conform (b : BoardSetting) (choose : List Card → Card) (hc : ChoiceOK choose)
    (hdeal : PartialDeal b.deal) (h13 : ∀ p, (b.deal p).length = 13) :
    ConformingAuction b (bundledDecisions b choose) ∧ ConformingPlay b (bundledDecisions b choose) ∧
    TextsConform b (bundledDecisions b choose) := by
  have hcon := bundled_boardContract b choose
  -- the play starts: declarer is the dealer
  obtain ⟨s0, hs0, hldr, -⟩ := C04.opening_lead_and_dummy (boardContract b (bundledDecisions b choose))
    ⟨0, by omega⟩ b.dealer (by rw [hcon]) (by rw [hcon])
  have hw0 : WithHands.init (boardContract b (bundledDecisions b choose)) b.deal = some ⟨s0, b.deal⟩ := by
    simp [WithHands.init, hs0]
  have hcards : (bundledDecisions b choose).cards = randomPlayCards choose 52 ⟨s0, b.deal⟩ := by
    have h : (bundledDecisions b choose).cards =
        match WithHands.init (boardContract b (bundledDecisions b choose)) b.deal with
        | some w0 => randomPlayCards choose 52 w0
        | none => [] := rfl
    rw [h, hw0]
  have hs : HS ⟨s0, b.deal⟩ 0 := ⟨fun i hi => by omega, fun i _ _ => by simpa using h13 _⟩
  obtain ⟨r1, r2, r3⟩ := randomPlay_spec choose hc 52 ⟨s0, b.deal⟩ 0 (pinv_init hs0) hs hdeal.ok (by omega)
  refine ⟨⟨weak_legal b.dealer, weak_ended⟩, ?_, ⟨?_, ?_⟩⟩
  · unfold ConformingPlay
    rw [hw0, hcards]
    exact ⟨r1, r2⟩
  · intro j h
    have h4 : j < 4 := h
    have hj : j = 0 ∨ j = 1 ∨ j = 2 ∨ j = 3 := by omega
    rcases hj with rfl | rfl | rfl | rfl
    · exact weak_parse _ (Or.inl rfl) b.dealer
    · exact weak_parse _ (Or.inr rfl) b.dealer.left
    · exact weak_parse _ (Or.inr rfl) b.dealer.left.left
    · exact weak_parse _ (Or.inr rfl) b.dealer.left.left.left
  · intro s0' hs0' 
    have : s0' = s0 := by rw [hs0] at hs0'; exact (Option.some.inj hs0').symm
    subst this
    rw [hcards]
    exact r3

/-- the session of four bundled clients completes under every schedule (C09 holds for every scenario) -/
theorem bundled_session_completes (ns ew : Text) (bs : List BoardSetting) (choose : List Card → Card)
    (us : List Tid) (n' : Net Tid Chan Text LogOp)
    (hr : Run parties (Net.init (sessionProg ⟨ns, ew, bs.map fun b => (b, bundledDecisions b choose)⟩)) us n') :
    ∃ vs nf, Run parties n' vs nf ∧ AllDone nf ∧ (∀ c, nf.chan c = []) := by
  obtain ⟨vs, nf, h1, _, h2, h3, _⟩ := C09.session_always_completes _ us n' hr
  exact ⟨vs, nf, h1, h2, h3⟩

end Bridge
