import BridgeVerif.Spec.JsonLog
/-!
# Numbers: `scanInt` undoes `intRepr`  (part of `JsonRoundTrip`)
-/
namespace Bridge

/-- the digit character of `k < 10` -/
def digitChar (k : Nat) : Char := Char.ofNat ('0'.toNat + k)

def isDig (c : Char) : Bool := decide ('0' ≤ c ∧ c ≤ '9')

theorem digitChar_facts_fin : ∀ k : Fin 10,
    isDig (digitChar k.val) = true ∧ (digitChar k.val).toNat - '0'.toNat = k.val ∧
    (digitChar k.val = '0' → k.val = 0) := by decide

theorem isDig_digitChar (k : Nat) (h : k < 10) : isDig (digitChar k) = true := (digitChar_facts_fin ⟨k, h⟩).1
theorem digitChar_val (k : Nat) (h : k < 10) : (digitChar k).toNat - '0'.toNat = k := (digitChar_facts_fin ⟨k, h⟩).2.1
theorem digitChar_zero (k : Nat) (h : k < 10) : digitChar k = '0' → k = 0 := (digitChar_facts_fin ⟨k, h⟩).2.2

@[reducible] def digVal : Nat → Char → Nat := fun n c => n * 10 + (c.toNat - '0'.toNat)

theorem natDigits_succ (fuel n : Nat) (acc : List Char) :
    natDigits (fuel + 1) n acc =
      if n < 10 then digitChar (n % 10) :: acc else natDigits fuel (n / 10) (digitChar (n % 10) :: acc) := rfl

theorem foldl_natDigits (fuel : Nat) : ∀ (n : Nat) (acc : List Char), n < fuel →
    (natDigits fuel n acc).foldl digVal 0 = acc.foldl digVal n := by
  induction fuel with
  | zero => intro n acc h; omega
  | succ fuel ih =>
    intro n acc h
    rw [natDigits_succ]
    split
    · next h10 =>
      simp only [List.foldl_cons, digVal, digitChar_val _ (Nat.mod_lt n (by decide))]
      congr 1; omega
    · next h10 =>
      rw [ih _ _ (by omega)]
      simp only [List.foldl_cons, digVal, digitChar_val _ (Nat.mod_lt n (by decide))]
      congr 1; omega

theorem natDigits_shape (fuel : Nat) : ∀ (n : Nat) (acc : List Char), n < fuel →
    ∃ d ds, natDigits fuel n acc = d :: (ds ++ acc) ∧ isDig d = true ∧ (∀ c ∈ ds, isDig c = true) ∧
      (d = '0' → n = 0 ∧ ds = []) := by
  induction fuel with
  | zero => intro n acc h; omega
  | succ fuel ih =>
    intro n acc h
    rw [natDigits_succ]
    split
    · next h10 =>
      refine ⟨digitChar (n % 10), [], rfl, isDig_digitChar _ (Nat.mod_lt n (by decide)), by simp, ?_⟩
      intro h0
      have := digitChar_zero _ (Nat.mod_lt n (by decide)) h0
      exact ⟨by omega, rfl⟩
    · next h10 =>
      obtain ⟨d, ds, he, hd, hds, h0⟩ := ih (n / 10) (digitChar (n % 10) :: acc) (by omega)
      refine ⟨d, ds ++ [digitChar (n % 10)], by simp [he], hd, ?_, ?_⟩
      · intro c hc
        rcases List.mem_append.1 hc with hc | hc
        · exact hds c hc
        · simp at hc; subst hc; exact isDig_digitChar _ (Nat.mod_lt n (by decide))
      · intro hz
        have := (h0 hz).1
        omega

/-- what may follow a number: not a digit, not a fraction or an exponent -/
def numEnd : List Char → Bool
  | [] => true
  | c :: _ => !isDig c && c != '.' && c != 'e' && c != 'E'

theorem takeWhile_isDig (ds rest : List Char) (hds : ∀ c ∈ ds, isDig c = true) (hr : numEnd rest = true) :
    (ds ++ rest).takeWhile isDig = ds := by
  induction ds with
  | nil =>
    cases rest with
    | nil => rfl
    | cons c r =>
      simp [numEnd] at hr
      simp [hr.1]
  | cons d ds ih =>
    have hd := hds d (by simp)
    simp only [List.cons_append, List.takeWhile_cons, hd, if_true]
    rw [ih (fun c hc => hds c (by simp [hc]))]


theorem isDig_facts (d : Char) (h : isDig d = true) :
    d ≠ '-' ∧ d ≠ '"' ∧ d ≠ '{' ∧ d ≠ '[' ∧ d ≠ 'n' ∧ d ≠ 't' ∧ d ≠ 'f' ∧ d ≠ '.' ∧ d ≠ 'e' ∧ d ≠ 'E' := by
  refine ⟨?_, ?_, ?_, ?_, ?_, ?_, ?_, ?_, ?_, ?_⟩ <;> (rintro rfl; exact absurd h (by decide))

theorem scanInt_pos (d : Char) (ds rest : List Char) (hd : isDig d = true) (hds : ∀ c ∈ ds, isDig c = true)
    (h0 : d = '0' → ds = []) (hr : numEnd rest = true) :
    scanInt (d :: (ds ++ rest)) = some ((((d :: ds).foldl digVal 0 : Nat) : Int), rest) := by
  have hne := (isDig_facts d hd).1
  have htw : (d :: (ds ++ rest)).takeWhile (fun c => decide ('0' ≤ c ∧ c ≤ '9')) = d :: ds :=
    takeWhile_isDig (d :: ds) rest (by intro c hc; simp at hc; rcases hc with rfl | hc; exact hd; exact hds c hc) hr
  unfold scanInt
  split
  · next neg s1 heq =>
    split at heq
    · next r hx => simp at hx; exact absurd hx.1 hne
    · simp at heq
      obtain ⟨rfl, rfl⟩ := heq
      simp only [htw]
      have hdrop : List.drop (d :: ds).length (d :: (ds ++ rest)) = rest := by simp
      have hrest' : (if d = '0' then ds ++ rest else rest) = rest := by
        split
        · next h => simp [h0 h]
        · rfl
      have hds' : (if d = '0' then ['0'] else d :: ds) = d :: ds := by
        split
        · next h => simp [h0 h, h]
        · rfl
      rw [hdrop, hrest', hds']
      cases rest with
      | nil => rfl
      | cons c r =>
        simp [numEnd] at hr
        split
        · next hx => simp at hx; exact absurd hx.1 (by simp [hr])
        · next hx => simp at hx; exact absurd hx.1 (by simp [hr])
        · next hx => simp at hx; exact absurd hx.1 (by simp [hr])
        · rfl

theorem scanInt_neg (d : Char) (ds rest : List Char) (hd : isDig d = true) (hds : ∀ c ∈ ds, isDig c = true)
    (h0 : d = '0' → ds = []) (hr : numEnd rest = true) :
    scanInt ('-' :: d :: (ds ++ rest)) = some (-(((d :: ds).foldl digVal 0 : Nat) : Int), rest) := by
  have htw : (d :: (ds ++ rest)).takeWhile (fun c => decide ('0' ≤ c ∧ c ≤ '9')) = d :: ds :=
    takeWhile_isDig (d :: ds) rest (by intro c hc; simp at hc; rcases hc with rfl | hc; exact hd; exact hds c hc) hr
  unfold scanInt
  split
  · next neg s1 heq =>
    split at heq
    · next r hx =>
      simp at hx; subst hx
      simp at heq
      obtain ⟨rfl, rfl⟩ := heq
      simp only [htw]
      have hdrop : List.drop (d :: ds).length (d :: (ds ++ rest)) = rest := by simp
      have hrest' : (if d = '0' then ds ++ rest else rest) = rest := by
        split
        · next h => simp [h0 h]
        · rfl
      have hds' : (if d = '0' then ['0'] else d :: ds) = d :: ds := by
        split
        · next h => simp [h0 h, h]
        · rfl
      rw [hdrop, hrest', hds']
      cases rest with
      | nil => rfl
      | cons c r =>
        simp [numEnd] at hr
        split
        · next hx => simp at hx; exact absurd hx.1 (by simp [hr])
        · next hx => simp at hx; exact absurd hx.1 (by simp [hr])
        · next hx => simp at hx; exact absurd hx.1 (by simp [hr])
        · rfl
    · next hx => exact absurd rfl (hx _)

theorem scanInt_intRepr (i : Int) (rest : List Char) (hr : numEnd rest = true) :
    scanInt (intRepr i ++ rest) = some (i, rest) := by
  cases i with
  | ofNat n =>
    obtain ⟨d, ds, he, hd, hds, h0⟩ := natDigits_shape (n + 1) n [] (by omega)
    have hf := foldl_natDigits (n + 1) n [] (by omega)
    simp only [intRepr, natRepr]
    rw [he] at hf ⊢
    simp only [List.append_nil, List.cons_append] at hf ⊢
    rw [scanInt_pos d ds rest hd hds (fun h => (h0 h).2) hr, hf]
    rfl
  | negSucc n =>
    obtain ⟨d, ds, he, hd, hds, h0⟩ := natDigits_shape (n + 1 + 1) (n + 1) [] (by omega)
    have hf := foldl_natDigits (n + 1 + 1) (n + 1) [] (by omega)
    simp only [intRepr, natRepr]
    rw [he] at hf ⊢
    simp only [List.append_nil, List.cons_append] at hf ⊢
    rw [scanInt_neg d ds rest hd hds (fun h => (h0 h).2) hr, hf]
    rfl

/-- the first character of a number -/
theorem intRepr_head (i : Int) : ∃ c t, intRepr i = c :: t ∧ (c = '-' ∨ isDig c = true) := by
  cases i with
  | ofNat n =>
    obtain ⟨d, ds, he, hd, _, _⟩ := natDigits_shape (n + 1) n [] (by omega)
    exact ⟨d, ds ++ [], by simp only [intRepr, natRepr, he], .inr hd⟩
  | negSucc n => exact ⟨'-', _, rfl, .inl rfl⟩

end Bridge
