import BridgeVerif.Lemmas.RegexHandsA
/-!
# `DEAL_PATTERN` = `([NESW]):(H) (H) (H) (H)`, `H` = `[2-9TJQKA\.]{16}|-`, is `dealFields?`  (Appendix F, R1, part C)
-/
namespace Bridge.RegexHands
open Bridge Bridge.Re Bridge.RegexPbn

def fieldRe : Re := .alt (.rep 16 (some 16) (.cls false handItems)) (.lit '-')
def seatRe : Re := .cls false [.ch 'N', .ch 'E', .ch 'S', .ch 'W']
def dealTail : Re :=
  .seq (.group 2 fieldRe) (.seq (.lit ' ') (.seq (.group 3 fieldRe)
    (.seq (.lit ' ') (.seq (.group 4 fieldRe) (.seq (.lit ' ') (.group 5 fieldRe))))))
def dealRe : Re := .seq (.group 1 seatRe) (.seq (.lit ':') dealTail)

theorem parse_deal : Re.parse DEAL_PATTERN = some dealRe := by decide +kernel

theorem takeHandField_split (rest h r : List Char) (e : takeHandField? rest = some (h, r)) : rest = h ++ r := by
  unfold takeHandField? at e
  split at e
  · cases e; exact (List.take_append_drop 16 rest).symm
  · split at e
    · cases e; rfl
    · cases e

theorem not_dash_of_hand (x : Char) (h : isHandChar x = true) : ('-' == x) = false := by
  cases hx : ('-' == x) with
  | false => rfl
  | true =>
    have : '-' = x := eq_of_beq hx
    subst this
    revert h; decide

theorem charEq_false (c x : Char) : charEq false c x = (c == x) := by
  simp [charEq]

/-- one hand field `(H)` -/
theorem den_field (j : Nat) (k : St → Re.Res St) (pos : Nat) (rest : List Char) (caps : Caps) :
    den false (.group (j + 1) fieldRe) k ⟨pos, rest, caps⟩ =
      match takeHandField? rest with
      | some (h, r) => k ⟨pos + h.length, r, caps.set j (some (pos, pos + h.length))⟩
      | none => .fail := by
  simp only [den, fieldRe, charPred, hand_pred, setCap]
  rw [repExact isHandChar 16 _ caps 16 0 pos rest (by omega)]
  by_cases hc : (rest.take 16).length = 16 ∧ (rest.take 16).all isHandChar = true
  · have e : takeHandField? rest = some (rest.take 16, rest.drop 16) := by
      unfold takeHandField?; rw [if_pos hc]
    rw [e, if_pos hc]
    have hfail : stepChar (charEq false '-') ⟨pos, rest, caps⟩
        (fun st' => k { st' with caps := st'.caps.set j (some (pos, st'.pos)) }) = .fail := by
      cases rest with
      | nil => rfl
      | cons x xs =>
        have hx : isHandChar x = true := by
          have := hc.2
          simp only [List.take_succ_cons, List.all_cons, Bool.and_eq_true] at this
          exact this.1
        simp [stepChar, charEq_false, not_dash_of_hand x hx]
    rw [hfail, orFail_self_fail]
    simp only [hc.1]
  · rw [if_neg hc, orFail_fail]
    cases rest with
    | nil =>
      have e : takeHandField? [] = none := by unfold takeHandField?; rw [if_neg hc]
      rw [e]; rfl
    | cons x xs =>
      by_cases hx : x = '-'
      · subst hx
        have e : takeHandField? ('-' :: xs) = some (['-'], xs) := by
          unfold takeHandField?; rw [if_neg hc]; rfl
        rw [e]
        simp [stepChar, charEq_false]
      · have e : takeHandField? (x :: xs) = none := by
          unfold takeHandField?; rw [if_neg hc]
          split
          · rename_i heq; cases heq; exact absurd rfl hx
          · rfl
        have hne : ('-' == x) = false := beq_eq_false_iff_ne.mpr (Ne.symm hx)
        rw [e]
        simp [stepChar, charEq_false, hne]

/-- "one field, a blank, the rest" in the scanner -/
def fieldThen (cont : List Char → Option (List (List Char))) (r : List Char) : Option (List (List Char)) :=
  match takeHandField? r with
  | some (h, ' ' :: r') => (cont r').map fun gs => h :: gs
  | _ => none

def fieldLast (r : List Char) : Option (List (List Char)) :=
  (takeHandField? r).map fun hr => [hr.1]

theorem fieldThen_none (cont : List Char → Option (List (List Char))) (r : List Char)
    (hf : takeHandField? r = none) : fieldThen cont r = none := by
  unfold fieldThen; rw [hf]
theorem fieldThen_nil (cont : List Char → Option (List (List Char))) (r h : List Char)
    (hf : takeHandField? r = some (h, [])) : fieldThen cont r = none := by
  unfold fieldThen; rw [hf]
theorem fieldThen_blank (cont : List Char → Option (List (List Char))) (r h r' : List Char)
    (hf : takeHandField? r = some (h, ' ' :: r')) : fieldThen cont r = (cont r').map fun gs => h :: gs := by
  unfold fieldThen; rw [hf]; rfl
theorem fieldThen_ne (cont : List Char → Option (List (List Char))) (r h r' : List Char) (c : Char) (hc : c ≠ ' ')
    (hf : takeHandField? r = some (h, c :: r')) : fieldThen cont r = none := by
  unfold fieldThen; rw [hf]
  split
  · rename_i heq; cases heq; exact absurd rfl hc
  · rfl

theorem rel_field_blank (s : List Char) (N j : Nat) (hj : j < N) (K' : St → Re.Res St)
    (cont : List Char → Option (List (List Char))) (h : Rel s N (j + 1) K' cont) :
    Rel s N j (den false (.group (j + 1) fieldRe) (den false (.lit ' ') K')) (fieldThen cont) := by
  intro pos rest caps hd hl
  rw [den_field]
  cases hf : takeHandField? rest with
  | none => rw [fieldThen_none cont rest hf]; rfl
  | some hr =>
    obtain ⟨fld, r⟩ := hr
    have hsplit := takeHandField_split rest fld r hf
    cases r with
    | nil => rw [fieldThen_nil cont rest fld hf]; rfl
    | cons c r' =>
      by_cases hc : c = ' '
      · subst hc
        have hdrop : s.drop (pos + fld.length + 1) = r' := by
          apply drop_succ_of_cons s (pos + fld.length) ' ' r'
          rw [← List.drop_drop, hd, hsplit]; simp
        have := h (pos + fld.length + 1) r' (caps.set j (some (pos, pos + fld.length))) hdrop (by simp [hl])
        rw [fieldThen_blank cont rest fld r' hf]
        simp only [den, stepChar, charEq_false, beq_self_eq_true, if_true]
        rw [this, texts_set s caps j pos fld.length (by omega), hd, hsplit]
        cases cont r' <;> simp
      · have hne : (' ' == c) = false := beq_eq_false_iff_ne.mpr (Ne.symm hc)
        rw [fieldThen_ne cont rest fld r' c hc hf]
        simp only [den, stepChar, charEq_false, hne, Bool.false_eq_true, if_false]
        rfl

theorem rel_field_last (s : List Char) (j : Nat) :
    Rel s (j + 1) j (den false (.group (j + 1) fieldRe) (kfin 0 false false)) fieldLast := by
  intro pos rest caps hd hl
  rw [den_field]
  unfold fieldLast
  cases hf : takeHandField? rest with
  | none => simp [absRes]
  | some hr =>
    obtain ⟨fld, r⟩ := hr
    have hsplit := takeHandField_split rest fld r hf
    have e : (texts s (caps.set j (some (pos, pos + fld.length))))
        = (texts s (caps.set j (some (pos, pos + fld.length)))).take (j + 1) := by
      rw [List.take_of_length_le]
      simp [texts]; omega
    simp only [kfin, Bool.false_and, Bool.or_false, Bool.false_eq_true, if_false, absRes]
    rw [e, texts_set s caps j pos fld.length (by omega), hd, hsplit]
    simp

/-! ### `dealFields?` in terms of `fieldThen` / `fieldLast` -/
def fieldThenG {α : Type} (G : List Char → List Char → Option α) (r : List Char) : Option α :=
  match takeHandField? r with
  | some (h, ' ' :: r') => G h r'
  | _ => none

theorem fieldThen_eq_G (cont : List Char → Option (List (List Char))) (r : List Char) :
    fieldThen cont r = fieldThenG (fun h r' => (cont r').map fun gs => h :: gs) r := rfl

theorem map_fieldThenG {α β : Type} (φ : α → β) (G : List Char → List Char → Option α) (r : List Char) :
    (fieldThenG G r).map φ = fieldThenG (fun h r' => (G h r').map φ) r := by
  unfold fieldThenG
  split <;> rfl

theorem dealFields_cons (f : Char) (r0 : List Char) :
    dealFields? (f :: ':' :: r0) =
      if f = 'N' ∨ f = 'E' ∨ f = 'S' ∨ f = 'W' then
        fieldThenG (fun h0 r1 => fieldThenG (fun h1 r2 => fieldThenG (fun h2 r3 =>
          match takeHandField? r3 with
          | some (h3, _) => some [[f], h0, h1, h2, h3]
          | none => none) r2) r1) r0
      else none := rfl

theorem dealFields_cons_ok (f : Char) (r0 : List Char) (hf : f = 'N' ∨ f = 'E' ∨ f = 'S' ∨ f = 'W') :
    dealFields? (f :: ':' :: r0) =
      (fieldThen (fieldThen (fieldThen fieldLast)) r0).map fun gs => [f] :: gs := by
  rw [dealFields_cons, if_pos hf]
  simp only [fieldThen_eq_G, map_fieldThenG, Option.map_map]
  congr 1; funext h0 r1
  congr 1; funext h1 r2
  congr 1; funext h2 r3
  unfold fieldLast
  cases takeHandField? r3 <;> rfl

theorem dealFields_ne (f c : Char) (r0 : List Char) (hc : c ≠ ':') : dealFields? (f :: c :: r0) = none := by
  unfold dealFields?
  split
  · rename_i heq; cases heq; exact absurd rfl hc
  · rfl

theorem seat_test (f : Char) :
    (classTest false f [.ch 'N', .ch 'E', .ch 'S', .ch 'W'] != false) = decide (f = 'N' ∨ f = 'E' ∨ f = 'S' ∨ f = 'W') := by
  rw [Bool.eq_iff_iff]
  simp only [classTest, ClassItem.test, charEq_false, Bool.or_false, bne_iff_ne, ne_eq, Bool.not_eq_false,
    Bool.or_eq_true, beq_iff_eq, decide_eq_true_eq]
  constructor
  · rintro (h | h | h | h) <;> simp [← h]
  · rintro (h | h | h | h) <;> simp [h]

theorem dealRe_ngroups : dealRe.ngroups = 5 := by decide
theorem dealRe_simple : simple dealRe = true := by decide

/-- the head `([NESW]):` -/
theorem den_head (R : Re) (K : St → Re.Res St) (caps : Caps) (s : List Char) :
    den false (.seq (.group 1 seatRe) (.seq (.lit ':') R)) K ⟨0, s, caps⟩ =
      match s with
      | [] => .fail
      | f :: t =>
        if f = 'N' ∨ f = 'E' ∨ f = 'S' ∨ f = 'W' then
          match t with
          | [] => .fail
          | c :: r0 => if c = ':' then den false R K ⟨2, r0, caps.set 0 (some (0, 1))⟩ else .fail
        else .fail := by
  cases s with
  | nil => rfl
  | cons f t =>
    by_cases hf : f = 'N' ∨ f = 'E' ∨ f = 'S' ∨ f = 'W'
    · cases t with
      | nil => simp only [den, seatRe, stepChar, seat_test, hf, decide_true, if_true]
      | cons c r0 =>
        by_cases hc : c = ':'
        · subst hc
          simp only [den, seatRe, stepChar, seat_test, hf, decide_true, if_true, charEq_false,
            beq_self_eq_true, setCap]
        · have hne : (':' == c) = false := beq_eq_false_iff_ne.mpr (Ne.symm hc)
          simp only [den, seatRe, stepChar, seat_test, hf, decide_true, if_true, charEq_false, hne, hc,
            Bool.false_eq_true, if_false]
    · simp only [den, seatRe, stepChar, seat_test, hf, decide_false, Bool.false_eq_true, if_false]

theorem match_deal (s : List Char) :
    (Re.pyMatch false DEAL_PATTERN s).map (Option.map (groupTexts s)) = some ((dealFields? s).map (·.map some)) := by
  rw [pyMatch_abs DEAL_PATTERN s dealRe parse_deal dealRe_simple, dealRe_ngroups]
  have r4 := rel_field_last s 4
  have r3 := rel_field_blank s 5 3 (by omega) _ _ r4
  have r2 := rel_field_blank s 5 2 (by omega) _ _ r3
  have r1 := rel_field_blank s 5 1 (by omega) _ _ r2
  unfold dealRe
  rw [den_head]
  cases s with
  | nil => rfl
  | cons f t =>
    by_cases hf : f = 'N' ∨ f = 'E' ∨ f = 'S' ∨ f = 'W'
    · simp only [if_pos hf]
      cases t with
      | nil => rfl
      | cons c r0 =>
        by_cases hc : c = ':'
        · subst hc
          rw [dealFields_cons_ok f r0 hf]
          have := r1 2 r0 ((List.replicate 5 none).set 0 (some (0, 1))) rfl (by simp)
          have ht : (texts (f :: ':' :: r0) ((List.replicate 5 none).set 0 (some (0, 1)))).take 1 = [some [f]] := rfl
          rw [ht] at this
          simp only [if_true]
          refine this.trans ?_
          cases fieldThen (fieldThen (fieldThen fieldLast)) r0 <;> rfl
        · simp only [if_neg hc, dealFields_ne f c r0 hc]
          rfl
    · simp only [if_neg hf]
      have e : dealFields? (f :: t) = none := by
        cases t with
        | nil => rfl
        | cons c r0 =>
          by_cases hc : c = ':'
          · subst hc; rw [dealFields_cons, if_neg hf]
          · exact dealFields_ne f c r0 hc
      rw [e]; rfl

end Bridge.RegexHands
