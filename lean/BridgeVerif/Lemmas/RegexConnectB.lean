import BridgeVerif.Lemmas.RegexConnect
/-!
# The class `agree` of `Lemmas/RegexConnect.lean`, for ALL code points

On the pattern's literal characters the engine's comparison (`Re.charEq true`: the Unicode lower-casing and folding
tables of `Model/Regex.lean`) and the scanner's (`eqCI`: ASCII lower-casing plus ſ, K, İ, ı) agree against EVERY character
(`agreeLit_all`).  So the class is exactly "`\d` and the ASCII digit test agree on the character" (`agree_iff_digit`):
the only characters outside it are the non-ASCII Unicode decimal digits.  `match_connect_nodigit` restates the main
theorem with that hypothesis.
-/
namespace Bridge.RegexConnect
open Bridge Bridge.Re

/-! ### the tables send nothing but İ, K (lower-casing) and ı, ſ (folding) below U+0080 -/
def lowOK (T : List (Nat × Nat × Nat × Nat)) : Bool :=
  T.all fun e => Nat.ble 128 e.2.2.2 || Nat.blt e.2.1 128 || (e.1 == e.2.1 && (e.1 == 0x130 || e.1 == 0x212A))

theorem lowerLookup_small : ∀ T, lowOK T = true → ∀ n, 128 ≤ n → lowerLookup n T < 128 → n = 0x130 ∨ n = 0x212A := by
  intro T
  induction T with
  | nil => intro _ n h1 h2; simp only [lowerLookup] at h2; omega
  | cons e t ih =>
    obtain ⟨lo, hi, st, img⟩ := e
    intro hok n h1 h2
    simp only [lowOK, List.all_cons, Bool.and_eq_true] at hok
    simp only [lowerLookup] at h2
    split at h2
    · omega
    · split at h2
      · rename_i hlo hin
        simp only [Bool.and_eq_true, Nat.ble_eq] at hin
        have h3 := hok.1
        simp only [Bool.or_eq_true, Nat.ble_eq, Nat.blt_eq, Bool.and_eq_true, beq_iff_eq] at h3
        rcases h3 with (h3 | h3) | ⟨h3, h4⟩
        · omega
        · omega
        · have : n = lo := by omega
          rcases h4 with h4 | h4 <;> omega
      · exact ih hok.2 n h1 h2

def foldOK (T : List (Nat × Nat)) : Bool := T.all fun e => Nat.ble 128 e.2 || e.1 == 0x131 || e.1 == 0x17F

theorem foldLookup_small : ∀ T, foldOK T = true → ∀ n, 128 ≤ n → foldLookup n T < 128 → n = 0x131 ∨ n = 0x17F := by
  intro T
  induction T with
  | nil => intro _ n h1 h2; simp only [foldLookup] at h2; omega
  | cons e t ih =>
    obtain ⟨a, b⟩ := e
    intro hok n h1 h2
    simp only [foldOK, List.all_cons, Bool.and_eq_true] at hok
    simp only [foldLookup] at h2
    split at h2
    · omega
    · split at h2
      · rename_i _ heq
        simp only [beq_iff_eq] at heq
        have h3 := hok.1
        simp only [Bool.or_eq_true, Nat.ble_eq, beq_iff_eq] at h3
        rcases h3 with (h3 | h3) | h3 <;> omega
      · exact ih hok.2 n h1 h2

/-- no run of the lower-casing table has `v` among its images -/
def missOK (v : Nat) (T : List (Nat × Nat × Nat × Nat)) : Bool :=
  T.all fun e => Nat.blt v e.2.2.2 || Nat.blt (e.2.2.2 + (e.2.1 - e.1)) v

theorem lowerLookup_miss (v : Nat) : ∀ T, missOK v T = true → ∀ n, lowerLookup n T = v → n = v := by
  intro T
  induction T with
  | nil => intro _ n h; exact h
  | cons e t ih =>
    obtain ⟨lo, hi, st, img⟩ := e
    intro hok n h
    simp only [missOK, List.all_cons, Bool.and_eq_true] at hok
    simp only [lowerLookup] at h
    split at h
    · exact h
    · split at h
      · rename_i hlo hin
        simp only [Bool.and_eq_true, Nat.ble_eq] at hin
        have h3 := hok.1
        simp only [Bool.or_eq_true, Nat.blt_eq] at h3
        omega
      · exact ih hok.2 n h

theorem lowOK_table : lowOK lowerTable = true := by decide +kernel
theorem foldOK_table : foldOK foldTable = true := by decide +kernel
theorem miss131 : missOK 0x131 lowerTable = true := by decide +kernel
theorem miss17F : missOK 0x17F lowerTable = true := by decide +kernel

theorem lowerNat_small (n : Nat) (h : 128 ≤ n) (hl : lowerNat n < 128) : n = 0x130 ∨ n = 0x212A := by
  unfold lowerNat at hl
  rw [if_neg (by omega)] at hl
  split at hl
  · omega
  · exact lowerLookup_small _ lowOK_table n h hl

theorem lowerNat_miss (v : Nat) (hv : missOK v lowerTable = true) (_hv2 : 128 ≤ v) (n : Nat) (h : 128 ≤ n)
    (hl : lowerNat n = v) : n = v := by
  unfold lowerNat at hl
  rw [if_neg (by omega)] at hl
  split at hl
  · exact hl
  · exact lowerLookup_miss v _ hv n hl

/-- above ASCII only ſ, K, İ, ı fold into ASCII -/
theorem foldNat_ge (n : Nat) (h : 128 ≤ n) (h1 : n ≠ 0x17F) (h2 : n ≠ 0x212A) (h3 : n ≠ 0x130) (h4 : n ≠ 0x131) :
    128 ≤ foldNat n := by
  unfold foldNat
  simp only
  split
  · rename_i hl
    have := lowerNat_small n h hl
    omega
  · rename_i hl
    apply Nat.le_of_not_lt
    intro hlt
    rcases foldLookup_small _ foldOK_table (lowerNat n) (by omega) hlt with e | e
    · have := lowerNat_miss 0x131 miss131 (by omega) n h e; omega
    · have := lowerNat_miss 0x17F miss17F (by omega) n h e; omega

/-! ### the comparison of a pattern character with any character -/
theorem patChars_small : patChars.all (fun p => decide (foldNat p.toNat < 128) && decide ((foldC p).toNat < 128)
    && decide (p.toNat < 128)) = true := by decide +kernel

theorem specials_agree : agreeLit patChars (Char.ofNat 0x17F) = true ∧ agreeLit patChars (Char.ofNat 0x212A) = true ∧
    agreeLit patChars (Char.ofNat 0x130) = true ∧ agreeLit patChars (Char.ofNat 0x131) = true := by decide +kernel

theorem char_eq_of_toNat (x : Char) (n : Nat) (hn : (Char.ofNat n).toNat = n) (h : x.toNat = n) : x = Char.ofNat n := by
  apply Char.toNat_inj.mp
  rw [hn, h]

theorem foldC_big (x : Char) (h : 128 ≤ x.toNat) (h1 : x.toNat ≠ 0x17F) (h2 : x.toNat ≠ 0x212A) (h3 : x.toNat ≠ 0x130)
    (h4 : x.toNat ≠ 0x131) : foldC x = x := by
  have n1 : x ≠ Char.ofNat 0x17F := fun e => h1 (by rw [e]; rfl)
  have n2 : x ≠ Char.ofNat 0x212A := fun e => h2 (by rw [e]; rfl)
  have n3 : x ≠ Char.ofNat 0x130 := fun e => h3 (by rw [e]; rfl)
  have n4 : x ≠ Char.ofNat 0x131 := fun e => h4 (by rw [e]; rfl)
  unfold foldC
  rw [if_neg n1, if_neg n2, if_neg n3, if_neg n4]
  unfold lowerA
  rw [if_neg]
  intro hc
  have := hc.2
  simp only [Char.le_def, UInt32.le_iff_toNat_le] at this
  have e : x.toNat = x.val.toNat := rfl
  have e2 : ('Z' : Char).val.toNat = 90 := rfl
  omega

/-- engine and scanner compare the pattern's literal characters alike with EVERY character -/
theorem agreeLit_all (x : Char) : agreeLit patChars x = true := by
  by_cases h : x.toNat < 128
  · have := agree_ascii x h
    simp only [agree, Bool.and_eq_true] at this
    exact this.1
  · have hge : 128 ≤ x.toNat := by omega
    by_cases h1 : x.toNat = 0x17F
    · rw [char_eq_of_toNat x _ rfl h1]; exact specials_agree.1
    by_cases h2 : x.toNat = 0x212A
    · rw [char_eq_of_toNat x _ rfl h2]; exact specials_agree.2.1
    by_cases h3 : x.toNat = 0x130
    · rw [char_eq_of_toNat x _ rfl h3]; exact specials_agree.2.2.1
    by_cases h4 : x.toNat = 0x131
    · rw [char_eq_of_toNat x _ rfl h4]; exact specials_agree.2.2.2
    have hf := foldNat_ge x.toNat hge h1 h2 h3 h4
    have hc := foldC_big x hge h1 h2 h3 h4
    simp only [agreeLit, List.all_eq_true]
    intro p hp
    have hs := List.all_eq_true.mp patChars_small p hp
    simp only [Bool.and_eq_true, decide_eq_true_eq] at hs
    obtain ⟨⟨hs1, hs2⟩, hs3⟩ := hs
    have e1 : (p == x) = false := by
      apply beq_eq_false_iff_ne.mpr
      intro e; rw [e] at hs3; omega
    have e2 : (foldNat p.toNat == foldNat x.toNat) = false := by
      apply beq_eq_false_iff_ne.mpr
      intro e; omega
    have e3 : eqCI p x = false := by
      unfold eqCI
      rw [hc]
      apply beq_eq_false_iff_ne.mpr
      intro e; rw [e] at hs2; omega
    simp only [charEq, e1, e2, e3, Bool.and_false, Bool.or_false, beq_self_eq_true]

/-- the class: `\d` and the ASCII digit test agree on the character -/
theorem agree_iff_digit (x : Char) : agree x = (Re.isDigit x == Bridge.isDigit x) := by
  simp only [agree, agreeLit_all, Bool.true_and]

/-- a character that is no Unicode decimal digit is in the class -/
theorem agree_of_not_digit (x : Char) (h : Re.isDigit x = false) : agree x = true := by
  by_cases hx : x.toNat < 128
  · exact agree_ascii x hx
  · rw [agree_iff_digit, h]
    have : Bridge.isDigit x = false := by
      simp only [Bridge.isDigit, decide_eq_false_iff_not, Char.le_def, UInt32.le_iff_toNat_le]
      intro hc
      have e : x.toNat = x.val.toNat := rfl
      have e2 : ('9' : Char).val.toNat = 57 := rfl
      omega
    rw [this]; rfl

/-- THE REGULAR EXPRESSION IS THE SCANNER on every subject without a non-ASCII decimal digit -/
theorem match_connect_nodigit (s : List Char) (hs : ∀ x ∈ s, x.toNat < 128 ∨ Re.isDigit x = false) :
    (Re.pyMatch true CONNECT_PATTERN s).map (Option.map (RegexHands.groupTexts s)) =
      some ((connectFields? s).map (·.map some)) :=
  match_connect s fun x hx => by
    rcases hs x hx with h | h
    · exact agree_ascii x h
    · exact agree_of_not_digit x h

end Bridge.RegexConnect
