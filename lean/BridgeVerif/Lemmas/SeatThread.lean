import BridgeVerif.Lemmas.SeatThreadStreams
/-!
# The reactive seat thread (`Model/SeatThread.lean`) performs the straight-line seat program of the session model

Phase by phase: what main queues for seat `p` (`qOf`), what `p`'s client sends (`cOf`) and the seat program (`sOf`)
are computed in `Lemmas/SeatThreadStreams.lean`; here each reactive function (`seatDealR`, `seatBiddingR`,
`seatTrickR`, `seatPlayingR`, `seatBoardsR`) is shown to consume exactly the streams of its phases and to emit exactly
their seat programs, leaving the rest of the streams untouched.
-/
namespace Bridge

@[simp] theorem getQ_cons (m : Text) (r c : List Text) :
    SeatIn.getQ { q := m :: r, c := c } = some (m, { q := r, c := c }) := rfl
@[simp] theorem getC_cons (m : Text) (q r : List Text) :
    SeatIn.getC { q := q, c := m :: r } = some (m, { q := q, c := r }) := rfl

theorem seatOfFormal_formal (a : Seat) : seatOfFormal? a.formal = some a := by cases a <;> decide
theorem formal_ne_null (a : Seat) : a.formal ≠ MSG_NULL := by cases a <;> decide

/-! ## deal -/
theorem seatDealR_phase (p : Seat) (h : Text) (cards r1 r2 : Seat → Text) (q' c' : List Text) :
    seatDealR p { q := qOf p (.deal h cards r1 r2) ++ q', c := cOf p (.deal h cards r1 r2) ++ c' } =
      some (sOf p (.deal h cards r1 r2), { q := q', c := c' }) := by
  simp [qOf_deal, cOf_deal, seatDealR, sOf, phaseProg]

/-! ## auction -/
theorem seatBiddingR_calls (p dealer : Seat) (q' c' : List Text) : ∀ (calls : List (Call × Text)) (j fuel : Nat),
    calls.length < fuel →
    seatBiddingR p fuel { q := (callPhases dealer j calls).flatMap (qOf p) ++ MSG_NULL :: q',
                          c := (callPhases dealer j calls).flatMap (cOf p) ++ c' } =
      some ((callPhases dealer j calls).flatMap (sOf p) ++ [.recv (.m2t p)], { q := q', c := c' }) := by
  intro calls
  induction calls with
  | nil =>
    intro j fuel hf
    obtain ⟨f, rfl⟩ : ∃ f, fuel = f + 1 := ⟨fuel - 1, by simp at hf; omega⟩
    simp [callPhases, seatBiddingR]
  | cons x r ih =>
    intro j fuel hf
    obtain ⟨cl, text⟩ := x
    obtain ⟨f, rfl⟩ : ∃ f, fuel = f + 1 := ⟨fuel - 1, by simp at hf; omega⟩
    have ih := ih (j + 1) f (by simp at hf; omega)
    simp only [callPhases, List.flatMap_cons, qOf_call, cOf_call, sOf, phaseProg, List.append_assoc,
      List.cons_append]
    rw [seatBiddingR]
    by_cases h : p = dealer.rot j
    · subst h
      simp [formal_ne_null, seatOfFormal_formal, ih]
    · simp [h, formal_ne_null, seatOfFormal_formal, ih]

/-! ## one card -/
theorem cardPlayer_cases (p a d : Seat) :
    (p = cardPlayer a d ∧ ((p = a ∧ p ≠ d.partner) ∨ (¬ (p = a ∧ p ≠ d.partner) ∧ p = d ∧ a = d.partner))) ∨
    (p ≠ cardPlayer a d ∧ ¬ (p = a ∧ p ≠ d.partner) ∧ ¬ (p = d ∧ a = d.partner)) := by
  cases p <;> cases a <;> cases d <;> decide

set_option linter.unusedSimpArgs false in
theorem seatTrickR_step (p d a : Seat) (first : Bool) (idx : Nat) (hidx : idx < 4) (lead op : Bool)
    (hlead : lead = true ↔ idx = 0) (hop : op = true ↔ (first = true ∧ idx = 0))
    (card dc rdy rdd : Text) (q' c' : List Text) :
    seatTrickR p d first idx a { q := cardQ p d a op card dc ++ q', c := cardC p d a op card rdy rdd ++ c' } =
      (seatTrickR p d first (idx + 1) a.left { q := q', c := c' }).map fun r =>
        (cardS p d a lead op (if a = d.partner then "Dummy to lead".toList else a.formal ++ " to lead".toList)
          card dc ++ r.1, r.2) := by
  rw [seatTrickR.eq_2 _ _ _ _ _ _ (by omega)]
  have h4 : ¬ idx > 4 := by omega
  have hoeq : (first = true ∧ idx = 0 ∧ p ≠ d.partner) ↔ (op = true ∧ p ≠ d.partner) := by
    rw [hop, and_assoc]
  simp only [hoeq, if_neg h4]
  generalize seatTrickR p d first (idx + 1) a.left = K
  have hl : lead = decide (idx = 0) := by
    cases lead <;> simp_all
  subst hl
  rcases cardPlayer_cases p a d with ⟨h1, h2 | ⟨h2, h3⟩⟩ | ⟨h1, h2, h3⟩
  · have ha : a ≠ d.partner := fun e => h2.2 (h2.1.trans e)
    simp only [cardQ, cardC, cardS, if_pos h1, if_pos h2, if_neg ha]
    have hpa := h2.1
    subst hpa
    by_cases ho : op = true ∧ p ≠ d.partner <;> by_cases hi : idx = 0 <;>
      (first | simp only [if_pos ho] | simp only [if_neg ho]) <;> simp [hi] <;>
      cases K { q := q', c := c' } <;> simp
  · simp only [cardQ, cardC, cardS, if_pos h1, if_neg h2, if_pos h3, if_pos h3.2]
    by_cases ho : op = true ∧ p ≠ d.partner <;> by_cases hi : idx = 0 <;>
      (first | simp only [if_pos ho] | simp only [if_neg ho]) <;> simp [hi] <;>
      cases K { q := q', c := c' } <;> simp
  · simp only [cardQ, cardC, cardS, if_neg h1, if_neg h2, if_neg h3]
    by_cases ho : op = true ∧ p ≠ d.partner <;> by_cases hi : idx = 0 <;>
      (first | simp only [if_pos ho] | simp only [if_neg ho]) <;> simp [hi] <;>
      cases K { q := q', c := c' } <;> simp

/-! ## one trick -/
theorem playCard_mid (s : PState) (x : Card) (h : s.trick.length < 3) :
    (playCard s x).trick = s.trick ++ [x] ∧ (playCard s x).active = s.active.left ∧
      (playCard s x).leader = s.leader := by
  rw [playCard_incomplete s x (by omega)]; simp
theorem playCard_last (s : PState) (x : Card) (h : s.trick.length = 3) :
    (playCard s x).trick = [] ∧ (playCard s x).active = (playCard s x).leader := by
  rw [playCard_complete s x h]; simp

theorem one_trick (p d : Seat) (deal : Hands) (s : PState) (j : Nat) (first : Bool) (hf : first = true ↔ j = 0)
    (ht : s.trick = []) (ha : s.active = s.leader) (x1 x2 x3 x4 : Card × Text) (rest : List (Card × Text)) :
    ∃ (s4 : PState) (Q C : List Text) (S : SeatActs),
      (cardPhases d deal s j (x1 :: x2 :: x3 :: x4 :: rest)).flatMap (qOf p) =
        s.leader.formal :: Q ++ (cardPhases d deal s4 (j + 4) rest).flatMap (qOf p) ∧
      (cardPhases d deal s j (x1 :: x2 :: x3 :: x4 :: rest)).flatMap (cOf p) =
        C ++ (cardPhases d deal s4 (j + 4) rest).flatMap (cOf p) ∧
      (cardPhases d deal s j (x1 :: x2 :: x3 :: x4 :: rest)).flatMap (sOf p) =
        Act.recv (.m2t p) :: S ++ (cardPhases d deal s4 (j + 4) rest).flatMap (sOf p) ∧
      (∀ q' c', seatTrickR p d first 0 s.leader { q := Q ++ q', c := C ++ c' } = some (S, { q := q', c := c' })) ∧
      s4.trick = [] ∧ s4.active = s4.leader := by
  obtain ⟨c1, t1⟩ := x1
  obtain ⟨c2, t2⟩ := x2
  obtain ⟨c3, t3⟩ := x3
  obtain ⟨c4, t4⟩ := x4
  obtain ⟨e1t, e1a, e1l⟩ := playCard_mid s c1 (by simp [ht])
  obtain ⟨e2t, e2a, e2l⟩ := playCard_mid (playCard s c1) c2 (by simp [e1t, ht])
  obtain ⟨e3t, e3a, e3l⟩ := playCard_mid (playCard (playCard s c1) c2) c3 (by simp [e2t, e1t, ht])
  obtain ⟨e4t, e4a⟩ := playCard_last (playCard (playCard (playCard s c1) c2) c3) c4 (by simp [e3t, e2t, e1t, ht])
  refine ⟨playCard (playCard (playCard (playCard s c1) c2) c3) c4, ?_⟩
  simp only [cardPhases, List.flatMap_cons, qOf_card, cOf_card, sOf_card, e1t, e2t, e3t, ht, e1a, e2a, e3a,
    e1l, e2l, e3l, ha]
  have hj : j + 1 + 1 + 1 + 1 = j + 4 := rfl
  simp only [hj, decide_true, if_true, List.nil_append, List.cons_append, List.cons_ne_nil, decide_false,
    Bool.false_eq_true, if_false]
  generalize cardsMsg "Dummy".toList (deal d.partner) = dc
  generalize readyFor p "dummy".toList = rdd
  generalize readyFor p _ = r1
  generalize readyFor p _ = r2
  generalize readyFor p _ = r3
  generalize readyFor p _ = r4
  refine ⟨cardQ p d s.leader (decide (j = 0)) t1 dc ++ (cardQ p d s.leader.left (decide (j + 1 = 0)) t2 dc ++
      (cardQ p d s.leader.left.left (decide (j + 1 + 1 = 0)) t3 dc ++
        cardQ p d s.leader.left.left.left (decide (j + 1 + 1 + 1 = 0)) t4 dc)),
    cardC p d s.leader (decide (j = 0)) t1 r1 rdd ++ (cardC p d s.leader.left (decide (j + 1 = 0)) t2 r2 rdd ++
      (cardC p d s.leader.left.left (decide (j + 1 + 1 = 0)) t3 r3 rdd ++
        cardC p d s.leader.left.left.left (decide (j + 1 + 1 + 1 = 0)) t4 r4 rdd)),
    cardS p d s.leader true (decide (j = 0))
        (if s.leader = d.partner then "Dummy to lead".toList else s.leader.formal ++ " to lead".toList) t1 dc ++
      (cardS p d s.leader.left false (decide (j + 1 = 0))
          (if s.leader.left = d.partner then "Dummy to lead".toList
            else s.leader.left.formal ++ " to lead".toList) t2 dc ++
        (cardS p d s.leader.left.left false (decide (j + 1 + 1 = 0))
            (if s.leader.left.left = d.partner then "Dummy to lead".toList
              else s.leader.left.left.formal ++ " to lead".toList) t3 dc ++
          cardS p d s.leader.left.left.left false (decide (j + 1 + 1 + 1 = 0))
            (if s.leader.left.left.left = d.partner then "Dummy to lead".toList
              else s.leader.left.left.left.formal ++ " to lead".toList) t4 dc)),
    ?_, ?_, ?_,
    ?_, e4t, e4a⟩
  · simp only [List.append_assoc]
  · simp only [List.append_assoc]
  · simp only [List.append_assoc]
  intro q' c'
  simp only [List.append_assoc]
  rw [seatTrickR_step p d s.leader first 0 (by omega) true (decide (j = 0)) (by simp) (by simp [hf])]
  simp only [Nat.zero_add]
  rw [seatTrickR_step p d s.leader.left first 1 (by omega) false (decide (j + 1 = 0)) (by simp) (by simp)]
  simp only [Nat.reduceAdd]
  rw [seatTrickR_step p d s.leader.left.left first 2 (by omega) false (decide (j + 1 + 1 = 0)) (by simp) (by simp)]
  simp only [Nat.reduceAdd]
  rw [seatTrickR_step p d s.leader.left.left.left first 3 (by omega) false (decide (j + 1 + 1 + 1 = 0)) (by simp)
    (by simp)]
  simp only [Nat.reduceAdd]
  rw [seatTrickR.eq_1]
  simp only [Option.map_some, List.append_nil]

/-! ## the tricks of a board -/
theorem tricks_play (p d : Seat) (deal : Hands) (q' c' : List Text) :
    ∀ (n : Nat) (cards : List (Card × Text)) (s : PState) (k : Nat), cards.length = 4 * n →
      s.trick = [] → s.active = s.leader →
      seatPlayingR.tricks p d n (k + 1)
          { q := (cardPhases d deal s (4 * k) cards).flatMap (qOf p) ++ q',
            c := (cardPhases d deal s (4 * k) cards).flatMap (cOf p) ++ c' } =
        some ((cardPhases d deal s (4 * k) cards).flatMap (sOf p), { q := q', c := c' }) := by
  intro n
  induction n with
  | zero =>
    intro cards s k hl _ _
    have : cards = [] := List.eq_nil_of_length_eq_zero (by simpa using hl)
    subst this
    simp [cardPhases, seatPlayingR.tricks]
  | succ n ih =>
    intro cards s k hl ht ha
    match cards, hl with
    | x1 :: x2 :: x3 :: x4 :: rest, hl =>
      obtain ⟨s4, Q, C, S, hq, hc, hs, hrun, ht4, ha4⟩ :=
        one_trick p d deal s (4 * k) (decide (k + 1 = 1)) (by simp; omega) ht ha x1 x2 x3 x4 rest
      have ih := ih rest s4 (k + 1) (by simp at hl; omega) ht4 ha4
      rw [show 4 * (k + 1) = 4 * k + 4 from by omega] at ih
      rw [hq, hc, hs, seatPlayingR.tricks]
      simp only [List.cons_append, List.append_assoc, getQ_cons, Option.bind_eq_bind, Option.bind_some,
        seatOfFormal_formal, hrun, ih]
      simp

/-! ## the contract of a finished auction with a bid has a declarer -/
theorem contractOfCalls_declarer (b : BoardSetting) (calls : List Call) (c : Contract)
    (hc : contractOfCalls b calls = some c) (hb : c.isPassedOut = false) : ∃ decl, c.declarer = some decl := by
  unfold contractOfCalls at hc
  have hr := reach_run b.dealer b.vul calls
  by_cases he : EndedLaw (accepted b.dealer [] calls)
  · rw [C03.contract_is_spec _ _ _ _ hr he] at hc
    cases hc
    cases hq : lastBid? (accepted b.dealer [] calls) with
    | none => simp [specContract, hq, Contract.isPassedOut] at hb
    | some kj =>
      obtain ⟨k, j⟩ := kj
      obtain ⟨pl, hpl, _⟩ := C03.declarer_is_first_namer b.dealer b.vul _ k j hq
      exact ⟨pl, hpl⟩
  · rw [C03.contract_none_before_end _ _ _ _ hr he] at hc
    cases hc

/-! ## one board -/
/-- a board whose auction ends in a contract is played to the end: thirteen tricks -/
def BoardPlayable (b : BoardSetting) (d : Decisions) : Prop :=
  ∀ c, contractOfCalls b (d.calls.map (·.1)) = some c → c.isPassedOut = false → d.cards.length = 52

theorem callPhases_q_length (p dealer : Seat) : ∀ (calls : List (Call × Text)) (j : Nat),
    calls.length ≤ ((callPhases dealer j calls).flatMap (qOf p)).length := by
  intro calls
  induction calls with
  | nil => intro j; simp
  | cons x r ih =>
    intro j
    obtain ⟨cl, text⟩ := x
    have := ih (j + 1)
    simp only [callPhases, List.flatMap_cons, qOf_call, List.length_append, List.length_cons]
    omega

/-- the contract main computes for a board (the default when the auction is not finished is "passed out") -/
def boardContractOf (b : BoardSetting) (d : Decisions) : Contract :=
  (contractOfCalls b (d.calls.map (·.1))).getD ⟨none, false, false, b.vul, none⟩

/-- the phases of the play of a board -/
def playPhases (b : BoardSetting) (d : Decisions) : List (Phase Text LogOp) :=
  match PState.init (boardContractOf b d), (boardContractOf b d).declarer with
  | some s0, some decl => Phase.playStart decl.formal :: cardPhases decl b.deal s0 0 d.cards
  | _, _ => []

theorem boardPhases_eq (sc : Scenario) (k : Nat) (last : Bool) (b : BoardSetting) (d : Decisions) :
    boardPhases sc k last b d =
      [Phase.deal (boardHeader k b.dealer b.vul) (fun p => cardsMsg p.formal (b.deal p))
        (fun p => readyFor p "deal".toList) (fun p => readyFor p "cards".toList)] ++
      callPhases b.dealer 0 d.calls ++
      [Phase.auctionEnd MSG_NULL (if (boardContractOf b d).isPassedOut then MSG_PASSED_OUT else MSG_NULL)] ++
      playPhases b d ++
      [if last then Phase.lastBoard (LogOp.write (recordOf sc b d)) LogOp.close MSG_END
       else Phase.nextBoard (LogOp.write (recordOf sc b d)) MSG_NEXT MSG_START] := by
  rfl

/-- the play of a board as the reactive thread performs it -/
theorem seatPlay_board (p : Seat) (b : BoardSetting) (d : Decisions) (hp : BoardPlayable b d) (q' c' : List Text) :
    (if (boardContractOf b d).isPassedOut then
        some (([] : SeatActs), ({ q := (playPhases b d).flatMap (qOf p) ++ q',
                                  c := (playPhases b d).flatMap (cOf p) ++ c' } : SeatIn))
     else seatPlayingR p { q := (playPhases b d).flatMap (qOf p) ++ q',
                           c := (playPhases b d).flatMap (cOf p) ++ c' }) =
      some ((playPhases b d).flatMap (sOf p), { q := q', c := c' }) := by
  cases hpo : (boardContractOf b d).isPassedOut with
  | true =>
    have : PState.init (boardContractOf b d) = none := by
      simp only [Contract.isPassedOut, Option.isNone_iff_eq_none] at hpo
      simp [PState.init, hpo]
    simp [playPhases, this]
  | false =>
    cases hcc : contractOfCalls b (d.calls.map (·.1)) with
    | none => simp [boardContractOf, hcc, Contract.isPassedOut] at hpo
    | some c =>
      have hc : boardContractOf b d = c := by simp [boardContractOf, hcc]
      rw [hc] at hpo
      obtain ⟨decl, hdecl⟩ := contractOfCalls_declarer b _ c hcc hpo
      have hlen := hp c hcc hpo
      obtain ⟨bid, hbid⟩ : ∃ bid, c.finalBid = some bid := by
        cases hf : c.finalBid with
        | none => simp [Contract.isPassedOut, hf] at hpo
        | some bid => exact ⟨bid, rfl⟩
      let s0 : PState :=
          { trump := bidDenom bid, declarer := decl, dummy := decl.partner, leader := decl.left,
            active := decl.left, trick := [], trickNum := 1, history := [], used := [], takenNS := 0,
            takenEW := 0 }
      have hplay : playPhases b d = Phase.playStart decl.formal :: cardPhases decl b.deal s0 (4 * 0) d.cards := by
        simp [playPhases, hc, PState.init, hbid, hdecl, s0]
      rw [hplay]
      have ht := tricks_play p decl b.deal q' c' 13 d.cards s0 0 hlen rfl rfl
      simp only [Bool.false_eq_true, if_false, List.flatMap_cons, qOf_playStart, cOf_playStart, seatPlayingR,
        List.cons_append, List.nil_append, getQ_cons, Option.bind_eq_bind, Option.bind_some,
        seatOfFormal_formal]
      rw [ht]
      simp [sOf, phaseProg]

theorem msg_facts : MSG_PASSED_OUT ≠ MSG_NULL ∧ MSG_NEXT ≠ MSG_END ∧ MSG_NULL ≠ MSG_PASSED_OUT := by decide

theorem seatBoardsR_board (sc : Scenario) (p : Seat) (k : Nat) (last : Bool) (b : BoardSetting) (d : Decisions)
    (hp : BoardPlayable b d) (fuel : Nat) (q' c' : List Text) :
    seatBoardsR p (fuel + 1)
        { q := (boardPhases sc k last b d).flatMap (qOf p) ++ q',
          c := (boardPhases sc k last b d).flatMap (cOf p) ++ c' } =
      if last then some ((boardPhases sc k last b d).flatMap (sOf p), { q := q', c := c' })
      else (seatBoardsR p fuel { q := q', c := c' }).map fun r =>
        ((boardPhases sc k last b d).flatMap (sOf p) ++ r.1, r.2) := by
  have hplay := seatPlay_board p b d hp
  rw [boardPhases_eq]
  generalize boardContractOf b d = contract at hplay ⊢
  generalize playPhases b d = play at hplay ⊢
  generalize hst : (if last = true then Phase.lastBoard (LogOp.write (recordOf sc b d)) LogOp.close MSG_END
                  else Phase.nextBoard (LogOp.write (recordOf sc b d)) MSG_NEXT MSG_START) = status
  generalize hdl : Phase.deal (boardHeader k b.dealer b.vul) (fun p => cardsMsg p.formal (b.deal p))
                          (fun p => readyFor p "deal".toList) (fun p => readyFor p "cards".toList) = dealPh
  simp only [List.flatMap_append, List.flatMap_cons, List.flatMap_nil, List.append_nil, List.append_assoc]
  rw [seatBoardsR]
  subst hdl
  simp only [Option.bind_eq_bind, seatDealR_phase, Option.bind_some]
  simp only [qOf_auctionEnd, cOf_auctionEnd, List.cons_append, List.nil_append]
  generalize hbf : (List.flatMap (qOf p) (callPhases b.dealer 0 d.calls) ++ _).length + 1 = bf
  have hlt : d.calls.length < bf := by
    have := callPhases_q_length p b.dealer d.calls 0
    rw [← hbf, List.length_append]; omega
  rw [seatBiddingR_calls p b.dealer _ _ d.calls 0 bf hlt]
  simp only [Option.bind_some, getQ_cons]
  clear hbf hlt
  generalize sOf p (Phase.deal _ _ _ _) = SD
  generalize List.flatMap (sOf p) (callPhases b.dealer 0 d.calls) = SC
  have hplay := hplay (qOf p status ++ q') (cOf p status ++ c')
  obtain ⟨m1, m2, m3⟩ := msg_facts
  cases hpo : contract.isPassedOut
  · simp only [hpo, Bool.false_eq_true, if_false] at hplay ⊢
    simp only [if_neg m3, if_true, hplay, Option.bind_some]
    cases last
    · subst hst
      simp only [Bool.false_eq_true, if_false, qOf_nextBoard, cOf_nextBoard, List.cons_append, List.nil_append,
        getQ_cons, Option.bind_some, if_true]
      cases seatBoardsR p fuel { q := q', c := c' } <;> simp [sOf, phaseProg]
    · subst hst
      simp [qOf_lastBoard, cOf_lastBoard, m2.symm, sOf, phaseProg]
  · simp only [hpo, if_true] at hplay ⊢
    simp only [Option.some.injEq, Prod.mk.injEq] at hplay
    obtain ⟨hs, hi⟩ := hplay
    simp only [hi, ← hs, Option.pure_def, Option.bind_some]
    cases last
    · subst hst
      simp only [Bool.false_eq_true, if_false, qOf_nextBoard, cOf_nextBoard, List.cons_append, List.nil_append,
        getQ_cons, Option.bind_some, if_true]
      cases seatBoardsR p fuel { q := q', c := c' } <;> simp [sOf, phaseProg]
    · subst hst
      simp [qOf_lastBoard, cOf_lastBoard, m2.symm, sOf, phaseProg]

/-! ## the boards of a session -/
theorem boardPhases_q_length (sc : Scenario) (p : Seat) (k : Nat) (last : Bool) (b : BoardSetting) (d : Decisions) :
    1 ≤ ((boardPhases sc k last b d).flatMap (qOf p)).length := by
  rw [boardPhases_eq]
  simp only [List.flatMap_append, List.flatMap_cons, List.flatMap_nil, qOf_deal, List.length_append,
    List.length_cons]
  omega

theorem boardsPhases_q_length (sc : Scenario) (p : Seat) : ∀ (boards : List (BoardSetting × Decisions)) (k : Nat),
    boards.length ≤ ((boardsPhases sc k boards).flatMap (qOf p)).length := by
  intro boards
  induction boards with
  | nil => intro k; simp
  | cons x r ih =>
    intro k
    obtain ⟨b, d⟩ := x
    cases r with
    | nil => simpa [boardsPhases] using boardPhases_q_length sc p k true b d
    | cons y r' =>
      have h1 := ih (k + 1)
      have h2 := boardPhases_q_length sc p k false b d
      rw [boardsPhases, List.flatMap_append, List.length_append]
      · simp only [List.length_cons] at h1 ⊢; omega
      · simp

theorem seatBoardsR_boards (sc : Scenario) (p : Seat) (q' c' : List Text) :
    ∀ (boards : List (BoardSetting × Decisions)) (k fuel : Nat), boards ≠ [] →
      (∀ bd ∈ boards, BoardPlayable bd.1 bd.2) → boards.length ≤ fuel →
      seatBoardsR p fuel { q := (boardsPhases sc k boards).flatMap (qOf p) ++ q',
                           c := (boardsPhases sc k boards).flatMap (cOf p) ++ c' } =
        some ((boardsPhases sc k boards).flatMap (sOf p), { q := q', c := c' }) := by
  intro boards
  induction boards with
  | nil => intro k fuel h; exact absurd rfl h
  | cons x r ih =>
    intro k fuel _ hp hf
    obtain ⟨b, d⟩ := x
    obtain ⟨f, rfl⟩ : ∃ f, fuel = f + 1 := ⟨fuel - 1, by simp at hf; omega⟩
    have hbd : BoardPlayable b d := hp (b, d) List.mem_cons_self
    cases r with
    | nil =>
      simp only [boardsPhases]
      rw [seatBoardsR_board sc p k true b d hbd]
      simp
    | cons y r' =>
      have ih := ih (k + 1) f (by simp) (fun bd h => hp bd (List.mem_cons_of_mem _ h))
        (by simp at hf ⊢; omega)
      rw [boardsPhases]
      · simp only [List.flatMap_append, List.append_assoc]
        rw [seatBoardsR_board sc p k false b d hbd, ih]
        simp
      · simp

/-! ## the session -/
/-- every board of the scenario whose auction reaches a contract is played to the end (52 cards: thirteen tricks);
nothing is asked of a passed-out board or of an unfinished auction (the model plays no card there), and nothing of
the texts -/
def ScenarioPlayable (sc : Scenario) : Prop :=
  ∀ b d, (b, d) ∈ sc.boards → ∀ c, contractOfCalls b (d.calls.map (·.1)) = some c → c.isPassedOut = false →
    d.cards.length = 52

/-- fed the messages the main thread queues for it and the messages its client sends in a session, the reactive seat
thread performs exactly the straight-line program of the session model -/
theorem seatReactive_session (sc : Scenario) (h : sc.boards ≠ []) (hw : ScenarioPlayable sc) (p : Seat) :
    seatReactive p (teamsMsg sc.nsName sc.ewName)
        (sendsOn (Chan.m2t p) (sessionProg sc .main))
        (sendsOn (Chan.c2s p) (sessionProg sc (.client p)))
      = some (sessionProg sc (.seat p)) := by
  have hq : sendsOn (Chan.m2t p) (sessionProg sc .main) = (boardsPhases sc 1 sc.boards).flatMap (qOf p) := by
    unfold sessionProg sessionPhases
    rw [sendsOn_progOfPhases, List.flatMap_cons]
    show qOf p _ ++ List.flatMap (qOf p) _ = _
    rw [qOf_seating]; rfl
  have hc : sendsOn (Chan.c2s p) (sessionProg sc (.client p)) =
      (p.formal ++ " ready to start".toList) :: (boardsPhases sc 1 sc.boards).flatMap (cOf p) := by
    unfold sessionProg sessionPhases
    rw [sendsOn_progOfPhases, List.flatMap_cons]
    show cOf p _ ++ List.flatMap (cOf p) _ = _
    rw [cOf_seating]; rfl
  have hs : sessionProg sc (.seat p) =
      sync ++ [.send (.s2c p) (teamsMsg sc.nsName sc.ewName), .recv (.c2s p), .send (.s2c p) MSG_START] ++
        (boardsPhases sc 1 sc.boards).flatMap (sOf p) := by
    unfold sessionProg sessionPhases progOfPhases
    rw [List.flatMap_cons]
    rfl
  have hrun := seatBoardsR_boards sc p [] [] sc.boards 1
    (((boardsPhases sc 1 sc.boards).flatMap (qOf p)).length + 1) h (fun bd hbd => hw bd.1 bd.2 hbd)
    (by have := boardsPhases_q_length sc p sc.boards 1; omega)
  simp only [List.append_nil] at hrun
  rw [hq, hc, hs]
  simp only [seatReactive, getC_cons, Option.bind_eq_bind, Option.bind_some, hrun, Option.pure_def]

end Bridge
