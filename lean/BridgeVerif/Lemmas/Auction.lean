import BridgeVerif.Model.Auction
import BridgeVerif.Spec.Laws
/-! Refinement of the auction model to the Laws: invariant `AInv` and the one-step theorem. -/
namespace Bridge

structure AInv (d : Seat) (v : Vul) (s : AState) (h : List Call) : Prop where
  hist : s.history = h
  dl : s.dealer = d
  vl : s.vul = v
  act : s.active = if over h then none else some (d.rot h.length)
  lb : s.lastBid = (lastBid? h).map (·.2)
  lbr : s.lastBidder = (lastBid? h).map fun p => callerAt d h.length p.1
  cx : s.calledX = (dblOf h).isX
  cxx : s.calledXX = (dblOf h).isXX
  ps : ∀ p, s.perSeat p = share d h p
  dc : ∀ sd su, s.declCheck sd su = firstNamer d h sd su
  av : over h = false → ∀ c, s.avail c = legal d h c

theorem ainv_init (d : Seat) (v : Vul) : AInv d v (AState.init d v) [] := by
  constructor <;> simp [AState.init, over, trailP, lastBid?, dblOf, Seat.rot, share, firstNamer, Dbl.isX, Dbl.isXX]
  intro c; cases c <;> simp [legal, lastBid?]

@[simp] theorem rot_succ (d : Seat) (n : Nat) : d.rot (n+1) = (d.rot n).left := rfl

theorem trailP_ge_two (h : List Call) :
    (h.head? = some Call.pass ∧ h.tail.head? = some Call.pass) ↔ 2 ≤ trailP h := by
  match h with
  | [] => simp [trailP]
  | [c] => cases c <;> simp [trailP]
  | c :: c' :: r => cases c <;> cases c' <;> simp [trailP]

theorem over_pass (h : List Call) :
    over (Call.pass :: h) = decide (2 ≤ trailP h ∧ 3 ≤ h.length) := by
  simp [over, trailP]

theorem over_nonpass (h : List Call) (c : Call) (hc : c ≠ .pass) : over (c :: h) = false := by
  cases c <;> simp_all [over, trailP]

theorem lastBid_lt : ∀ (h : List Call) k j, lastBid? h = some (k, j) → k < h.length := by
  intro h
  induction h with
  | nil => intro k j hh; simp [lastBid?] at hh
  | cons c r ih =>
    intro k j hh
    cases c with
    | bid i => simp [lastBid?] at hh; simp [hh.1.symm]
    | pass | dbl | rdbl =>
      simp only [lastBid?, Option.map_eq_some_iff] at hh
      obtain ⟨⟨k', j'⟩, h1, h2⟩ := hh
      have := ih k' j' h1
      simp at h2; simp; omega

theorem lastBid_nonbid (c : Call) (h : List Call) (hc : ∀ i, c ≠ .bid i) :
    lastBid? (c :: h) = (lastBid? h).map fun p => (p.1 + 1, p.2) := by
  cases c <;> simp_all [lastBid?]

theorem isPartner_left_left (a b : Seat) : a.left.left.isPartner b = a.isPartner b := by
  cases a <;> cases b <;> rfl

theorem advance_inv (d : Seat) (v : Vul) (s1 : AState) (p : Seat) (c : Call) (h : List Call)
    (hp : p = d.rot h.length)
    (hist : s1.history = h) (dl : s1.dealer = d) (vl : s1.vul = v)
    (lb : s1.lastBid = (lastBid? (c :: h)).map (·.2))
    (lbr : s1.lastBidder = (lastBid? (c :: h)).map fun q => callerAt d (c :: h).length q.1)
    (cx : s1.calledX = (dblOf (c :: h)).isX)
    (cxx : s1.calledXX = (dblOf (c :: h)).isXX)
    (ps : ∀ q, s1.perSeat q = share d h q)
    (dc : ∀ sd su, s1.declCheck sd su = firstNamer d (c :: h) sd su)
    (avb : ∀ k, (k = Call.pass ∨ ∃ j, k = Call.bid j) → s1.avail k = legal d (c :: h) k)
    (avx : lastBid? (c :: h) = none → s1.avail .dbl = false ∧ s1.avail .rdbl = false)
    (hov : over (c :: h) = false) :
    AInv d v (advance s1 p c) (c :: h) := by
  refine ⟨by simp [advance, hist], by simp [advance, dl], by simp [advance, vl],
          by simp [advance, hov, hp], by simp [advance, lb],
          by simp [advance, lbr], by simp [advance, cx], by simp [advance, cxx], ?_, ?_, ?_⟩
  · intro q
    simp only [advance, share, ps, hp]
    by_cases hq : q = d.rot h.length
    · subst hq; simp
    · have : ¬ d.rot h.length = q := fun e => hq e.symm
      simp [hq, this]
  · intro sd su; simp [advance, dc]
  · intro _ k
    simp only [advance]
    cases hlb : lastBid? (c :: h) with
    | none =>
      have : s1.lastBidder = none := by rw [lbr, hlb]; rfl
      simp only [this]
      cases k with
      | pass => exact avb _ (Or.inl rfl)
      | bid j => exact avb _ (Or.inr ⟨j, rfl⟩)
      | dbl => simp [legal, hlb, (avx hlb).1]
      | rdbl => simp [legal, hlb, (avx hlb).2]
    | some q =>
      obtain ⟨kk, jj⟩ := q
      have hl : s1.lastBidder = some (callerAt d (c :: h).length kk) := by rw [lbr, hlb]; rfl
      simp only [hl]
      cases k with
      | pass => exact avb _ (Or.inl rfl)
      | bid j => exact avb _ (Or.inr ⟨j, rfl⟩)
      | dbl =>
        simp only [legal, hlb, cx, cxx, hp, turn]
        cases hd : dblOf (c :: h) <;> simp [Dbl.isX, Dbl.isXX]
      | rdbl =>
        simp only [legal, hlb, cx, cxx, hp, turn]
        cases hd : dblOf (c :: h) <;> simp [Dbl.isX, Dbl.isXX]

theorem firstNamer_nonbid (d : Seat) (c : Call) (h : List Call) (hc : ∀ i, c ≠ .bid i) (sd su) :
    firstNamer d (c :: h) sd su = firstNamer d h sd su := by
  cases c with
  | bid i => exact absurd rfl (hc i)
  | pass | dbl | rdbl => simp only [firstNamer]; cases firstNamer d h sd su <;> rfl

theorem map_snd_shift (o : Option (Nat × Fin 35)) :
    (o.map fun p => (p.1 + 1, p.2)).map (·.2) = o.map (·.2) := by
  cases o <;> rfl

theorem map_caller_shift (d : Seat) (n : Nat) (o : Option (Nat × Fin 35)) :
    ((o.map fun p => (p.1 + 1, p.2)).map fun q => callerAt d (n + 1) q.1) =
      o.map fun q => callerAt d n q.1 := by
  cases o with
  | none => rfl
  | some q => simp [callerAt]; congr 1; omega

/-- what a non-bid call needs to establish (shared by pass / X / XX) -/
theorem nonbid_avb (d : Seat) (s : AState) (c : Call) (h : List Call) (hc : ∀ i, c ≠ .bid i)
    (av : ∀ c, s.avail c = legal d h c) :
    ∀ k, (k = Call.pass ∨ ∃ j, k = Call.bid j) → s.avail k = legal d (c :: h) k := by
  intro k hk
  rw [av k]
  rcases hk with rfl | ⟨j, rfl⟩
  · rfl
  · simp only [legal, lastBid_nonbid c h hc]; cases lastBid? h <;> simp

theorem nonbid_avx (d : Seat) (s : AState) (c : Call) (h : List Call) (hc : ∀ i, c ≠ .bid i)
    (av : ∀ c, s.avail c = legal d h c) :
    lastBid? (c :: h) = none → s.avail .dbl = false ∧ s.avail .rdbl = false := by
  intro hn
  have : lastBid? h = none := by
    rw [lastBid_nonbid c h hc] at hn; cases hq : lastBid? h <;> simp_all
  rw [av, av]; simp [legal, this]

/-- the one-step refinement theorem -/
theorem take_bid_refines (d : Seat) (v : Vul) (s : AState) (h : List Call) (hi : AInv d v s h) (c : Call) :
    (over h = true → takeBid s c = .error ()) ∧
    (over h = false → legal d h c = false → takeBid s c = .ok (s, .illegal)) ∧
    (over h = false → legal d h c = true →
      ∃ s', takeBid s c = .ok (s', if over (c :: h) then .finished else .ongoing) ∧
        AInv d v s' (c :: h)) := by
  obtain ⟨hist, dl, vl, act, lb, lbr, cx, cxx, ps, dc, av⟩ := hi
  refine ⟨?_, ?_, ?_⟩
  · intro ho; simp [takeBid, act, ho]
  · intro ho hl; simp [takeBid, act, ho, av ho c, hl]
  · intro ho hl
    have av := av ho
    have hav : s.avail c = true := by rw [av c]; exact hl
    have hact : s.active = some (d.rot h.length) := by simp [act, ho]
    cases c with
    | pass =>
      have hnb : ∀ i, Call.pass ≠ .bid i := by intro i; simp
      by_cases hfin : 3 ≤ s.history.length ∧ s.history.head? = some Call.pass ∧ s.history.tail.head? = some Call.pass
      · have hov : over (Call.pass :: h) = true := by
          rw [over_pass]; rw [hist] at hfin
          have := (trailP_ge_two h).1 hfin.2
          simp [this, hfin.1]
        refine ⟨{ s with history := Call.pass :: s.history,
                          perSeat := fun q => if q = d.rot h.length then Call.pass :: s.perSeat q else s.perSeat q,
                          active := none }, ?_, ?_⟩
        · simp only [takeBid, hact, hav, hfin, hov]; simp
        · refine ⟨by simp [hist], dl, vl, by simp [hov], ?_, ?_, ?_, ?_, ?_, ?_, ?_⟩
          · simp only [lb, lastBid_nonbid _ h hnb, map_snd_shift]
          · simp only [lbr, lastBid_nonbid _ h hnb, List.length_cons, map_caller_shift]
          · simp [cx, dblOf]
          · simp [cxx, dblOf]
          · intro q
            simp only [share, ps]
            by_cases hq : q = d.rot h.length
            · subst hq; simp
            · have : ¬ d.rot h.length = q := fun e => hq e.symm
              simp [hq, this]
          · intro sd su; simp only [dc, firstNamer_nonbid d _ h hnb]
          · intro hh; simp [hov] at hh
      · have hov : over (Call.pass :: h) = false := by
          rw [over_pass]; rw [hist] at hfin
          rw [trailP_ge_two] at hfin
          simp only [decide_eq_false_iff_not]
          intro hh; exact hfin ⟨hh.2, hh.1⟩
        refine ⟨advance s (d.rot h.length) .pass, ?_, ?_⟩
        · simp only [takeBid, hact, hav, hfin, hov]; simp
        · apply advance_inv d v s _ _ h rfl hist dl vl
          · simp only [lb, lastBid_nonbid _ h hnb, map_snd_shift]
          · simp only [lbr, lastBid_nonbid _ h hnb, List.length_cons, map_caller_shift]
          · simp [cx, dblOf]
          · simp [cxx, dblOf]
          · exact ps
          · intro sd su; simp only [dc, firstNamer_nonbid d _ h hnb]
          · exact nonbid_avb d s _ h hnb av
          · exact nonbid_avx d s _ h hnb av
          · exact hov
    | bid i =>
      have hov : over (Call.bid i :: h) = false := over_nonpass h _ (by simp)
      refine ⟨advance (bidState s (d.rot h.length) i) (d.rot h.length) (.bid i), ?_, ?_⟩
      · simp only [takeBid, hact, hav, hov]; simp
      · apply advance_inv d v _ _ _ h rfl (by simp [bidState, hist]) (by simp [bidState, dl]) (by simp [bidState, vl])
        · simp [lastBid?, bidState]
        · simp [lastBid?, callerAt, bidState]
        · simp [dblOf, Dbl.isX, bidState]
        · simp [dblOf, Dbl.isXX, bidState]
        · exact ps
        · intro sd su
          simp only [firstNamer, dc, bidState]
          cases hf : firstNamer d h sd su with
          | some q => simp
          | none =>
            by_cases h1 : (d.rot h.length).side = sd <;> by_cases h2 : bidDenom i = su <;>
              simp [h1, h2, eq_comm] <;> (first | exact fun e => h2 e.symm | exact fun e => h1 e.symm | exact fun e _ => h1 e.symm | skip)
        · intro k hk
          rcases hk with rfl | ⟨j, rfl⟩
          · simp [av, legal, bidState]
          · simp only [legal, lastBid?, bidState]
            by_cases hji : j ≤ i
            · have : ¬ i < j := by omega
              simp [hji, this]
            · have hij : i < j := by omega
              simp only [hji, if_false, av, legal, hij, decide_true]
              have hl' := hl
              simp only [legal] at hl'
              cases hq : lastBid? h with
              | none => rfl
              | some q =>
                rw [hq] at hl'
                simp at hl' ⊢
                omega
        · intro hn; simp [lastBid?] at hn
        · exact hov
    | dbl =>
      have hnb : ∀ i, Call.dbl ≠ .bid i := by intro i; simp
      have hov : over (Call.dbl :: h) = false := over_nonpass h _ (by simp)
      have hl' := hl
      simp only [legal] at hl'
      cases hq : lastBid? h with
      | none => rw [hq] at hl'; simp at hl'
      | some q =>
        rw [hq] at hl'
        have hd : dblOf h = .none := by
          cases hdd : dblOf h <;> simp_all [Dbl.isX]
        refine ⟨advance { s with calledX := true } (d.rot h.length) .dbl, ?_, ?_⟩
        · simp only [takeBid, hact, hav, hov]; simp
        · apply advance_inv d v { s with calledX := true } _ _ h rfl hist dl vl
          · simp only [lb, lastBid_nonbid _ h hnb, map_snd_shift]
          · simp only [lbr, lastBid_nonbid _ h hnb, List.length_cons, map_caller_shift]
          · simp [dblOf, hd, Dbl.isX]
          · simp [dblOf, hd, Dbl.isXX, cxx]
          · exact ps
          · intro sd su; simp only [dc, firstNamer_nonbid d _ h hnb]
          · exact nonbid_avb d _ _ h hnb av
          · exact nonbid_avx d _ _ h hnb av
          · exact hov
    | rdbl =>
      have hnb : ∀ i, Call.rdbl ≠ .bid i := by intro i; simp
      have hov : over (Call.rdbl :: h) = false := over_nonpass h _ (by simp)
      have hl' := hl
      simp only [legal] at hl'
      cases hq : lastBid? h with
      | none => rw [hq] at hl'; simp at hl'
      | some q =>
        rw [hq] at hl'
        have hd : dblOf h = .x := by
          cases hdd : dblOf h <;> simp_all [Dbl.isX, Dbl.isXX]
        refine ⟨advance { s with calledXX := true } (d.rot h.length) .rdbl, ?_, ?_⟩
        · simp only [takeBid, hact, hav, hov]; simp
        · apply advance_inv d v { s with calledXX := true } _ _ h rfl hist dl vl
          · simp only [lb, lastBid_nonbid _ h hnb, map_snd_shift]
          · simp only [lbr, lastBid_nonbid _ h hnb, List.length_cons, map_caller_shift]
          · simp [dblOf, hd, Dbl.isX, cx]
          · simp [dblOf, Dbl.isXX]
          · exact ps
          · intro sd su; simp only [dc, firstNamer_nonbid d _ h hnb]
          · exact nonbid_avb d _ _ h hnb av
          · exact nonbid_avx d _ _ h hnb av
          · exact hov

/-- what the Laws say an offered call must be answered with -/
def specOut (d : Seat) (h : List Call) (c : Call) : Except Unit Res :=
  if over h then .error ()
  else if legal d h c then .ok (if over (c :: h) then .finished else .ongoing)
  else .ok .illegal

def specOuts (d : Seat) : List Call → List Call → List (Except Unit Res)
  | _, [] => []
  | h, c :: cs =>
    specOut d h c :: specOuts d (if over h = false ∧ legal d h c = true then c :: h else h) cs

theorem run_refines (d : Seat) (v : Vul) (ops : List Call) :
    ∀ (s : AState) (h : List Call), AInv d v s h →
      AInv d v (runAuction s ops).1 (accepted d h ops) ∧ (runAuction s ops).2 = specOuts d h ops := by
  induction ops with
  | nil => intro s h hi; exact ⟨hi, rfl⟩
  | cons c cs ih =>
    intro s h hi
    obtain ⟨h1, h2, h3⟩ := take_bid_refines d v s h hi c
    cases ho : over h with
    | true =>
      have e := h1 ho
      have := ih s h hi
      simp only [runAuction, e, accepted, specOuts, specOut, ho]
      simp
      exact this
    | false =>
      cases hl : legal d h c with
      | false =>
        have e := h2 ho hl
        have := ih s h hi
        simp only [runAuction, e, accepted, specOuts, specOut, ho, hl]
        simp
        exact this
      | true =>
        obtain ⟨s', e, hi'⟩ := h3 ho hl
        have := ih s' (c :: h) hi'
        simp only [runAuction, e, accepted, specOuts, specOut, ho, hl]
        simp
        exact this

theorem accepted_legal (d : Seat) (ops : List Call) :
    ∀ h, Legal d h → Legal d (accepted d h ops) := by
  induction ops with
  | nil => intro h hl; exact hl
  | cons c cs ih =>
    intro h hl
    simp only [accepted]
    split
    · rename_i hc; exact ih _ (Legal.cons hl hc.1 hc.2)
    · exact ih _ hl




theorem isPartner_iff_side (a b : Seat) : a.isPartner b = true ↔ a.side = b.side := by
  cases a <;> cases b <;> decide

theorem over_of_ended_law (h : List Call) (he : EndedLaw h) : over h = true := by
  rcases he with rfl | ⟨c, pre, hc, rfl⟩
  · decide
  · cases c <;> simp_all [over, trailP]

theorem ended_law_of_over (d : Seat) (h : List Call) (hl : Legal d h) (ho : over h = true) :
    EndedLaw h := by
  simp only [over, decide_eq_true_eq] at ho
  match h, hl, ho with
  | .pass :: .pass :: .pass :: c :: pre, hl, _ =>
    by_cases hc : c = Call.pass
    · subst hc
      left
      cases hl with
      | cons hl' hov _ =>
        have hov' : ¬ (3 ≤ trailP (Call.pass :: Call.pass :: Call.pass :: pre) ∧
            4 ≤ (Call.pass :: Call.pass :: Call.pass :: pre).length) := by
          simpa [over] using hov
        simp only [trailP, List.length_cons] at hov'
        have : pre.length = 0 := by omega
        have : pre = [] := List.length_eq_zero_iff.mp this
        subst this; rfl
    · right; exact ⟨c, pre, hc, rfl⟩
  | [], _, ho => simp at ho
  | [_], _, ho => simp at ho
  | [_, _], _, ho => simp at ho
  | [_, _, _], _, ho => simp at ho
  | .bid _ :: _ :: _ :: _ :: _, _, ho => simp [trailP] at ho
  | .dbl :: _ :: _ :: _ :: _, _, ho => simp [trailP] at ho
  | .rdbl :: _ :: _ :: _ :: _, _, ho => simp [trailP] at ho
  | .pass :: .bid _ :: _ :: _ :: _, _, ho => simp [trailP] at ho
  | .pass :: .dbl :: _ :: _ :: _, _, ho => simp [trailP] at ho
  | .pass :: .rdbl :: _ :: _ :: _, _, ho => simp [trailP] at ho
  | .pass :: .pass :: .bid _ :: _ :: _, _, ho => simp [trailP] at ho
  | .pass :: .pass :: .dbl :: _ :: _, _, ho => simp [trailP] at ho
  | .pass :: .pass :: .rdbl :: _ :: _, _, ho => simp [trailP] at ho



theorem callerAt_shift (d : Seat) (n k : Nat) : callerAt d (n + 1) (k + 1) = callerAt d n k := by
  simp [callerAt]; congr 1; omega

theorem callerAt_zero (d : Seat) (n : Nat) : callerAt d (n + 1) 0 = d.rot n := by
  simp [callerAt]

/-- on a reachable history a standing double was made by an opponent of the last bidder -/
theorem doubler_opposes_bidder (d : Seat) (h : List Call) (hl : Legal d h) (hx : dblOf h = .x) :
    ∃ m k j, dblPos? h = some m ∧ lastBid? h = some (k, j) ∧
      (callerAt d h.length m).side ≠ (callerAt d h.length k).side := by
  induction hl with
  | nil => simp [dblOf] at hx
  | @cons h c hl' hov hleg ih =>
    cases c with
    | bid i => simp [dblOf] at hx
    | rdbl => simp [dblOf] at hx
    | dbl =>
      simp only [legal] at hleg
      cases hq : lastBid? h with
      | none => rw [hq] at hleg; simp at hleg
      | some q =>
        obtain ⟨k, j⟩ := q
        rw [hq] at hleg
        simp only [Bool.and_eq_true, Bool.not_eq_true'] at hleg
        refine ⟨0, k + 1, j, by simp [dblPos?], by simp [lastBid?, hq], ?_⟩
        simp only [List.length_cons, callerAt_shift, callerAt_zero]
        intro e
        have := (isPartner_iff_side _ _).2 e
        simp [turn] at hleg
        rw [hleg.2] at this; cases this
    | pass =>
      simp only [dblOf] at hx
      obtain ⟨m, k, j, h1, h2, h3⟩ := ih hx
      refine ⟨m + 1, k + 1, j, by simp [dblPos?, h1], by simp [lastBid?, h2], ?_⟩
      simpa only [List.length_cons, callerAt_shift] using h3

theorem side_two (a b c : Side) (h1 : a ≠ b) (h2 : b = c) : a ≠ c := by subst h2; exact h1

theorem legalLaw_eq_legal (d : Seat) (h : List Call) (hl : Legal d h) (c : Call) :
    legalLaw d h c = legal d h c := by
  cases c with
  | pass => rfl
  | bid i => rfl
  | dbl =>
    simp only [legalLaw, legal]
    cases hq : lastBid? h with
    | none => rfl
    | some q =>
      obtain ⟨k, j⟩ := q
      simp only
      cases hd : dblOf h <;> simp [Dbl.isX]
      have := isPartner_iff_side (turn d h) (callerAt d h.length k)
      cases hp : (turn d h).isPartner (callerAt d h.length k)
      · simp; intro e; rw [this.2 e.symm] at hp; cases hp
      · simp; exact (this.1 hp).symm
  | rdbl =>
    simp only [legalLaw, legal]
    cases hq : lastBid? h with
    | none => rfl
    | some q =>
      obtain ⟨k, j⟩ := q
      cases hd : dblOf h with
      | none => cases dblPos? h <;> simp [Dbl.isX]
      | xx => cases dblPos? h <;> simp [Dbl.isX, Dbl.isXX]
      | x =>
        obtain ⟨m, k', j', h1, h2, h3⟩ := doubler_opposes_bidder d h hl hd
        rw [hq] at h2; cases h2
        simp only [h1, Dbl.isX, Dbl.isXX]
        have := isPartner_iff_side (turn d h) (callerAt d h.length k)
        cases hp : (turn d h).isPartner (callerAt d h.length k)
        · simp; intro _ e; rw [this.2 e.symm] at hp; cases hp
        · have e := this.1 hp
          simp [e]; exact h3


def dblNat : Dbl → Nat | .none => 0 | .x => 1 | .xx => 2

theorem trailP_le_lastBid : ∀ (h : List Call) k j, lastBid? h = some (k, j) → trailP h ≤ k := by
  intro h
  induction h with
  | nil => intro k j hh; simp [lastBid?] at hh
  | cons c r ih =>
    intro k j hh
    cases c with
    | bid i => simp [trailP]
    | dbl | rdbl => simp [trailP]
    | pass =>
      simp only [lastBid?, Option.map_eq_some_iff] at hh
      obtain ⟨⟨k', j'⟩, h1, h2⟩ := hh
      have := ih k' j' h1
      simp at h2; simp [trailP]; omega

theorem trailP_le_two_of_bid (h : List Call) (k j) (hq : lastBid? h = some (k, j))
    (hov : over h = false) : trailP h ≤ 2 := by
  have h1 := trailP_le_lastBid h k j hq
  have h2 := lastBid_lt h k j hq
  have hov' : ¬ (3 ≤ trailP h ∧ 4 ≤ h.length) := by simpa [over] using hov
  omega

theorem legal_length_bound (d : Seat) (h : List Call) (hl : Legal d h) :
    match lastBid? h with
    | none => h.length = trailP h ∧ trailP h ≤ 4
    | some (_, j) => h.length ≤ 4 + 9 * j.val + 3 * dblNat (dblOf h) + trailP h ∧ trailP h ≤ 3 := by
  induction hl with
  | nil => simp [lastBid?, trailP]
  | @cons h c hl' hov hleg ih =>
    have hov' : ¬ (3 ≤ trailP h ∧ 4 ≤ h.length) := by simpa [over] using hov
    cases hq : lastBid? h with
    | none =>
      rw [hq] at ih
      simp only at ih
      cases c with
      | pass => simp only [lastBid?, hq, Option.map_none, trailP, List.length_cons]; omega
      | bid i => simp only [lastBid?, trailP, List.length_cons, dblOf, dblNat]; omega
      | dbl => simp [legal, hq] at hleg
      | rdbl => simp [legal, hq] at hleg
    | some q =>
      obtain ⟨k, j⟩ := q
      rw [hq] at ih
      simp only at ih
      have ht := trailP_le_two_of_bid h k j hq hov
      have hdn : dblNat (dblOf h) ≤ 2 := by cases dblOf h <;> simp [dblNat]
      cases c with
      | pass =>
        simp only [lastBid?, hq, Option.map_some, trailP, List.length_cons, dblOf]; omega
      | bid i =>
        simp only [legal, hq, decide_eq_true_eq] at hleg
        simp only [lastBid?, trailP, List.length_cons, dblOf, dblNat]
        have : j.val < i.val := hleg
        omega
      | dbl =>
        have hd : dblOf h = .none := by
          simp only [legal, hq] at hleg
          cases hdd : dblOf h <;> simp_all [Dbl.isX]
        simp only [lastBid?, hq, Option.map_some, trailP, List.length_cons, dblOf, hd]
        rw [hd] at ih; simp [dblNat] at ih ⊢
        omega
      | rdbl =>
        have hd : dblOf h = .x := by
          simp only [legal, hq] at hleg
          cases hdd : dblOf h <;> simp_all [Dbl.isX, Dbl.isXX]
        simp only [lastBid?, hq, Option.map_some, trailP, List.length_cons, dblOf]
        rw [hd] at ih; simp [dblNat] at ih ⊢
        omega

/-- no reachable auction is longer than 319 calls -/
theorem legal_length_le_319 (d : Seat) (h : List Call) (hl : Legal d h) : h.length ≤ 319 := by
  have := legal_length_bound d h hl
  cases hq : lastBid? h with
  | none => rw [hq] at this; simp only at this; omega
  | some q =>
    obtain ⟨k, j⟩ := q
    rw [hq] at this; simp only at this
    have hdn : dblNat (dblOf h) ≤ 2 := by cases dblOf h <;> simp [dblNat]
    have := j.isLt
    omega



theorem endedB_iff (h : List Call) : endedB h = true ↔ EndedLaw h := by
  constructor
  · intro he
    match h, he with
    | [.pass, .pass, .pass, .pass], _ => left; rfl
    | .pass :: .pass :: .pass :: c :: x :: r, he =>
      right
      refine ⟨c, x :: r, ?_, rfl⟩
      intro hc; subst hc; simp [endedB] at he
    | [.pass, .pass, .pass, .bid i], _ => right; exact ⟨_, [], by simp, rfl⟩
    | [.pass, .pass, .pass, .dbl], _ => right; exact ⟨_, [], by simp, rfl⟩
    | [.pass, .pass, .pass, .rdbl], _ => right; exact ⟨_, [], by simp, rfl⟩
  · intro he
    rcases he with rfl | ⟨c, pre, hc, rfl⟩
    · rfl
    · cases pre <;> cases c <;> simp_all [endedB]

theorem over_eq_endedB (d : Seat) (h : List Call) (hl : Legal d h) : over h = endedB h := by
  cases ho : over h with
  | true => exact ((endedB_iff h).2 (ended_law_of_over d h hl ho)).symm
  | false =>
    cases he : endedB h with
    | false => rfl
    | true => rw [over_of_ended_law h ((endedB_iff h).1 he)] at ho; cases ho

theorem legal_iff_legalLaw (d : Seat) (h : List Call) : Legal d h ↔ LegalLaw d h := by
  constructor
  · intro hl
    induction hl with
    | nil => exact .nil
    | @cons h c hl' ho hc ih =>
      exact .cons ih (by rw [← over_eq_endedB d h hl']; exact ho)
        (by rw [legalLaw_eq_legal d h hl']; exact hc)
  · intro hl
    induction hl with
    | nil => exact .nil
    | @cons h c hl' ho hc ih =>
      exact .cons ih (by rw [over_eq_endedB d h ih]; exact ho)
        (by rw [← legalLaw_eq_legal d h ih]; exact hc)

theorem acceptedLaw_eq (d : Seat) (ops : List Call) :
    ∀ h, Legal d h → acceptedLaw d h ops = accepted d h ops := by
  induction ops with
  | nil => intro h _; rfl
  | cons c cs ih =>
    intro h hl
    simp only [acceptedLaw, accepted, ← over_eq_endedB d h hl, legalLaw_eq_legal d h hl]
    split
    · rename_i hc; exact ih _ (Legal.cons hl hc.1 hc.2)
    · exact ih _ hl

theorem answersLaw_eq (d : Seat) (ops : List Call) :
    ∀ h, Legal d h → answersLaw d h ops = specOuts d h ops := by
  induction ops with
  | nil => intro h _; rfl
  | cons c cs ih =>
    intro h hl
    simp only [answersLaw, specOuts, answerLaw, specOut, ← over_eq_endedB d h hl,
      legalLaw_eq_legal d h hl]
    by_cases hc : over h = false ∧ legal d h c = true
    · have hl' := Legal.cons hl hc.1 hc.2
      simp only [hc, and_self, if_true, ih _ hl', over_eq_endedB d _ hl']
    · simp only [hc, if_false, ih _ hl]
      congr 1
      by_cases ho : over h = true
      · simp [ho]
      · have : legal d h c = false := by
          cases hq : legal d h c
          · rfl
          · exact absurd ⟨by simpa using ho, hq⟩ hc
        simp [this]

/-- reachable states of the model: the invariant holds for a history the Laws allow -/
structure Reach (d : Seat) (v : Vul) (s : AState) (h : List Call) : Prop where
  inv : AInv d v s h
  leg : Legal d h

theorem reach_init (d : Seat) (v : Vul) : Reach d v (AState.init d v) [] := ⟨ainv_init d v, .nil⟩

theorem reach_run (d : Seat) (v : Vul) (ops : List Call) :
    Reach d v (runAuction (AState.init d v) ops).1 (accepted d [] ops) :=
  ⟨(run_refines d v ops _ _ (ainv_init d v)).1, accepted_legal d ops [] .nil⟩


/-- the last bid sits in the history with exactly `k` later calls, none of which is a bid -/
theorem lastBid_decomp : ∀ (h : List Call) k j, lastBid? h = some (k, j) →
    ∃ post pre, h = post ++ Call.bid j :: pre ∧ pre.length = h.length - 1 - k := by
  intro h
  induction h with
  | nil => intro k j hh; simp [lastBid?] at hh
  | cons c r ih =>
    intro k j hh
    by_cases hc : ∃ i, c = Call.bid i
    · obtain ⟨i, rfl⟩ := hc
      simp [lastBid?] at hh
      obtain ⟨rfl, rfl⟩ := hh
      exact ⟨[], r, rfl, by simp⟩
    · have hc' : ∀ i, c ≠ Call.bid i := fun i e => hc ⟨i, e⟩
      rw [lastBid_nonbid c r hc', Option.map_eq_some_iff] at hh
      obtain ⟨⟨k', j'⟩, h1, h2⟩ := hh
      simp at h2
      obtain ⟨rfl, rfl⟩ := h2
      obtain ⟨post, pre, e, hl⟩ := ih k' j' h1
      have := lastBid_lt r k' j' h1
      exact ⟨c :: post, pre, by simp [e], by simp; omega⟩

end Bridge
