import BridgeVerif.Lemmas.RegexMsgBidA
/-!
# The regular expressions of the table manager's message parsers, part D: `"{name} bids (\d)(C|D|H|S|NT)"`

`match_bids` : for every seat name and EVERY subject of the class `agreeBid` (the pattern letters compare alike in the engine
and in the scanner, and `\d` agrees with the ASCII `isDigit`; every ASCII character is in the class),
`re.match(f'{name} bids (\d)(C|D|H|S|NT)', s, re.IGNORECASE)` matches iff `stripPrefixCI (name ++ " bids ") s` succeeds and
`bidTail` reads a digit and a denomination (ordered alternation: `C`, `D`, `H`, `S`, then `NT`) — groups 1 and 2 are those
texts.  `bidTail` is the scanner inside `parseBid?` (`parseBid_asBid`).
-/
namespace Bridge.RegexMsgBid
open Bridge Bridge.Re Bridge.RegexPbn Bridge.RegexHands Bridge.RegexConnect

def agreeBid (x : Char) : Bool := agree x && (Re.isDigit x == Bridge.isDigit x)

theorem agreeBid_ofNat_ascii : ∀ n : Fin 128, agreeBid (Char.ofNat n.val) = true := by decide +kernel
theorem agreeBid_ascii (x : Char) (h : x.toNat < 128) : agreeBid x = true := by
  have := agreeBid_ofNat_ascii ⟨x.toNat, h⟩
  simpa [Char.ofNat_toNat] using this

/-- the digit and the denomination after `"{name} bids "` : the texts of groups 1 and 2 -/
def bidTail : List Char → Option (List (List Char))
  | d :: c :: r =>
    if Bridge.isDigit d then
      if eqCI 'C' c || eqCI 'D' c || eqCI 'H' c || eqCI 'S' c then some [[d], [c]]
      else if eqCI 'N' c then
        (match r with
         | t :: _ => if eqCI 'T' t then some [[d], [c, t]] else none
         | [] => none)
      else none
    else none
  | _ => none

def denomRe : Re := .alt (.lit 'C') (.alt (.lit 'D') (.alt (.lit 'H') (.alt (.lit 'S') (.seq (.lit 'N') (.lit 'T')))))
def bidTailRe : Re := .seq (.group 1 (.cls false [.digit false])) (.group 2 denomRe)

def bidsPat (name : List Char) : List Char := name ++ " bids (\\d)(C|D|H|S|NT)".toList

theorem parse_bids (p : Seat) : Re.parse (bidsPat p.formal) = some (lits (p.formal ++ " bids ".toList) bidTailRe) := by
  cases p <;> decide +kernel

theorem digit_test (ic : Bool) (x : Char) : (classTest ic x [.digit false] != false) = Re.isDigit x := by
  simp only [classTest, ClassItem.test, Bool.or_false]
  cases Re.isDigit x <;> rfl

theorem slice1 (s : List Char) (pos : Nat) (d : Char) (r : List Char) (h : s.drop pos = d :: r) :
    Re.slice s pos (pos + 1) = [d] := by
  simp [Re.slice, h]
theorem slice2 (s : List Char) (pos : Nat) (c t : Char) (r : List Char) (h : s.drop pos = c :: t :: r) :
    Re.slice s pos (pos + 2) = [c, t] := by
  simp [Re.slice, h]

theorem rel_bidTail (s : List Char) (hs : ∀ x ∈ s, agreeBid x = true) :
    Rel s 2 0 (den true bidTailRe (kfin 0 false false)) bidTail := by
  intro pos rest caps hd hl
  have hmem : ∀ x ∈ rest, x ∈ s := fun x hx => by rw [← hd] at hx; exact List.mem_of_mem_drop hx
  have hlit : ∀ x ∈ rest, ∀ c ∈ patChars, charEq true c x = eqCI c x := fun x hx c hc => by
    have := hs x (hmem x hx)
    simp only [agreeBid, agree, agreeLit, Bool.and_eq_true, List.all_eq_true] at this
    exact eq_of_beq (this.1 c hc)
  have hdig : ∀ x ∈ rest, Re.isDigit x = Bridge.isDigit x := fun x hx => by
    have := hs x (hmem x hx)
    simp only [agreeBid, Bool.and_eq_true] at this
    exact eq_of_beq this.2
  match caps, hl with
  | [c1, c2], _ =>
  cases rest with
  | nil => simp [bidTailRe, den, stepChar, bidTail, absRes]
  | cons d r1 =>
    have hd1 : s.drop (pos + 1) = r1 := drop_succ_of_cons s pos d r1 hd
    cases r1 with
    | nil => simp [bidTailRe, denomRe, den, stepChar, bidTail, absRes]
    | cons c r2 =>
      have hd2 : s.drop (pos + 1 + 1) = r2 := drop_succ_of_cons s (pos + 1) c r2 hd1
      have eC := hlit c (by simp) 'C' (by decide)
      have eD := hlit c (by simp) 'D' (by decide)
      have eH := hlit c (by simp) 'H' (by decide)
      have eS := hlit c (by simp) 'S' (by decide)
      have eN := hlit c (by simp) 'N' (by decide)
      have s1 := slice1 s pos d (c :: r2) hd
      have s2 := slice1 s (pos + 1) c r2 hd1
      simp only [bidTailRe, denomRe, den, stepChar, bidTail, digit_test, hdig d (by simp), eC, eD, eH, eS, eN, setCap]
      by_cases hdd : Bridge.isDigit d = true
      · simp only [hdd, if_true]
        by_cases hC : eqCI 'C' c = true
        · simp [hC, kfin, absRes, texts, s1, s2]
        · by_cases hD : eqCI 'D' c = true
          · simp [hC, hD, kfin, absRes, texts, s1, s2]
          · by_cases hH : eqCI 'H' c = true
            · simp [hC, hD, hH, kfin, absRes, texts, s1, s2]
            · by_cases hS : eqCI 'S' c = true
              · simp [hC, hD, hH, hS, kfin, absRes, texts, s1, s2]
              · by_cases hN : eqCI 'N' c = true
                · cases r2 with
                  | nil => simp [hC, hD, hH, hS, hN, absRes]
                  | cons t r3 =>
                    have eT := hlit t (by simp) 'T' (by decide)
                    have s3 := slice2 s (pos + 1) c t r3 hd1
                    by_cases hT : eqCI 'T' t = true
                    · simp [hC, hD, hH, hS, hN, eT, hT, kfin, absRes, texts, s1, s3]
                    · simp [hC, hD, hH, hS, hN, eT, hT, absRes]
                · simp [hC, hD, hH, hS, hN, absRes]
      · simp [hdd, absRes]

/-- THE BID PATTERN IS THE SCANNER, on every subject of the class -/
theorem match_bids (p : Seat) (s : List Char) (hs : ∀ x ∈ s, agreeBid x = true) :
    (Re.pyMatch true (bidsPat p.formal) s).map (Option.map (groupTexts s)) =
      some (((stripPrefixCI (p.formal ++ " bids ".toList) s).bind bidTail).map (·.map some)) := by
  have hsim : simple (lits (p.formal ++ " bids ".toList) bidTailRe) = true := by rw [simple_lits]; rfl
  have hng : (lits (p.formal ++ " bids ".toList) bidTailRe).ngroups = 2 := by rw [ngroups_lits]; rfl
  have hlit : ∀ x ∈ s, agree x = true := fun x hx => by
    have := hs x hx; simp only [agreeBid, Bool.and_eq_true] at this; exact this.1
  rw [pyMatch_abs' true _ s _ (parse_bids p) hsim, hng, den_lits_fun']
  have rT := rel_bidTail s hs
  have rA := rel_lits s patChars hlit 2 0 _ _ rT (p.formal ++ " bids ".toList) (by cases p <;> decide)
  have := rA 0 s (List.replicate 2 none) rfl rfl
  rw [this]
  simp only [List.take_zero, List.nil_append]

theorem match_bids_ascii (p : Seat) (s : List Char) (hs : ∀ x ∈ s, x.toNat < 128) :
    (Re.pyMatch true (bidsPat p.formal) s).map (Option.map (groupTexts s)) =
      some (((stripPrefixCI (p.formal ++ " bids ".toList) s).bind bidTail).map (·.map some)) :=
  match_bids p s fun x hx => agreeBid_ascii x (hs x hx)

end Bridge.RegexMsgBid
