import BridgeVerif.Lemmas.RegexPbnB
/-!
# From the anchored match to `search` / `finditer`  (R11, part C)
-/
namespace Bridge.RegexPbn
open Bridge Bridge.Re

theorem fuel_ok (re : Re) (n m : Nat) (h : m ≤ n) : re.size + m ≤ fuelFor re n := by
  unfold fuelFor
  have h1 : (re.size + 1) * (n + 2) = re.size * (n + 2) + (n + 2) := Nat.succ_mul _ _
  have h2 : re.size ≤ re.size * (n + 2) := Nat.le_mul_of_pos_right _ (by omega)
  omega

/-- leftmost anchored match at `pos` or later -/
def nextM (A : Nat → Str → Option MatchObj) : Str → Nat → Option MatchObj
  | [], pos => A pos []
  | c :: r, pos =>
    match A pos (c :: r) with
    | some m => some m
    | none => nextM A r (pos + 1)

def allM (A : Nat → Str → Option MatchObj) : Nat → Nat → Str → List MatchObj
  | 0, _, _ => []
  | n + 1, pos, rest =>
    match nextM A rest pos with
    | none => []
    | some m => m :: allM A n m.span.2 (rest.drop (m.span.2 - pos))

structure Anchored (re : Re) (fuel : Nat) (A : Nat → Str → Option MatchObj) : Prop where
  core : ∀ pos rest mustAdv, re.size + rest.length ≤ fuel →
    matchCore false re fuel pos rest false mustAdv = (match A pos rest with | none => .fail | some m => .ok m)
  span : ∀ pos rest m, A pos rest = some m → m.span.1 = pos ∧ pos < m.span.2 ∧ m.span.2 ≤ pos + rest.length

theorem nextM_span {re : Re} {fuel : Nat} {A : Nat → Str → Option MatchObj} (hA : Anchored re fuel A) :
    ∀ (rest : Str) (pos : Nat) (m : MatchObj), nextM A rest pos = some m →
      pos ≤ m.span.1 ∧ m.span.1 < m.span.2 ∧ m.span.2 ≤ pos + rest.length := by
  intro rest
  induction rest with
  | nil =>
    intro pos m h
    have := hA.span pos [] m h
    omega
  | cons c r ih =>
    intro pos m h
    simp only [nextM] at h
    cases hm : A pos (c :: r) with
    | some m' =>
      rw [hm] at h
      cases h
      have := hA.span pos (c :: r) m hm
      omega
    | none =>
      rw [hm] at h
      have := ih (pos + 1) m h
      simp only [List.length_cons]
      omega

theorem searchFrom_eq {re : Re} {fuel : Nat} {A : Nat → Str → Option MatchObj} (hA : Anchored re fuel A) :
    ∀ (rest : Str) (pos : Nat) (mustAdv : Bool), re.size + rest.length ≤ fuel →
      searchFrom false re fuel pos rest mustAdv = (match nextM A rest pos with | none => .fail | some m => .ok m) := by
  intro rest
  induction rest with
  | nil =>
    intro pos mustAdv hf
    rw [searchFrom, hA.core pos [] mustAdv hf]
    simp only [nextM]
    cases A pos [] <;> rfl
  | cons c r ih =>
    intro pos mustAdv hf
    rw [searchFrom, hA.core pos (c :: r) mustAdv hf]
    simp only [nextM]
    cases A pos (c :: r) with
    | some m => rfl
    | none =>
      simp only
      exact ih (pos + 1) false (by simp only [List.length_cons] at hf; omega)

theorem allMatches_eq {re : Re} {fuel : Nat} {A : Nat → Str → Option MatchObj} (hA : Anchored re fuel A) :
    ∀ (cnt : Nat) (rest : Str) (pos : Nat) (mustAdv : Bool), rest.length + 1 ≤ cnt → re.size + rest.length ≤ fuel →
      allMatches false re fuel cnt pos rest mustAdv = some (allM A cnt pos rest) := by
  intro cnt
  induction cnt with
  | zero => intro rest pos mustAdv h; omega
  | succ n ih =>
    intro rest pos mustAdv hc hf
    rw [allMatches, searchFrom_eq hA rest pos mustAdv hf]
    simp only [allM]
    cases hm : nextM A rest pos with
    | none => rfl
    | some m =>
      simp only
      have hs := nextM_span hA rest pos m hm
      rw [ih (rest.drop (m.span.2 - pos)) m.span.2 _ (by simp only [List.length_drop]; omega)
        (by simp only [List.length_drop]; omega)]


/-! ## the tag pattern -/
def mkM (p : Nat) (rs n v r7 : Str) : MatchObj :=
  { span := (p, p + rs.length - r7.length),
    groups := [some (p + tagOff rs, p + tagOff rs + n.length),
               some (p + tagOff rs + n.length + 2, p + tagOff rs + n.length + 2 + v.length)] }

def Atag (pos : Nat) (rest : Str) : Option MatchObj :=
  match matchTagAt rest with
  | none => none
  | some (n, v, r7) => some (mkM pos rest n v r7)

theorem shape_suffix (rest n v r7 : Str) (h : TagShape rest n v r7) : ∃ A, rest = A ++ r7 ∧ 0 < A.length := by
  obtain ⟨pre, sp2, h1, _⟩ := h
  exact ⟨pre ++ (n ++ (' ' :: '"' :: (v ++ ('"' :: (sp2 ++ [']']))))), by rw [h1]; simp, by simp; omega⟩

theorem shape_len (rest n v r7 : Str) (h : TagShape rest n v r7) : r7.length < rest.length := by
  obtain ⟨A, h1, h2⟩ := shape_suffix _ _ _ _ h
  rw [h1]; simp; omega

theorem shape_drop (rest n v r7 : Str) (h : TagShape rest n v r7) : rest.drop (rest.length - r7.length) = r7 := by
  obtain ⟨A, h1, h2⟩ := shape_suffix _ _ _ _ h
  rw [h1]; simp

theorem shape_name (rest n v r7 : Str) (h : TagShape rest n v r7) : (rest.drop (tagOff rest)).take n.length = n := by
  obtain ⟨pre, sp2, h1, h2⟩ := h
  rw [← h2]
  conv => lhs; rw [h1]
  simp

theorem shape_value (rest n v r7 : Str) (h : TagShape rest n v r7) :
    (rest.drop (tagOff rest + n.length + 2)).take v.length = v := by
  obtain ⟨pre, sp2, h1, h2⟩ := h
  rw [← h2]
  have e : rest = (pre ++ n ++ [' ', '"']) ++ (v ++ ('"' :: (sp2 ++ ']' :: r7))) := by rw [h1]; simp
  have el : (pre ++ n ++ [' ', '"']).length = pre.length + n.length + 2 := by simp; omega
  conv => lhs; rw [e, ← el]
  simp

theorem anchored_tag (fuel : Nat) : Anchored tagRe fuel Atag where
  core := by
    intro pos rest mustAdv hf
    rw [matchCore_eq_den false tagRe rfl fuel pos rest false mustAdv hf]
    show (match den false tagRe (kfin pos false mustAdv) ⟨pos, rest, [none, none]⟩ with
      | .ok st => .ok { span := (pos, st.pos), groups := st.caps }
      | .fail => .fail
      | .oof => .oof : Re.Res MatchObj) = _
    rw [den_tag]
    unfold Atag
    cases hm : matchTagAt rest with
    | none => rfl
    | some t =>
      obtain ⟨n, v, r7⟩ := t
      have hl := shape_len _ _ _ _ (matchTagAt_shape _ _ _ _ hm)
      have hne : ¬ (pos + rest.length - r7.length = pos) := by omega
      simp [kfin, hne, mkM]
  span := by
    intro pos rest m h
    unfold Atag at h
    cases hm : matchTagAt rest with
    | none => rw [hm] at h; simp at h
    | some t =>
      obtain ⟨n, v, r7⟩ := t
      rw [hm] at h
      simp only [Option.some.injEq] at h
      subst h
      have hl := shape_len _ _ _ _ (matchTagAt_shape _ _ _ _ hm)
      show pos = pos ∧ pos < pos + rest.length - r7.length ∧ pos + rest.length - r7.length ≤ pos + rest.length
      omega

theorem searchTag_eq : ∀ (rest : Str) (pos f2 : Nat), rest.length + 1 ≤ f2 →
    searchTag f2 rest pos = (nextM Atag rest pos).map (·.span) := by
  intro rest
  induction rest with
  | nil =>
    intro pos f2 h
    obtain ⟨f, rfl⟩ : ∃ f, f2 = f + 1 := ⟨f2 - 1, by omega⟩
    simp [searchTag, nextM, Atag, matchTagAt]
  | cons c r ih =>
    intro pos f2 h
    obtain ⟨f, rfl⟩ : ∃ f, f2 = f + 1 := ⟨f2 - 1, by omega⟩
    simp only [List.length_cons] at h
    simp only [searchTag, nextM, Atag]
    cases hm : matchTagAt (c :: r) with
    | none => simp only; exact ih (pos + 1) f (by omega)
    | some t =>
      obtain ⟨n, v, r7⟩ := t
      have hl := shape_len _ _ _ _ (matchTagAt_shape _ _ _ _ hm)
      simp only [Option.map_some, mkM, Option.some.injEq, Prod.mk.injEq, true_and]
      omega

theorem search_tag_proof (s : Str) :
    (Re.pySearch false TAG_PATTERN s).map (Option.map (·.span)) = some (searchTag (s.length + 1) s 0) := by
  unfold pySearch
  rw [parse_tag]
  simp only
  rw [searchFrom_eq (anchored_tag _) s 0 false (fuel_ok _ _ _ (Nat.le_refl _)), searchTag_eq s 0 _ (Nat.le_refl _)]
  cases nextM Atag s 0 <;> rfl


theorem fullmatch_replace_proof (l : Str) :
    (Re.pyFullmatch false REPLACE_PATTERN l).map Option.isSome = some (semiEmpty l) := by
  unfold pyFullmatch
  rw [parse_repl]
  exact repl_anchored l _ (fuel_ok _ _ _ (Nat.le_refl _))

theorem drop_of_drop (s rest : Str) (pos q : Nat) (h : s.drop pos = rest) (hq : pos ≤ q) :
    s.drop q = rest.drop (q - pos) := by
  subst h
  rw [List.drop_drop]
  congr 1; omega

theorem nextTag_findTags : ∀ (rest : Str) (pos f2 : Nat), rest.length + 1 ≤ f2 →
    (nextM Atag rest pos = none → findTags f2 rest = []) ∧
    (∀ m, nextM Atag rest pos = some m → ∃ p rs n v r7 f2', m = mkM p rs n v r7 ∧ matchTagAt rs = some (n, v, r7) ∧
      pos ≤ p ∧ rs = rest.drop (p - pos) ∧ r7.length + 1 ≤ f2' ∧ findTags f2 rest = (n, v) :: findTags f2' r7) := by
  intro rest
  induction rest with
  | nil =>
    intro pos f2 h
    obtain ⟨f, rfl⟩ : ∃ f, f2 = f + 1 := ⟨f2 - 1, by omega⟩
    simp [findTags, nextM, Atag, matchTagAt]
  | cons c r ih =>
    intro pos f2 h
    obtain ⟨f, rfl⟩ : ∃ f, f2 = f + 1 := ⟨f2 - 1, by omega⟩
    simp only [List.length_cons] at h
    simp only [findTags, nextM, Atag]
    cases hm : matchTagAt (c :: r) with
    | none =>
      simp only
      obtain ⟨ih1, ih2⟩ := ih (pos + 1) f (by omega)
      refine ⟨ih1, ?_⟩
      intro m hm'
      obtain ⟨p, rs, n, v, r7, f2', h1, h2, h3, h4, h5, h6⟩ := ih2 m hm'
      refine ⟨p, rs, n, v, r7, f2', h1, h2, by omega, ?_, h5, h6⟩
      rw [h4, show p - pos = (p - (pos + 1)) + 1 by omega, List.drop_succ_cons]
    | some t =>
      obtain ⟨n, v, r7⟩ := t
      have hl := shape_len _ _ _ _ (matchTagAt_shape _ _ _ _ hm)
      simp only [List.length_cons] at hl
      simp only [reduceCtorEq, false_imp_iff, Option.some.injEq, true_and]
      intro m hm'
      exact ⟨pos, c :: r, n, v, r7, f, hm'.symm, hm, Nat.le_refl _, by simp, by omega, rfl⟩

/-- one row of `re.findall` -/
def rowOf (s : Str) (m : MatchObj) : List Str :=
  match m.groups with
  | [] => [slice s m.span.1 m.span.2]
  | gs => gs.map fun g =>
    match g with
    | none => []
    | some (b, e) => slice s b e

theorem pyFindall_rowOf (ic : Bool) (pat s : Str) :
    pyFindall ic pat s = (pyFinditer ic pat s).map fun ms => ms.map (rowOf s) := rfl

theorem rowOf_mkM (s : Str) (p : Nat) (rs n v r7 : Str) (hs : s.drop p = rs) (hm : matchTagAt rs = some (n, v, r7)) :
    rowOf s (mkM p rs n v r7) = [n, v] := by
  have sh := matchTagAt_shape _ _ _ _ hm
  have e1 : s.drop (p + tagOff rs) = rs.drop (tagOff rs) := by
    rw [drop_of_drop s rs p _ hs (by omega)]; congr 1; omega
  have e2 : s.drop (p + tagOff rs + n.length + 2) = rs.drop (tagOff rs + n.length + 2) := by
    rw [drop_of_drop s rs p _ hs (by omega)]; congr 1; omega
  show [slice s _ _, slice s _ _] = _
  simp only [slice, e1, e2, Nat.add_sub_cancel_left, shape_name _ _ _ _ sh, shape_value _ _ _ _ sh]

theorem allM_tag_rows (s : Str) : ∀ (cnt : Nat) (rest : Str) (pos f2 : Nat), rest.length + 1 ≤ cnt →
    rest.length + 1 ≤ f2 → s.drop pos = rest →
    (allM Atag cnt pos rest).map (rowOf s) = (findTags f2 rest).map (fun nv => [nv.1, nv.2]) := by
  intro cnt
  induction cnt with
  | zero => intro rest pos f2 h; omega
  | succ k ih =>
    intro rest pos f2 hc hf hs
    obtain ⟨h1, h2⟩ := nextTag_findTags rest pos f2 hf
    simp only [allM]
    cases hm : nextM Atag rest pos with
    | none => simp [h1 hm]
    | some m =>
      obtain ⟨p, rs, n, v, r7, f2', rfl, hmt, hp, hrs, hf2', hft⟩ := h2 m hm
      have sh := matchTagAt_shape _ _ _ _ hmt
      have hl := shape_len _ _ _ _ sh
      have hrl : rs.length ≤ rest.length := by rw [hrs]; simp
      have hsp : s.drop p = rs := by rw [drop_of_drop s rest pos p hs hp, hrs]
      have hd : rest.drop ((mkM p rs n v r7).span.2 - pos) = r7 := by
        show rest.drop (p + rs.length - r7.length - pos) = r7
        have e : p + rs.length - r7.length - pos = (p - pos) + (rs.length - r7.length) := by omega
        rw [e, ← List.drop_drop, ← hrs]
        exact shape_drop _ _ _ _ sh
      have hs2 : s.drop (mkM p rs n v r7).span.2 = r7 := by
        rw [drop_of_drop s rest pos _ hs (by show pos ≤ p + rs.length - r7.length; omega), hd]
      simp only [hft, List.map_cons, hd]
      rw [rowOf_mkM s p rs n v r7 hsp hmt, ih r7 _ f2' (by omega) hf2' hs2]

theorem findall_tag_proof (s : Str) :
    Re.pyFindall false TAG_PATTERN s = some ((findTags (s.length + 1) s).map fun nv => [nv.1, nv.2]) := by
  rw [pyFindall_rowOf]
  unfold pyFinditer
  rw [parse_tag]
  simp only
  rw [allMatches_eq (anchored_tag _) _ s 0 false (by omega) (fuel_ok _ _ _ (Nat.le_refl _))]
  simp only [Option.map_some]
  rw [allM_tag_rows s _ s 0 (s.length + 1) (by omega) (Nat.le_refl _) rfl]

end Bridge.RegexPbn
