import BridgeVerif.Lemmas.RegexMsgBidB
/-!
# The regular expressions of the table manager's message parsers, part C: from the anchored match of the alert word to
`re.sub` — `sub_alert : Re.pySub true ALERT_PATTERN [] s = some (removeAlert s)` on every subject of the class `agreeWs`.
-/
namespace Bridge.RegexMsgBid
open Bridge Bridge.Re Bridge.RegexPbn Bridge.RegexHands Bridge.RegexConnect

/-- the leftmost position at or after `pos` where the alert word matches: (position, characters consumed, what is left) -/
def nextAlert : Nat → List Char → Option (Nat × Nat × List Char)
  | _, [] => none
  | pos, c :: r =>
    match alertAt (c :: r) with
    | some (k, t) => some (pos, k, t)
    | none => nextAlert (pos + 1) r

theorem searchFrom_alert (fuel : Nat) : ∀ (rest : List Char) (pos : Nat) (mustAdv : Bool),
    alertRe.size + rest.length ≤ fuel → (∀ x ∈ rest, agreeWs x = true) →
    searchFrom true alertRe fuel pos rest mustAdv =
      match nextAlert pos rest with
      | none => .fail
      | some (p, k, _) => .ok { span := (p, p + k), groups := [] } := by
  intro rest
  induction rest with
  | nil =>
    intro pos mustAdv hf hs
    rw [searchFrom, matchCore_alert fuel pos [] mustAdv hf hs]
    rfl
  | cons c r ih =>
    intro pos mustAdv hf hs
    rw [searchFrom, matchCore_alert fuel pos (c :: r) mustAdv hf hs]
    simp only [nextAlert]
    cases alertAt (c :: r) with
    | none =>
      simp only
      exact ih (pos + 1) false (by simp only [List.length_cons] at hf; omega) (fun x hx => hs x (by simp [hx]))
    | some kt => rfl

theorem removeAlertAux_succ (F : Nat) (c : Char) (r : List Char) :
    removeAlertAux (F + 1) (c :: r) =
      match alertAt (c :: r) with
      | some (_, t) => removeAlertAux F t
      | none => c :: removeAlertAux F r := by
  by_cases hc : Bridge.isWs c = true
  · simp only [removeAlertAux, alertAt, hc, if_true, List.dropWhile]
    show (match stripPrefixCI alertLit (r.dropWhile Bridge.isWs) with | some rest => _ | none => _) = _
    cases stripPrefixCI alertLit (r.dropWhile Bridge.isWs) <;> rfl
  · simp only [Bool.not_eq_true] at hc
    simp [removeAlertAux, alertAt, hc]

theorem removeAlertAux_nil (F : Nat) : removeAlertAux F [] = [] := by cases F <;> rfl

theorem nextAlert_none : ∀ (rest : List Char) (pos : Nat), nextAlert pos rest = none → ∀ F, removeAlertAux F rest = rest := by
  intro rest
  induction rest with
  | nil => intro _ _ F; exact removeAlertAux_nil F
  | cons c r ih =>
    intro pos h F
    cases F with
    | zero => rfl
    | succ F =>
      simp only [nextAlert] at h
      rw [removeAlertAux_succ]
      cases ha : alertAt (c :: r) with
      | some kt => rw [ha] at h; cases h
      | none =>
        rw [ha] at h
        simp only
        rw [ih (pos + 1) h F]

theorem nextAlert_spec : ∀ (rest : List Char) (pos p k : Nat) (t : List Char), nextAlert pos rest = some (p, k, t) →
    ∃ j, p = pos + j ∧ 0 < k ∧ j + k + t.length = rest.length ∧ rest.drop (j + k) = t ∧
      ∀ F, rest.length < F → ∃ F', t.length < F' ∧ removeAlertAux F rest = rest.take j ++ removeAlertAux F' t := by
  intro rest
  induction rest with
  | nil => intro pos p k t h; cases h
  | cons c r ih =>
    intro pos p k t h
    simp only [nextAlert] at h
    cases ha : alertAt (c :: r) with
    | some kt =>
      obtain ⟨k', t'⟩ := kt
      rw [ha] at h
      simp only [Option.some.injEq, Prod.mk.injEq] at h
      obtain ⟨rfl, rfl, rfl⟩ := h
      obtain ⟨h1, h2, h3⟩ := alertAt_spec _ _ _ ha
      refine ⟨0, rfl, h1, by omega, by simpa using h3, ?_⟩
      intro F hF
      obtain ⟨F0, rfl⟩ : ∃ F0, F = F0 + 1 := ⟨F - 1, by omega⟩
      refine ⟨F0, by simp only [List.length_cons] at hF h2; omega, ?_⟩
      rw [removeAlertAux_succ, ha]
      rfl
    | none =>
      rw [ha] at h
      obtain ⟨j, hp, hk, hl, hd, hF⟩ := ih (pos + 1) p k t h
      refine ⟨j + 1, by omega, hk, by simp only [List.length_cons]; omega, ?_, ?_⟩
      · rw [show j + 1 + k = (j + k) + 1 by omega, List.drop_succ_cons]; exact hd
      · intro F hlt
        obtain ⟨F0, rfl⟩ : ∃ F0, F = F0 + 1 := ⟨F - 1, by omega⟩
        obtain ⟨F', h1, h2⟩ := hF F0 (by simp only [List.length_cons] at hlt; omega)
        refine ⟨F', h1, ?_⟩
        rw [removeAlertAux_succ, ha]
        simp only [h2, List.take_succ_cons, List.cons_append]

theorem allMatches_alert (s : List Char) (fuel : Nat) : ∀ (L : Nat) (rest : List Char) (pos cnt N : Nat) (mustAdv : Bool),
    rest.length ≤ L → L < cnt → rest.length < N → s.drop pos = rest → alertRe.size + rest.length ≤ fuel →
    (∀ x ∈ rest, agreeWs x = true) →
    (allMatches true alertRe fuel cnt pos rest mustAdv).map (subBuild s [] pos) = some (removeAlertAux N rest) := by
  intro L
  induction L with
  | zero =>
    intro rest pos cnt N mustAdv hL hc hN hd hf hs
    have : rest = [] := List.length_eq_zero_iff.1 (by omega)
    subst this
    obtain ⟨n, rfl⟩ : ∃ n, cnt = n + 1 := ⟨cnt - 1, by omega⟩
    rw [allMatches, searchFrom_alert fuel [] pos mustAdv hf hs]
    simp [nextAlert, subBuild, hd, removeAlertAux_nil]
  | succ L ih =>
    intro rest pos cnt N mustAdv hL hc hN hd hf hs
    obtain ⟨n, rfl⟩ : ∃ n, cnt = n + 1 := ⟨cnt - 1, by omega⟩
    rw [allMatches, searchFrom_alert fuel rest pos mustAdv hf hs]
    cases hn : nextAlert pos rest with
    | none => simp [subBuild, hd, nextAlert_none rest pos hn N]
    | some pkt =>
      obtain ⟨p, k, t⟩ := pkt
      obtain ⟨j, hp, hk, hl, hdt, hF⟩ := nextAlert_spec rest pos p k t hn
      obtain ⟨F', hF1, hF2⟩ := hF N hN
      have hsd : s.drop (p + k) = t := by
        rw [hp, show pos + j + k = pos + (j + k) by omega, ← List.drop_drop, hd]; exact hdt
      have hrd : rest.drop (p + k - pos) = t := by
        rw [show p + k - pos = j + k by omega]; exact hdt
      have hne : (p + k == p) = false := by simp; omega
      have := ih t (p + k) n F' false (by omega) (by omega) hF1 hsd (by omega)
        (fun x hx => hs x (by rw [← hdt] at hx; exact List.mem_of_mem_drop hx))
      simp only [hrd, hne]
      cases ham : allMatches true alertRe fuel n (p + k) t false with
      | none => rw [ham] at this; cases this
      | some ms =>
        rw [ham] at this
        simp only [Option.map_some, Option.some.injEq] at this
        simp only [Option.map_some, subBuild, this, hF2, List.append_nil, Option.some.injEq]
        congr 1
        rw [Re.slice, hd, hp, Nat.add_sub_cancel_left]

theorem fuel_ok' (re : Re) (n m : Nat) (h : m ≤ n) : re.size + m ≤ fuelFor re n := by
  unfold fuelFor
  have := RegexHands.fuel_ok re.size n
  omega

/-- `re.sub(r'\s+Alert\.\s*', '', s, flags=re.IGNORECASE)` IS `removeAlert s`, on every subject of the class `agreeWs` -/
theorem sub_alert (s : List Char) (hs : ∀ x ∈ s, agreeWs x = true) :
    Re.pySub true ALERT_PATTERN [] s = some (removeAlert s) := by
  unfold Re.pySub Re.pyFinditer
  rw [parse_alert]
  simp only [List.contains_nil, Bool.false_eq_true, if_false]
  exact allMatches_alert s _ s.length s 0 (2 * s.length + 4) (s.length + 1) false (Nat.le_refl _) (by omega) (by omega) rfl
    (fuel_ok' _ _ _ (Nat.le_refl _)) hs

/-- … for every ASCII subject without U+001C..U+001F -/
theorem sub_alert_ascii (s : List Char) (hs : ∀ x ∈ s, x.toNat < 128 ∧ ¬ (0x1C ≤ x.toNat ∧ x.toNat ≤ 0x1F)) :
    Re.pySub true ALERT_PATTERN [] s = some (removeAlert s) :=
  sub_alert s fun x hx => agreeWs_ascii x (hs x hx).1 (hs x hx).2

/-- the restriction is necessary: U+001C is white space for `re` (`str.isspace`) and not for the scanner -/
example : Re.pySub true ALERT_PATTERN [] ['a', Char.ofNat 0x1C, 'A', 'l', 'e', 'r', 't', '.']
    ≠ some (removeAlert ['a', Char.ofNat 0x1C, 'A', 'l', 'e', 'r', 't', '.']) := by decide +kernel

end Bridge.RegexMsgBid
