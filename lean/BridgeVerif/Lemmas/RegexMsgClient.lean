import BridgeVerif.Lemmas.RegexMsgClientA
import BridgeVerif.Lemmas.RegexConnect
import BridgeVerif.Generated.PyCoreNet
/-!
# The three regular expressions of the bundled client ARE the scanners of `Model/Msg.lean`

The generic regular-expression engine of `Model/Regex.lean` (the one the translated
`MessageInterface.parse_match_base` calls through `re.match(pattern, content, re.IGNORECASE)`), run with `ic = true` on the
pattern texts the generated `Client.parse_leader_message`, `Client.parse_board`, `Client.parse_team_names` pass, captures
EXACTLY the texts the hand-written scanners of `parseLeader?`, `parseBoard?`, `parseTeamNames?` compute — for every subject
all of whose characters are in a stated class:

* `agreeLead` / `agreeTeams` : the pattern's literal characters compare with the character the same way in the engine
  (`Re.charEq true`, the Unicode folding tables) and in the scanner (`eqCI`: ASCII lower-casing and the four specials);
* `agreeBoard` : the same, and `\d` (Unicode decimal digit) agrees with the scanner's ASCII `isDigit` on it.

Every ASCII character is in the three classes (`*_ascii`, 128 cases each in the kernel); the classes are wider (any
character that does not fold onto a pattern letter — e.g. accented letters, CJK, digits of other scripts in a team name).
-/
namespace Bridge.RegexMsgClient
open Bridge Bridge.Re Bridge.RegexPbn Bridge.RegexHands Bridge.RegexConnect

/-! ## the pattern texts -/
def LEAD_PATTERN : List Char := "(.*) to lead".toList
def BOARD_PATTERN : List Char := "Board number (\\d+)\\. Dealer (.*)\\. (.*) vulnerable\\.".toList
def TEAMS_PATTERN : List Char := "Teams : N/S : \"(.*)\".? E/W : \"(.*)\"".toList

open Bridge.Generated.PyCore in
/-- they are literally what the generated methods assign to `pattern` before calling `parse_match_base` -/
theorem patterns_are_generated :
    m_Client_parse_leader_message.body.take 2 =
      [.assign (.var n_pattern) (.const (.str LEAD_PATTERN)),
       .assign (.var n_match) (.static n_MessageInterface n_parse_match_base [.var n_pattern, .var n_content])] ∧
    m_Client_parse_board.body.take 2 =
      [.assign (.var n_pattern) (.const (.str BOARD_PATTERN)),
       .assign (.var n_match) (.static n_MessageInterface n_parse_match_base [.var n_pattern, .var n_content])] ∧
    m_Client_parse_team_names.body.take 2 =
      [.assign (.var n_pattern) (.const (.str TEAMS_PATTERN)),
       .assign (.var n_match) (.static n_MessageInterface n_parse_match_base [.var n_pattern, .var n_content])] ∧
    m_MessageInterface_parse_match_base.body.take 1 =
      [.assign (.var n_match) (.builtin .reMatch [.var n_pattern, .var n_content, .const (.bool true),
        .const (.cls n__Match), .const (.int n_texts)])] := ⟨rfl, rfl, rfl, rfl⟩

/-! ## `(.*) to lead` -/
def litL0 : List Char := " to lea".toList
def litL : List Char := " to lead".toList
def leadRe : Re := .seq (dotG 1) (lits litL0 (.lit 'd'))

set_option maxRecDepth 100000 in
theorem parse_lead : Re.parse LEAD_PATTERN = some leadRe := by decide +kernel
theorem leadRe_ngroups : leadRe.ngroups = 1 := by decide
theorem leadRe_simple : simple leadRe = true := by decide

def leadChars : List Char := " tolead".toList
def agreeLead (x : Char) : Bool := agreeLit leadChars x

theorem agreeLead_ofNat_ascii : ∀ n : Fin 128, agreeLead (Char.ofNat n.val) = true := by decide +kernel
theorem agreeLead_ascii (x : Char) (h : x.toNat < 128) : agreeLead x = true := by
  have := agreeLead_ofNat_ascii ⟨x.toNat, h⟩
  simpa [Char.ofNat_toNat] using this

/-- the inner `g` of `parseLeader?`, copied -/
def leadGroup? (s : List Char) : Option (List Char) :=
  dotStar s fun g t => (stripPrefixCI " to lead".toList t).map fun _ => g

/-- `[player name text]` -/
def leadFields? (s : List Char) : Option (List (List Char)) := (leadGroup? s).map fun g => [g]

theorem parseLeader_eq_group (s : List Char) (dummy : Seat) :
    parseLeader? s dummy = (leadGroup? s).bind fun g =>
      if g = "Dummy".toList then some dummy else seatOfFormal? g := by
  unfold parseLeader? leadGroup?
  simp only
  split <;> rename_i h <;> rw [h] <;> rfl

def scanLead : List Char → Option (List (List Char)) :=
  fun r => dotStar r fun g t => ((stripPrefixCI (litL0 ++ ['d']) t).bind fun _ => some []).map fun gs => g :: gs

theorem leadFields_eq_scan (s : List Char) : leadFields? s = scanLead s := by
  unfold leadFields? leadGroup? scanLead
  rw [dotStar_map]
  congr 1; funext g t
  show _ = Option.map _ ((stripPrefixCI " to lead".toList t).bind _)
  cases stripPrefixCI " to lead".toList t <;> rfl

/-- `re.match("(.*) to lead", s, re.IGNORECASE)` matches iff the scanner of `parseLeader?` finds its text, and group 1 is
that text -/
theorem match_lead (s : List Char) (hs : ∀ x ∈ s, agreeLead x = true) :
    (Re.pyMatch true LEAD_PATTERN s).map (Option.map (groupTexts s)) =
      some ((leadFields? s).map (·.map some)) := by
  rw [pyMatch_abs_ic true LEAD_PATTERN s leadRe parse_lead leadRe_simple, leadRe_ngroups, leadFields_eq_scan]
  have rE := rel_end s 1
  have rL := rel_lits s leadChars hs 1 1 _ _ rE (litL0 ++ ['d']) (by decide)
  have r1 := rel_dotStar true s 1 0 (by omega) _ _ rL
  have := r1 0 s (List.replicate 1 none) rfl rfl
  simp only [List.take_zero, List.nil_append] at this
  unfold leadRe
  rw [den_seq_fun, den_lits_last]
  exact this

theorem match_lead_ascii (s : List Char) (hs : ∀ x ∈ s, x.toNat < 128) :
    (Re.pyMatch true LEAD_PATTERN s).map (Option.map (groupTexts s)) =
      some ((leadFields? s).map (·.map some)) :=
  match_lead s fun x hx => agreeLead_ascii x (hs x hx)

/-! ## `Board number (\d+)\. Dealer (.*)\. (.*) vulnerable\.` -/
def litBA : List Char := "Board number ".toList
def litBB : List Char := ". Dealer ".toList
def litBC : List Char := ". ".toList
def litBD0 : List Char := " vulnerable".toList
def boardRe : Re :=
  lits litBA (.seq (digG 1) (lits litBB (.seq (dotG 2) (lits litBC (.seq (dotG 3) (lits litBD0 (.lit '.')))))))

set_option maxRecDepth 100000 in
theorem parse_board : Re.parse BOARD_PATTERN = some boardRe := by decide +kernel
theorem boardRe_ngroups : boardRe.ngroups = 3 := by decide
theorem boardRe_simple : simple boardRe = true := by decide

def boardChars : List Char := "Board numbe.Dlv".toList
def agreeBoard (x : Char) : Bool := agreeLit boardChars x && (Re.isDigit x == Bridge.isDigit x)

theorem agreeBoard_ofNat_ascii : ∀ n : Fin 128, agreeBoard (Char.ofNat n.val) = true := by decide +kernel
theorem agreeBoard_ascii (x : Char) (h : x.toNat < 128) : agreeBoard x = true := by
  have := agreeBoard_ofNat_ascii ⟨x.toNat, h⟩
  simpa [Char.ofNat_toNat] using this

/-- the inner `g` of `parseBoard?`, copied -/
def boardTail? (r1 : List Char) : Option (List Char × List Char) :=
  dotStar r1 fun gd t1 => (stripPrefixCI ". ".toList t1).bind fun r2 =>
  dotStar r2 fun gv t2 => (stripPrefixCI " vulnerable.".toList t2).map fun _ => (gd, gv)

/-- `[digit text, dealer text, vulnerability text]` -/
def boardFields? (s : List Char) : Option (List (List Char)) :=
  (stripPrefixCI "Board number ".toList s).bind fun r0 =>
    digitsThen (fun r => (stripPrefixCI ". Dealer ".toList r).bind fun r1 =>
      (boardTail? r1).map fun y => [y.1, y.2]) r0

/-- what `parse_board` does with the three texts: `int`, `Player.convert_formal_name`, the vulnerability word -/
def decodeBoard : List (List Char) → Option (Nat × Seat × Vul)
  | [ds, gd, gv] =>
    match decimal? ds, seatOfFormal? gd, vulOfWord? gv with
    | some n, some d, some v => some (n, d, v)
    | _, _, _ => none
  | _ => none

theorem decimal_takeWhile (r : List Char) (h : r.takeWhile Bridge.isDigit ≠ []) :
    decimal? (r.takeWhile Bridge.isDigit) =
      some ((r.takeWhile Bridge.isDigit).foldl (fun n c => n * 10 + (c.toNat - '0'.toNat)) 0) := by
  unfold decimal?
  rw [if_neg]
  intro hh
  rcases hh with hh | hh
  · exact h hh
  · exact hh List.all_takeWhile

theorem parseBoard_eq_fields (s : List Char) : parseBoard? s = (boardFields? s).bind decodeBoard := by
  unfold parseBoard? boardFields?
  cases stripPrefixCI "Board number ".toList s with
  | none => rfl
  | some r0 =>
    simp only [Option.bind_some]
    unfold digitsThen
    by_cases hds : r0.takeWhile Bridge.isDigit = []
    · simp [hds, decimal?]
    · simp only [decimal_takeWhile r0 hds, hds, if_false]
      cases stripPrefixCI ". Dealer ".toList (r0.drop (r0.takeWhile Bridge.isDigit).length) with
      | none => rfl
      | some r1 =>
        simp only [Option.bind_some]
        show (match boardTail? r1 with
          | none => none
          | some (gd, gv) => (match seatOfFormal? gd, vulOfWord? gv with
            | some d, some v => some (_, d, v)
            | _, _ => none)) = _
        cases boardTail? r1 with
        | none => rfl
        | some y =>
          obtain ⟨gd, gv⟩ := y
          simp only [Option.map_some, Option.bind_some, decodeBoard, decimal_takeWhile r0 hds]
          cases seatOfFormal? gd <;> cases vulOfWord? gv <;> rfl

/-- the shape of the fields: three texts, the first a non-empty ASCII digit string -/
theorem boardFields_shape (s : List Char) (fl : List (List Char)) (h : boardFields? s = some fl) :
    ∃ ds gd gv, fl = [ds, gd, gv] ∧ ds ≠ [] ∧ ds.all Bridge.isDigit = true := by
  unfold boardFields? at h
  cases h0 : stripPrefixCI "Board number ".toList s with
  | none => rw [h0] at h; cases h
  | some r0 =>
    rw [h0] at h
    simp only [Option.bind_some, digitsThen] at h
    split at h
    · cases h
    · rename_i hds
      cases h1 : stripPrefixCI ". Dealer ".toList (r0.drop (r0.takeWhile Bridge.isDigit).length) with
      | none => rw [h1] at h; cases h
      | some r1 =>
        rw [h1] at h
        simp only [Option.bind_some] at h
        cases h2 : boardTail? r1 with
        | none => rw [h2] at h; cases h
        | some y =>
          rw [h2] at h
          simp only [Option.map_some, Option.some.injEq] at h
          exact ⟨_, _, _, h.symm, hds, List.all_takeWhile⟩

def scanBD : List Char → Option (List (List Char)) :=
  fun r => (stripPrefixCI (litBD0 ++ ['.']) r).bind fun _ => some []
def scanBC : List Char → Option (List (List Char)) :=
  fun r => (stripPrefixCI litBC r).bind fun r2 => dotStar r2 fun g t => (scanBD t).map fun gs => g :: gs
def scanBB : List Char → Option (List (List Char)) :=
  fun r => (stripPrefixCI litBB r).bind fun r1 => dotStar r1 fun g t => (scanBC t).map fun gs => g :: gs
def scanBA : List Char → Option (List (List Char)) :=
  fun r => (stripPrefixCI litBA r).bind (digitsThen scanBB)

theorem boardFields_eq_scan (s : List Char) : boardFields? s = scanBA s := by
  unfold boardFields? scanBA
  show (stripPrefixCI litBA s).bind _ = _
  congr 1; funext r0
  congr 1; funext r
  unfold scanBB
  show (stripPrefixCI litBB r).bind _ = _
  congr 1; funext r1
  unfold boardTail? scanBC
  rw [dotStar_map]
  congr 1; funext gd t1
  show Option.map _ ((stripPrefixCI litBC t1).bind _) = Option.map _ ((stripPrefixCI litBC t1).bind _)
  simp only [Option.map_bind, Function.comp_def, dotStar_map]
  congr 1; funext r2
  congr 1; funext gv t2
  unfold scanBD
  show Option.map _ (Option.map _ (stripPrefixCI " vulnerable.".toList t2))
    = Option.map _ (Option.map _ ((stripPrefixCI " vulnerable.".toList t2).bind _))
  cases stripPrefixCI " vulnerable.".toList t2 <;> rfl

theorem isDigit_dot_ascii : ∀ n : Fin 128, Bridge.isDigit (Char.ofNat n.val) = true → eqCI '.' (Char.ofNat n.val) = false := by
  decide +kernel

/-- no ASCII digit is read as the `.` that follows the board number -/
theorem isDigit_not_dot (x : Char) (h : Bridge.isDigit x = true) : eqCI '.' x = false := by
  have hx : x.toNat < 128 := by
    simp only [Bridge.isDigit, decide_eq_true_eq] at h
    have : x.toNat ≤ 57 := h.2
    omega
  have := isDigit_dot_ascii ⟨x.toNat, hx⟩
  simp only [Char.ofNat_toNat] at this
  exact this h

/-- `re.match(BOARD_PATTERN, s, re.IGNORECASE)` matches iff the scanner of `parseBoard?` finds its three texts, and groups
1, 2, 3 are those texts -/
theorem match_board (s : List Char) (hs : ∀ x ∈ s, agreeBoard x = true) :
    (Re.pyMatch true BOARD_PATTERN s).map (Option.map (groupTexts s)) =
      some ((boardFields? s).map (·.map some)) := by
  have hlit : ∀ x ∈ s, agreeLit boardChars x = true := fun x hx => by
    have := hs x hx; simp only [agreeBoard, Bool.and_eq_true] at this; exact this.1
  have hdig : ∀ x ∈ s, Re.isDigit x = Bridge.isDigit x := fun x hx => by
    have := hs x hx; simp only [agreeBoard, Bool.and_eq_true] at this; exact eq_of_beq this.2
  rw [pyMatch_abs_ic true BOARD_PATTERN s boardRe parse_board boardRe_simple, boardRe_ngroups, boardFields_eq_scan]
  have rE := rel_end s 3
  have rD := rel_lits s boardChars hlit 3 3 _ _ rE (litBD0 ++ ['.']) (by decide)
  have r3 := rel_dotStar true s 3 2 (by omega) _ _ rD
  have rC := rel_lits s boardChars hlit 3 2 _ _ r3 litBC (by decide)
  have r2 := rel_dotStar true s 3 1 (by omega) _ _ rC
  have rB := rel_lits s boardChars hlit 3 1 _ _ r2 litBB (by decide)
  have r1 := rel_digits_mid true s hdig 3 0 (by omega) _ _ rB (fun x xs hx => by
    show (stripPrefixCI ('.' :: " Dealer ".toList) (x :: xs)).bind _ = none
    simp only [stripPrefixCI, isDigit_not_dot x hx]
    rfl)
  have rA := rel_lits s boardChars hlit 3 0 _ _ r1 litBA (by decide)
  have := rA 0 s (List.replicate 3 none) rfl rfl
  simp only [List.take_zero, List.nil_append] at this
  unfold boardRe
  rw [den_lits_fun, den_seq_fun, den_lits_fun, den_seq_fun, den_lits_fun, den_seq_fun, den_lits_last]
  exact this

theorem match_board_ascii (s : List Char) (hs : ∀ x ∈ s, x.toNat < 128) :
    (Re.pyMatch true BOARD_PATTERN s).map (Option.map (groupTexts s)) =
      some ((boardFields? s).map (·.map some)) :=
  match_board s fun x hx => agreeBoard_ascii x (hs x hx)

/-! ## `Teams : N/S : "(.*)".? E/W : "(.*)"` -/
def litTA : List Char := "Teams : N/S : \"".toList
def litTC : List Char := " E/W : \"".toList
def teamsRe : Re :=
  lits litTA (.seq (dotG 1) (lits ['"'] (.seq optAnyRe (lits litTC (.seq (dotG 2) (lits [] (.lit '"')))))))

set_option maxRecDepth 100000 in
theorem parse_teams : Re.parse TEAMS_PATTERN = some teamsRe := by decide +kernel
theorem teamsRe_ngroups : teamsRe.ngroups = 2 := by decide
theorem teamsRe_simple : simple teamsRe = true := by decide

def teamsChars : List Char := "Teams :N/S\"EW".toList
def agreeTeams (x : Char) : Bool := agreeLit teamsChars x

theorem agreeTeams_ofNat_ascii : ∀ n : Fin 128, agreeTeams (Char.ofNat n.val) = true := by decide +kernel
theorem agreeTeams_ascii (x : Char) (h : x.toNat < 128) : agreeTeams x = true := by
  have := agreeTeams_ofNat_ascii ⟨x.toNat, h⟩
  simpa [Char.ofNat_toNat] using this

/-- `[N/S name, E/W name]` -/
def teamFields? (s : List Char) : Option (List (List Char)) :=
  (parseTeamNames? s).map fun x => [x.1, x.2]

/-- the local `after` of `parseTeamNames?` -/
def afterQ (g1 t : List Char) : Option (List Char × List Char) :=
  (stripPrefixCI " E/W : \"".toList t).bind fun r1 =>
    dotStar r1 fun g2 t3 => match t3 with | '"' :: _ => some (g1, g2) | _ => none

theorem parseTeamNames_unfold (s : List Char) : parseTeamNames? s =
    match stripPrefixCI "Teams : N/S : \"".toList s with
    | none => none
    | some r0 =>
      dotStar r0 fun g1 t1 =>
        match t1 with
        | '"' :: t2 =>
          (match t2 with
          | c :: t2' =>
            if c ≠ '\n' then
              match afterQ g1 t2' with
              | some r => some r
              | none => afterQ g1 t2
            else afterQ g1 t2
          | [] => afterQ g1 t2)
        | _ => none := rfl

def scanTD : List Char → Option (List (List Char)) :=
  fun r => (stripPrefixCI ([] ++ ['"']) r).bind fun _ => some []
def scanTC : List Char → Option (List (List Char)) :=
  fun r => (stripPrefixCI litTC r).bind fun r1 => dotStar r1 fun g t => (scanTD t).map fun gs => g :: gs
def scanTB : List Char → Option (List (List Char)) :=
  fun r => (stripPrefixCI ['"'] r).bind (optAny scanTC)
def scanTA : List Char → Option (List (List Char)) :=
  fun r => (stripPrefixCI litTA r).bind fun r0 => dotStar r0 fun g t => (scanTB t).map fun gs => g :: gs

/-- the tail after a double quote -/
def quoteTail (t : List Char) : Option (List Char) := match t with | '"' :: t2 => some t2 | _ => none

theorem strip_quote (t : List Char) : stripPrefixCI ['"'] t = quoteTail t := stripPrefixCI_quote t

theorem quoteTail_none (t : List Char) (h : ∀ tail, t = '"' :: tail → False) : quoteTail t = none := by
  unfold quoteTail
  split
  · exact absurd rfl (h _)
  · rfl

theorem afterQ_scan (g1 t : List Char) :
    (afterQ g1 t).map (fun x => [x.1, x.2]) = (scanTC t).map fun gs => g1 :: gs := by
  unfold afterQ scanTC
  show Option.map _ ((stripPrefixCI litTC t).bind _) = Option.map _ ((stripPrefixCI litTC t).bind _)
  simp only [Option.map_bind, Function.comp_def, dotStar_map]
  congr 1; funext r1
  congr 1; funext g2 t3
  unfold scanTD
  show _ = Option.map _ (Option.map _ ((stripPrefixCI ['"'] t3).bind _))
  rw [strip_quote]
  split
  · rfl
  · rename_i hne
    rw [quoteTail_none _ hne]; rfl

theorem teamFields_eq_scan (s : List Char) : teamFields? s = scanTA s := by
  unfold teamFields? scanTA
  rw [parseTeamNames_unfold]
  show Option.map _ (match stripPrefixCI litTA s with | none => none | some r0 => _) = _
  cases stripPrefixCI litTA s with
  | none => rfl
  | some r0 =>
    simp only [Option.bind_some]
    rw [dotStar_map]
    congr 1; funext g1 t1
    unfold scanTB
    rw [strip_quote]
    split
    · rename_i t2
      simp only [quoteTail, Option.bind_some]
      have e1 := afterQ_scan g1 t2
      cases t2 with
      | nil => exact e1
      | cons c t2' =>
        have e2 := afterQ_scan g1 t2'
        unfold optAny
        by_cases hc : c = '\n'
        · simp only [ne_eq, hc, not_true_eq_false, if_false]
          rw [hc] at e1
          exact e1
        · simp only [ne_eq, hc, not_false_eq_true, if_true]
          cases ha : afterQ g1 t2' with
          | none =>
            rw [ha] at e2
            cases hb : scanTC t2' with
            | none => simpa using e1
            | some v => rw [hb] at e2; cases e2
          | some r =>
            rw [ha] at e2
            cases hb : scanTC t2' with
            | none => rw [hb] at e2; cases e2
            | some v => rw [hb] at e2; simpa using e2
    · rename_i hne
      rw [quoteTail_none _ hne]; rfl

/-- `re.match(TEAMS_PATTERN, s, re.IGNORECASE)` matches iff the scanner `parseTeamNames?` finds the two names, and groups
1, 2 are those names -/
theorem match_teams (s : List Char) (hs : ∀ x ∈ s, agreeTeams x = true) :
    (Re.pyMatch true TEAMS_PATTERN s).map (Option.map (groupTexts s)) =
      some ((teamFields? s).map (·.map some)) := by
  rw [pyMatch_abs_ic true TEAMS_PATTERN s teamsRe parse_teams teamsRe_simple, teamsRe_ngroups, teamFields_eq_scan]
  have rE := rel_end s 2
  have rD := rel_lits s teamsChars hs 2 2 _ _ rE ([] ++ ['"']) (by decide)
  have r2 := rel_dotStar true s 2 1 (by omega) _ _ rD
  have rC := rel_lits s teamsChars hs 2 1 _ _ r2 litTC (by decide)
  have rO := rel_optAny true s 2 1 _ _ rC
  have rB := rel_lits s teamsChars hs 2 1 _ _ rO ['"'] (by decide)
  have r1 := rel_dotStar true s 2 0 (by omega) _ _ rB
  have rA := rel_lits s teamsChars hs 2 0 _ _ r1 litTA (by decide)
  have := rA 0 s (List.replicate 2 none) rfl rfl
  simp only [List.take_zero, List.nil_append] at this
  unfold teamsRe
  rw [den_lits_fun, den_seq_fun, den_lits_fun, den_seq_fun, den_lits_fun, den_seq_fun, den_lits_last]
  exact this

theorem match_teams_ascii (s : List Char) (hs : ∀ x ∈ s, x.toNat < 128) :
    (Re.pyMatch true TEAMS_PATTERN s).map (Option.map (groupTexts s)) =
      some ((teamFields? s).map (·.map some)) :=
  match_teams s fun x hx => agreeTeams_ascii x (hs x hx)

end Bridge.RegexMsgClient
