import BridgeVerif.Lemmas.Admission
import BridgeVerif.Lemmas.CheckMessage
import BridgeVerif.Lemmas.MsgHeader
/-!
# The accept loop as the code writes it (`Admission.acceptLoopR`) is the fold `serve` — used by C20
-/
namespace Bridge

theorem CaseVariant.refl (m : List Char) : CaseVariant m m := rfl

theorem checkMessage_ready_self (p : Seat) :
    checkMessage (p.formal ++ " ready for teams".toList) (p.formal ++ " ready for teams".toList) = true := by
  cases p <;> decide

/-- one connection thread, for a well-formed request followed by the expected acknowledgement -/
theorem connectR_wellFormed (t : Table) (r : Request) (hn : NameOK r.team) :
    ∃ ops b,
      Admission.connectR t (connectMsg r.team r.seat.formal r.version) (r.seat.formal ++ " ready for teams".toList) =
        some (ops, (admitReq t r).1, b) ∧
      ((admitReq t r).2 = .seated → ∃ reply, ops = [.recv, .send reply, .recv, .signal]) ∧
      ((admitReq t r).2 ≠ .seated → ∃ reply, ops = [.recv, .send reply, .close, .signal]) := by
  have hp := parseConnect_ok r.team hn r.seat r.seat.formal (CaseVariant.refl _) r.version
  have hr : (⟨r.team, r.seat, r.version⟩ : Request) = r := rfl
  have htab := (admit_table t r).1
  unfold Admission.connectR
  rw [hp]
  simp only [hr, checkMessage_ready_self, if_true]
  cases h : admitReq t r with
  | mk t' v =>
    rw [h] at htab
    cases v with
    | seated => exact ⟨_, _, rfl, fun _ => ⟨_, rfl⟩, fun hne => absurd rfl hne⟩
    | badVersion =>
      have ht : t' = t := htab (by simp)
      subst ht
      exact ⟨_, _, rfl, fun he => (by cases he), fun _ => ⟨_, rfl⟩⟩
    | seatTaken =>
      have ht : t' = t := htab (by simp)
      subst ht
      exact ⟨_, _, rfl, fun he => (by cases he), fun _ => ⟨_, rfl⟩⟩
    | teamMismatch =>
      have ht : t' = t := htab (by simp)
      subst ht
      exact ⟨_, _, rfl, fun he => (by cases he), fun _ => ⟨_, rfl⟩⟩

theorem acceptLoop_serve_gen (reqs : List Request) (hn : ∀ r ∈ reqs, NameOK r.team) : ∀ t : Table,
    ∃ opss mops,
      Admission.acceptLoopR t
          (reqs.map fun r => (connectMsg r.team r.seat.formal r.version, r.seat.formal ++ " ready for teams".toList)) =
        some (opss, mops, (serve t reqs).1) ∧
      opss.length = (serve t reqs).2.length ∧
      mops = (List.replicate (serve t reqs).2.length Admission.acceptRound).flatten ∧
      ∀ i (h₁ : i < opss.length) (h₂ : i < (serve t reqs).2.length),
        ((serve t reqs).2[i] = .seated →
            ∃ reply, opss[i] = [.recv, .send reply, .recv, .signal]) ∧
        ((serve t reqs).2[i] ≠ .seated →
            ∃ reply, opss[i] = [.recv, .send reply, .close, .signal]) := by
  induction reqs with
  | nil =>
    intro t
    refine ⟨[], [], ?_, ?_, ?_, ?_⟩
    · simp [Admission.acceptLoopR, serve]
    · simp [serve]
    · simp [serve]
    · intro i h₁; simp at h₁
  | cons r rs ih =>
    intro t
    cases hf : t.full with
    | true =>
      rw [(serve_step t r rs).2 hf]
      refine ⟨[], [], ?_, ?_, ?_, ?_⟩
      · simp [Admission.acceptLoopR, hf]
      · simp
      · simp
      · intro i h₁; simp at h₁
    | false =>
      rw [(serve_step t r rs).1 hf]
      obtain ⟨ops, b, hc, hs, hns⟩ := connectR_wellFormed t r (hn r (List.mem_cons_self ..))
      obtain ⟨opss, mops, hl, hlen, hm, hi⟩ :=
        ih (fun r' hr' => hn r' (List.mem_cons_of_mem _ hr')) (admitReq t r).1
      refine ⟨ops :: opss, Admission.acceptRound ++ mops, ?_, ?_, ?_, ?_⟩
      · simp only [List.map_cons, Admission.acceptLoopR, hf, hc, hl]
        simp
      · simp [hlen]
      · simp [hm, List.replicate_succ]
      · intro i h₁ h₂
        cases i with
        | zero => simpa using ⟨hs, hns⟩
        | succ i =>
          simp only [List.length_cons] at h₁ h₂
          simpa using hi i (by omega) (by omega)

theorem acceptLoop_serve (reqs : List Request) (hn : ∀ r ∈ reqs, NameOK r.team) :
    let conns := reqs.map fun r => (connectMsg r.team r.seat.formal r.version, r.seat.formal ++ " ready for teams".toList)
    ∃ opss mops,
      Admission.acceptLoopR Table.empty conns = some (opss, mops, (serve Table.empty reqs).1) ∧
      opss.length = (serve Table.empty reqs).2.length ∧
      mops = (List.replicate (serve Table.empty reqs).2.length Admission.acceptRound).flatten ∧
      ∀ i (h₁ : i < opss.length) (h₂ : i < (serve Table.empty reqs).2.length),
        ((serve Table.empty reqs).2[i] = .seated →
            ∃ reply, opss[i] = [.recv, .send reply, .recv, .signal]) ∧
        ((serve Table.empty reqs).2[i] ≠ .seated →
            ∃ reply, opss[i] = [.recv, .send reply, .close, .signal]) :=
  acceptLoop_serve_gen reqs hn Table.empty

end Bridge
