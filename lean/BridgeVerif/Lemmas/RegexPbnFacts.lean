import BridgeVerif.Model.Regex
import BridgeVerif.Model.Pbn
/-!
# The regular expressions of `PbnParser` and their hand scanners: the STATEMENTS  (Appendix F, R11)

`Model/Pbn.lean` replaces the three patterns of `data_handler/pbn_handler/parser.py` by hand-written scanners
(`semiEmpty`, `matchTagAt` / `searchTag` / `findTags`, `collapseWs`).  This file states — for EVERY subject string —
that the generic regular-expression engine of `Model/Regex.lean` (the one the translated parser calls, validated against
CPython on every run) computes, on these pattern texts, exactly what the scanners compute.  `Lemmas/RegexPbn.lean`
proves `pbnRegexFacts : PbnRegexFacts`; `Translated/PbnParser*.lean` uses the facts.
The pattern texts are tied to the source by `Props/Source.lean` (`Generated/SourceConsts.lean`) and are the very
constants the generated `PbnParser` class returns (`Generated/PyCorePbn.lean`).
-/
namespace Bridge.RegexPbn
open Bridge

/-- `PbnParser.REPLACE_PATTERN` -/
def REPLACE_PATTERN : Str := ['[', ' ', '\\', 't', '\\', 'r', '\\', 'n', ']', '+']
/-- `PbnParser.TAG_PATTERN` -/
def TAG_PATTERN : Str := ['\\', '[', '[', ' ', ']', '?', '(', '[', 'A', '-', 'Z', ']', '[', 'a', '-', 'z', 'A', '-', 'Z', ']', '+', ')', ' ', '"', '(', '[', '^', '"', ']', '*', ')', '"', '[', ' ', ']', '?', '\\', ']']
/-- `PbnParser._VALUE_OR_SPACE_PATTERN` -/
def VALUE_OR_SPACE_PATTERN : Str := ['"', '[', '^', '"', ']', '*', '"', '|', '[', ' ', '\\', 't', '\\', 'r', '\\', 'n', ']', '+']

/-- what `''.join(fn(m) if m is a match else m for m in pieces)` builds from the matches of `re.sub(pat, fn, s)` with
`fn = lambda m: m.group(0) if m.group(0)[0] == '"' else ' '` (`i` = end of the previous match) -/
def subJoin (s : Str) : Nat → List Re.MatchObj → Str
  | i, [] => s.drop i
  | i, m :: r =>
    (s.drop i).take (m.span.1 - i)
      ++ (let g := Re.slice s m.span.1 m.span.2; if g.head? = some '"' then g else [' '])
      ++ subJoin s m.span.2 r

structure PbnRegexFacts : Prop where
  /-- `re.fullmatch(REPLACE_PATTERN, line)` succeeds exactly on the semi-empty lines -/
  fullmatch_replace : ∀ l : Str, (Re.pyFullmatch false REPLACE_PATTERN l).map Option.isSome = some (semiEmpty l)
  /-- `re.search(TAG_PATTERN, s)` : `.start()` / `.end()` are those of `searchTag` -/
  search_tag : ∀ s : Str,
    (Re.pySearch false TAG_PATTERN s).map (Option.map (·.span)) = some (searchTag (s.length + 1) s 0)
  /-- `re.findall(TAG_PATTERN, s)` : the (name, value) rows of `findTags` -/
  findall_tag : ∀ s : Str,
    Re.pyFindall false TAG_PATTERN s = some ((findTags (s.length + 1) s).map fun nv => [nv.1, nv.2])
  /-- `re.sub(_VALUE_OR_SPACE_PATTERN, fn, s)` is `collapseWs` -/
  sub_value_or_space : ∀ s : Str,
    (Re.pyFinditer false VALUE_OR_SPACE_PATTERN s).map (subJoin s 0) = some (collapseWs (s.length + 1) s)

end Bridge.RegexPbn
