import BridgeVerif.Lemmas.RegexPbnD
/-!
# The regular expressions of `PbnParser` are their hand scanners  (Appendix F, R11)

`pbnRegexFacts : PbnRegexFacts` — for every subject string, the generic backtracking engine of `Model/Regex.lean`
computes on the three pattern texts of `PbnParser` exactly what the scanners of `Model/Pbn.lean` compute.
Parts: `RegexPbnA` (fuel-free denotation `den` of the engine on patterns whose repetitions are over one-character
items), `RegexPbnB` (the three patterns anchored), `RegexPbnC` (search / finditer, the tag pattern),
`RegexPbnD` (the value-or-space pattern and `collapseWs`).
-/
namespace Bridge.RegexPbn
open Bridge

theorem fullmatch_replace : ∀ l : Str, (Re.pyFullmatch false REPLACE_PATTERN l).map Option.isSome = some (semiEmpty l) :=
  fullmatch_replace_proof
theorem search_tag : ∀ s : Str,
    (Re.pySearch false TAG_PATTERN s).map (Option.map (·.span)) = some (searchTag (s.length + 1) s 0) :=
  search_tag_proof
theorem findall_tag : ∀ s : Str,
    Re.pyFindall false TAG_PATTERN s = some ((findTags (s.length + 1) s).map fun nv => [nv.1, nv.2]) :=
  findall_tag_proof
theorem sub_value_or_space : ∀ s : Str,
    (Re.pyFinditer false VALUE_OR_SPACE_PATTERN s).map (subJoin s 0) = some (collapseWs (s.length + 1) s) :=
  sub_value_or_space_proof

theorem pbnRegexFacts : PbnRegexFacts :=
  ⟨fullmatch_replace, search_tag, findall_tag, sub_value_or_space⟩

end Bridge.RegexPbn
