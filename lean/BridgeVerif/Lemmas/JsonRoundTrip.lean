import BridgeVerif.Lemmas.JsonRoundTripStr
import BridgeVerif.Lemmas.JsonRoundTripInt
/-!
# `json.loads (json.dumps j) = j` for the executable model in `Model/Json.lean`, and the streaming frame

* `jsonLoad_pyDumps` : the reader undoes the writer on every value without duplicate keys;
* `jsonLoad_frame`   : the text written by `open(); write …; close()` is one document `{tag: [records…]}`;
* `jsonLoad_unclosed`: without `close()` the text is not a document.

Strings are in `JsonRoundTripStr`, numbers in `JsonRoundTripInt`; here: values (mutual structural induction mirroring
`pyDumps` / `dumpElems` / `dumpMembers`, fuel bounded by the length of the text) and the frame.
-/
namespace Bridge

/-! ### white space, first characters -/
theorem skipWs_cons_of_not_ws (c : Char) (s : List Char) (h : isJsonWs c = false) : skipWs (c :: s) = c :: s := by
  simp [skipWs, List.dropWhile, h]
theorem skipWs_space (s : List Char) : skipWs (' ' :: s) = skipWs s := rfl
theorem skipWs_nl (s : List Char) : skipWs ('\n' :: s) = skipWs s := rfl
theorem skipWs_nil : skipWs [] = [] := rfl
theorem skipWs_rbrack (s : List Char) : skipWs (']' :: s) = ']' :: s := rfl
theorem skipWs_rbrace (s : List Char) : skipWs ('}' :: s) = '}' :: s := rfl
theorem skipWs_comma (s : List Char) : skipWs (',' :: s) = ',' :: s := rfl
theorem skipWs_colon (s : List Char) : skipWs (':' :: s) = ':' :: s := rfl
theorem skipWs_quote (s : List Char) : skipWs ('"' :: s) = '"' :: s := rfl
theorem skipWs_lbrack (s : List Char) : skipWs ('[' :: s) = '[' :: s := rfl
theorem skipWs_lbrace (s : List Char) : skipWs ('{' :: s) = '{' :: s := rfl
theorem numEnd_rbrack (s : List Char) : numEnd (']' :: s) = true := rfl
theorem numEnd_rbrace (s : List Char) : numEnd ('}' :: s) = true := rfl
theorem numEnd_comma (s : List Char) : numEnd (',' :: s) = true := rfl
theorem numEnd_nl (s : List Char) : numEnd ('\n' :: s) = true := rfl

/-- a character a value can start with -/
def valStart (c : Char) : Bool := !isJsonWs c && c != ']' && c != '}'

theorem isDig_valStart (c : Char) (h : isDig c = true) : valStart c = true := by
  simp only [valStart, isJsonWs, Bool.and_eq_true, Bool.not_eq_true', Bool.or_eq_false_iff, bne_iff_ne, ne_eq,
    beq_eq_false_iff_ne]
  refine ⟨⟨⟨⟨⟨?_, ?_⟩, ?_⟩, ?_⟩, ?_⟩, ?_⟩ <;> (rintro rfl; exact absurd h (by decide))

theorem pyDumps_head (j : Json) : ∃ c t, pyDumps j = c :: t ∧ valStart c = true := by
  cases j with
  | null => exact ⟨'n', _, rfl, by decide⟩
  | bool b => cases b <;> exact ⟨_, _, rfl, by decide⟩
  | int i =>
    obtain ⟨c, t, he, hc⟩ := intRepr_head i
    refine ⟨c, t, by simp [pyDumps, he], ?_⟩
    rcases hc with rfl | hc
    · decide
    · exact isDig_valStart c hc
  | str s => exact ⟨'"', _, by simp [pyDumps, dumpStr]; rfl, by decide⟩
  | arr l => exact ⟨'[', _, by rw [pyDumps]; rfl, by decide⟩
  | obj l => exact ⟨'{', _, by rw [pyDumps]; rfl, by decide⟩

theorem valStart_ws (c : Char) (h : valStart c = true) : isJsonWs c = false := by
  simp [valStart] at h; exact h.1.1
theorem valStart_ne_rbrack (c : Char) (h : valStart c = true) : c ≠ ']' := by
  simp [valStart] at h; exact h.1.2
theorem valStart_ne_rbrace (c : Char) (h : valStart c = true) : c ≠ '}' := by
  simp [valStart] at h; exact h.2

theorem skipWs_pyDumps (j : Json) (rest : List Char) : skipWs (pyDumps j ++ rest) = pyDumps j ++ rest := by
  obtain ⟨c, t, he, hc⟩ := pyDumps_head j
  rw [he]; exact skipWs_cons_of_not_ws _ _ (valStart_ws c hc)

theorem dumpElems_cons (x : Json) (l : List Json) :
    dumpElems (x :: l) = pyDumps x ++ (match l with | [] => [] | y :: r => [',', ' '] ++ dumpElems (y :: r)) := by
  cases l with
  | nil => simp [dumpElems]
  | cons y r => simp [dumpElems]

theorem dumpMembers_cons (k : List Char) (v : Json) (l : List (List Char × Json)) :
    dumpMembers ((k, v) :: l) = dumpStr k ++ [':', ' '] ++ pyDumps v ++
      (match l with | [] => [] | y :: r => [',', ' '] ++ dumpMembers (y :: r)) := by
  cases l with
  | nil => simp [dumpMembers]
  | cons y r => simp [dumpMembers]

/-! ### objects -/
theorem objInsert_new (acc : List (List Char × Json)) (k : List Char) (v : Json) (h : k ∉ keysOf acc) :
    objInsert acc k v = acc ++ [(k, v)] := by
  unfold objInsert
  rw [if_neg]
  simp only [List.any_eq_true, beq_iff_eq, not_exists, not_and]
  intro kv hkv he
  exact h (by simp only [keysOf, List.mem_map]; exact ⟨kv, hkv, he⟩)

theorem key_new (acc l : List (List Char × Json)) (k : List Char) (v : Json)
    (hk : (keysOf (acc ++ (k, v) :: l)).Nodup) : k ∉ keysOf acc := by
  simp only [keysOf, List.map_append, List.map_cons] at hk ⊢
  rw [List.nodup_append] at hk
  intro hmem
  exact hk.2.2 k hmem k (by simp) rfl

/-! ### numbers, literals, strings at the head of the input -/
theorem parseValue_int (fuel : Nat) (i : Int) (rest : List Char) (hr : numEnd rest = true) :
    parseValue (fuel + 1) (intRepr i ++ rest) = some (.int i, rest) := by
  obtain ⟨c, t, he, hc⟩ := intRepr_head i
  have hne : c ≠ '"' ∧ c ≠ '{' ∧ c ≠ '[' ∧ c ≠ 'n' ∧ c ≠ 't' ∧ c ≠ 'f' := by
    rcases hc with rfl | hc
    · decide
    · have := isDig_facts c hc
      exact ⟨this.2.1, this.2.2.1, this.2.2.2.1, this.2.2.2.2.1, this.2.2.2.2.2.1, this.2.2.2.2.2.2.1⟩
  rw [parseValue.eq_9, scanInt_intRepr i rest hr]
  · rfl
  all_goals (rw [he]; intros; simp_all)

theorem parseValue_str (fuel : Nat) (s rest : List Char) :
    parseValue (fuel + 1) (dumpStr s ++ rest) = some (.str s, rest) := by
  have : dumpStr s ++ rest = '"' :: (s.flatMap escChar ++ '"' :: rest) := by simp [dumpStr]
  rw [this, parseValue.eq_3, scanString_dumpStr]; rfl


/-! ### values -/
mutual
theorem parseValue_pyDumps : ∀ (j : Json), j.wf = true → ∀ (fuel : Nat) (rest : List Char), numEnd rest = true →
    (pyDumps j).length < fuel → parseValue fuel (pyDumps j ++ rest) = some (j, rest)
  | .null, _, fuel, rest, _, hf => by
    obtain ⟨f, rfl⟩ : ∃ f, fuel = f + 1 := ⟨fuel - 1, by omega⟩
    simp [pyDumps, parseValue, stripLit]
  | .bool true, _, fuel, rest, _, hf => by
    obtain ⟨f, rfl⟩ : ∃ f, fuel = f + 1 := ⟨fuel - 1, by omega⟩
    simp [pyDumps, parseValue, stripLit]
  | .bool false, _, fuel, rest, _, hf => by
    obtain ⟨f, rfl⟩ : ∃ f, fuel = f + 1 := ⟨fuel - 1, by omega⟩
    simp [pyDumps, parseValue, stripLit]
  | .int i, _, fuel, rest, hr, hf => by
    obtain ⟨f, rfl⟩ : ∃ f, fuel = f + 1 := ⟨fuel - 1, by omega⟩
    rw [pyDumps]; exact parseValue_int f i rest hr
  | .str s, _, fuel, rest, _, hf => by
    obtain ⟨f, rfl⟩ : ∃ f, fuel = f + 1 := ⟨fuel - 1, by omega⟩
    rw [pyDumps]; exact parseValue_str f s rest
  | .arr l, h, fuel, rest, _, hf => by
    obtain ⟨f, rfl⟩ : ∃ f, fuel = f + 1 := ⟨fuel - 1, by omega⟩
    rw [pyDumps] at hf ⊢
    rw [Json.wf] at h
    simp only [List.cons_append, List.append_assoc, List.nil_append, parseValue.eq_5]
    match l, h, hf with
    | [], _, _ => simp [dumpElems, skipWs_rbrack]
    | x :: l', h, hf =>
      have key := parseElems_dump (x :: l') (by simp) h f rest [] (by simp at hf ⊢; omega)
      obtain ⟨c, t, he, hc⟩ := pyDumps_head x
      rw [dumpElems_cons, he] at key ⊢
      simp only [List.cons_append] at key ⊢
      rw [skipWs_cons_of_not_ws _ _ (valStart_ws c hc)]
      split
      · next hx => simp at hx; exact absurd hx.1 (valStart_ne_rbrack c hc)
      · simpa using key
  | .obj l, h, fuel, rest, _, hf => by
    obtain ⟨f, rfl⟩ : ∃ f, fuel = f + 1 := ⟨fuel - 1, by omega⟩
    rw [pyDumps] at hf ⊢
    rw [Json.wf] at h
    simp only [Bool.and_eq_true, decide_eq_true_eq] at h
    simp only [List.cons_append, List.append_assoc, List.nil_append, parseValue.eq_4]
    match l, h, hf with
    | [], _, _ => simp [dumpMembers, skipWs_rbrace]
    | (k, v) :: l', h, hf =>
      have key := parseMembers_dump ((k, v) :: l') (by simp) h.1 f rest [] (by simpa using h.2) (by simp at hf ⊢; omega)
      rw [dumpMembers_cons] at key ⊢
      simp only [dumpStr, List.cons_append, List.append_assoc] at key ⊢
      rw [skipWs_quote]
      simpa using key
theorem parseElems_dump : ∀ (l : List Json), l ≠ [] → wfElems l = true → ∀ (fuel : Nat) (rest : List Char) (acc : List Json),
    (dumpElems l).length + 1 < fuel →
    parseElems fuel (dumpElems l ++ ']' :: rest) acc = some (.arr (acc.reverse ++ l), rest)
  | [], hne, _, _, _, _, _ => absurd rfl hne
  | [x], _, h, fuel, rest, acc, hf => by
    obtain ⟨f, rfl⟩ : ∃ f, fuel = f + 1 := ⟨fuel - 1, by omega⟩
    simp only [wfElems, Bool.and_true] at h
    simp only [dumpElems] at hf ⊢
    rw [parseElems, parseValue_pyDumps x h f (']' :: rest) (numEnd_rbrack _) (by omega)]
    simp [skipWs_rbrack]
  | x :: y :: r, _, h, fuel, rest, acc, hf => by
    obtain ⟨f, rfl⟩ : ∃ f, fuel = f + 1 := ⟨fuel - 1, by omega⟩
    rw [wfElems, Bool.and_eq_true] at h
    simp only [dumpElems, List.length_append, List.length_cons, List.append_assoc,
      List.cons_append, List.nil_append] at hf ⊢
    rw [parseElems, parseValue_pyDumps x h.1 f _ (numEnd_comma _) (by omega)]
    have ih := parseElems_dump (y :: r) (by simp) h.2 f rest (x :: acc) (by omega)
    obtain ⟨c, t, he, hc⟩ := pyDumps_head y
    rw [dumpElems_cons, he] at ih ⊢
    simp only [List.cons_append] at ih ⊢
    simp only [skipWs_comma, skipWs_space, skipWs_cons_of_not_ws c _ (valStart_ws c hc)]
    simpa using ih
theorem parseMembers_dump : ∀ (l : List (List Char × Json)), l ≠ [] → wfMembers l = true →
    ∀ (fuel : Nat) (rest : List Char) (acc : List (List Char × Json)), (keysOf (acc ++ l)).Nodup →
    (dumpMembers l).length + 1 < fuel →
    parseMembers fuel (dumpMembers l ++ '}' :: rest) acc = some (.obj (acc ++ l), rest)
  | [], hne, _, _, _, _, _, _ => absurd rfl hne
  | [(k, v)], _, h, fuel, rest, acc, hk, hf => by
    obtain ⟨f, rfl⟩ : ∃ f, fuel = f + 1 := ⟨fuel - 1, by omega⟩
    simp only [wfMembers, Bool.and_true] at h
    have hnew : k ∉ keysOf acc := key_new _ _ _ _ hk
    simp only [dumpMembers, dumpStr, List.length_append, List.length_cons, List.append_assoc,
      List.cons_append, List.nil_append] at hf ⊢
    rw [parseMembers, scanString_dumpStr]
    simp only [skipWs_colon, skipWs_space, skipWs_pyDumps]
    rw [parseValue_pyDumps v h f ('}' :: rest) (numEnd_rbrace _) (by omega)]
    simp [skipWs_rbrace, objInsert_new _ _ _ hnew]
  | (k, v) :: y :: r, _, h, fuel, rest, acc, hk, hf => by
    obtain ⟨f, rfl⟩ : ∃ f, fuel = f + 1 := ⟨fuel - 1, by omega⟩
    rw [wfMembers, Bool.and_eq_true] at h
    have hnew : k ∉ keysOf acc := key_new _ _ _ _ hk
    simp only [dumpMembers, dumpStr, List.length_append, List.length_cons, List.append_assoc,
      List.cons_append, List.nil_append] at hf ⊢
    rw [parseMembers, scanString_dumpStr]
    simp only [skipWs_colon, skipWs_space, skipWs_pyDumps]
    rw [parseValue_pyDumps v h.1 f _ (numEnd_comma _) (by omega)]
    have ih := parseMembers_dump (y :: r) (by simp) h.2 f rest (acc ++ [(k, v)]) (by simpa using hk) (by omega)
    obtain ⟨k', v'⟩ := y
    rw [dumpMembers_cons] at ih ⊢
    simp only [dumpStr, List.cons_append, List.append_assoc] at ih ⊢
    simp only [skipWs_comma, skipWs_space, skipWs_quote,
      objInsert_new _ _ _ hnew]
    simpa using ih
end

/-- Python's reader undoes Python's writer on every JSON value without duplicate keys -/
theorem jsonLoad_pyDumps (j : Json) (h : j.wf = true) : jsonLoad (pyDumps j) = some j := by
  have h1 := parseValue_pyDumps j h ((pyDumps j).length + 1) [] rfl (by omega)
  have h2 := skipWs_pyDumps j []
  simp only [List.append_nil] at h1 h2
  simp [jsonLoad, h1, h2, skipWs_nil]

/-! ### the streaming frame -/
theorem flatMap_escChar_id (tag : List Char) (ht : ∀ c ∈ tag, escChar c = [c]) : tag.flatMap escChar = tag := by
  induction tag with
  | nil => rfl
  | cons c t ih =>
    rw [List.flatMap_cons, ht c (by simp), ih (fun c hc => ht c (by simp [hc]))]; rfl

theorem intercalate_one (sep x : List Char) : List.intercalate sep [x] = x := by
  simp [List.intercalate]
theorem intercalate_cons₂ (sep x y : List Char) (r : List (List Char)) :
    List.intercalate sep (x :: y :: r) = x ++ sep ++ List.intercalate sep (y :: r) := by
  simp [List.intercalate]

theorem skipWs_lines (sep : List Char) (y : Json) (L : List (List Char)) (rest : List Char) :
    skipWs (List.intercalate sep (pyDumps y :: L) ++ rest) = List.intercalate sep (pyDumps y :: L) ++ rest := by
  cases L with
  | nil => rw [intercalate_one]; exact skipWs_pyDumps y rest
  | cons z L => rw [intercalate_cons₂, List.append_assoc, List.append_assoc]; exact skipWs_pyDumps y _

/-- the record lines `rec1,\nrec2,\n…` followed by the closing `\n]` -/
theorem parseElems_lines : ∀ (js : List Json), js ≠ [] → (∀ j ∈ js, j.wf = true) →
    ∀ (fuel : Nat) (rest : List Char) (acc : List Json),
    (List.intercalate ",\n".toList (js.map pyDumps)).length + 1 < fuel →
    parseElems fuel (List.intercalate ",\n".toList (js.map pyDumps) ++ '\n' :: ']' :: rest) acc =
      some (.arr (acc.reverse ++ js), rest)
  | [], hne, _, _, _, _, _ => absurd rfl hne
  | [x], _, h, fuel, rest, acc, hf => by
    obtain ⟨f, rfl⟩ : ∃ f, fuel = f + 1 := ⟨fuel - 1, by omega⟩
    simp only [List.map_cons, List.map_nil, intercalate_one] at hf ⊢
    rw [parseElems, parseValue_pyDumps x (h x (by simp)) f _ (numEnd_nl _) (by omega)]
    simp [skipWs_nl, skipWs_rbrack]
  | x :: y :: r, _, h, fuel, rest, acc, hf => by
    obtain ⟨f, rfl⟩ : ∃ f, fuel = f + 1 := ⟨fuel - 1, by omega⟩
    have ih := parseElems_lines (y :: r) (by simp) (fun j hj => h j (by simp [hj])) f rest (x :: acc)
    simp only [List.map_cons, intercalate_cons₂, List.length_append, List.append_assoc] at hf ih ⊢
    have hs : ",\n".toList = [',', '\n'] := rfl
    rw [hs] at hf ih ⊢
    simp only [List.cons_append, List.nil_append, List.length_cons, List.length_nil] at hf ih ⊢
    rw [parseElems, parseValue_pyDumps x (h x (by simp)) f _ (numEnd_comma _) (by omega)]
    simp only [skipWs_comma, skipWs_nl]
    rw [skipWs_lines, ih (by omega)]
    simp


/-- the record lines with nothing after them: the input ends inside the array -/
theorem parseElems_lines_unclosed : ∀ (js : List Json), js ≠ [] → (∀ j ∈ js, j.wf = true) →
    ∀ (fuel : Nat) (acc : List Json),
    (List.intercalate ",\n".toList (js.map pyDumps)).length + 1 < fuel →
    parseElems fuel (List.intercalate ",\n".toList (js.map pyDumps)) acc = none
  | [], hne, _, _, _, _ => absurd rfl hne
  | [x], _, h, fuel, acc, hf => by
    obtain ⟨f, rfl⟩ : ∃ f, fuel = f + 1 := ⟨fuel - 1, by omega⟩
    simp only [List.map_cons, List.map_nil, intercalate_one] at hf ⊢
    have hv := parseValue_pyDumps x (h x (by simp)) f [] rfl (by omega)
    rw [List.append_nil] at hv
    rw [parseElems, hv]
    simp [skipWs_nil]
  | x :: y :: r, _, h, fuel, acc, hf => by
    obtain ⟨f, rfl⟩ : ∃ f, fuel = f + 1 := ⟨fuel - 1, by omega⟩
    have ih := parseElems_lines_unclosed (y :: r) (by simp) (fun j hj => h j (by simp [hj])) f (x :: acc)
    simp only [List.map_cons, intercalate_cons₂, List.length_append, List.append_assoc] at hf ih ⊢
    have hs : ",\n".toList = [',', '\n'] := rfl
    rw [hs] at hf ih ⊢
    simp only [List.cons_append, List.nil_append, List.length_cons, List.length_nil] at hf ih ⊢
    rw [parseElems, parseValue_pyDumps x (h x (by simp)) f _ (numEnd_comma _) (by omega)]
    simp only [skipWs_comma, skipWs_nl]
    have := skipWs_lines [',', '\n'] y (List.map pyDumps r) []
    rw [List.append_nil] at this
    rw [this, ih (by omega)]

/-- `{"<tag>": ` : the reader enters the object, reads the key and stands before the value -/
theorem parseValue_jsonOpen (tag : List Char) (ht : ∀ c ∈ tag, escChar c = [c]) (f : Nat) (X : List Char) :
    parseValue (f + 2) (jsonOpen tag ++ X) =
      match parseValue f ('[' :: '\n' :: X) with
      | none => none
      | some (v, rest2) =>
        match skipWs rest2 with
        | ',' :: r2 => parseMembers f (skipWs r2) [(tag, v)]
        | '}' :: r2 => some (Json.obj [(tag, v)], r2)
        | _ => none := by
  have he : jsonOpen tag ++ X = '{' :: '"' :: (tag.flatMap escChar ++ '"' :: ':' :: ' ' :: '[' :: '\n' :: X) := by
    rw [flatMap_escChar_id tag ht]; simp [jsonOpen]
  rw [he, parseValue.eq_4, skipWs_quote]
  split
  · next hx => simp at hx
  rw [parseMembers, scanString_dumpStr]
  simp only [skipWs_colon, skipWs_space, skipWs_lbrack]
  simp [objInsert]
  rfl


theorem jsonOpen_length (tag : List Char) : (jsonOpen tag).length = tag.length + 7 := by
  simp [jsonOpen]

theorem skipWs_jsonOpen (tag X : List Char) : skipWs (jsonOpen tag ++ X) = jsonOpen tag ++ X := by
  simp only [jsonOpen]; rfl

theorem jsonLoad_jsonOpen_some (tag : List Char) (ht : ∀ c ∈ tag, escChar c = [c]) (X : List Char) (v : Json)
    (hv : parseValue (tag.length + X.length + 6) ('[' :: '\n' :: X) = some (v, ['}'])) :
    jsonLoad (jsonOpen tag ++ X) = some (.obj [(tag, v)]) := by
  unfold jsonLoad
  rw [skipWs_jsonOpen]
  have hl : (jsonOpen tag ++ X).length + 1 = (tag.length + X.length + 6) + 2 := by
    rw [List.length_append, jsonOpen_length]; omega
  rw [hl, parseValue_jsonOpen tag ht, hv]
  simp [skipWs_rbrace, skipWs_nil]

theorem jsonLoad_jsonOpen_none (tag : List Char) (ht : ∀ c ∈ tag, escChar c = [c]) (X : List Char)
    (hv : parseValue (tag.length + X.length + 6) ('[' :: '\n' :: X) = none) :
    jsonLoad (jsonOpen tag ++ X) = none := by
  unfold jsonLoad
  rw [skipWs_jsonOpen]
  have hl : (jsonOpen tag ++ X).length + 1 = (tag.length + X.length + 6) + 2 := by
    rw [List.length_append, jsonOpen_length]; omega
  rw [hl, parseValue_jsonOpen tag ht, hv]

theorem lines_head (sep : List Char) (y : Json) (L : List (List Char)) :
    ∃ c t, List.intercalate sep (pyDumps y :: L) = c :: t ∧ valStart c = true := by
  obtain ⟨c, t, he, hc⟩ := pyDumps_head y
  cases L with
  | nil => exact ⟨c, t, by rw [intercalate_one, he], hc⟩
  | cons z L => exact ⟨c, _, by rw [intercalate_cons₂, he]; rfl, hc⟩

/-- the streaming frame `{"<tag>": [\n` rec1 `,\n` rec2 … `\n]}` (or `]}` when there is no record) is ONE JSON
document: an object with the single key `tag` whose value is the array of the records -/
theorem jsonLoad_frame (tag : List Char) (ht : ∀ c ∈ tag, escChar c = [c]) (js : List Json)
    (h : ∀ j ∈ js, j.wf = true) :
    jsonLoad (jsonFrame tag (js.map pyDumps) true) = some (.obj [(tag, .arr js)]) := by
  cases js with
  | nil =>
    have he : jsonFrame tag (List.map pyDumps []) true = jsonOpen tag ++ [']', '}'] := by
      simp [jsonFrame, List.intercalate]
    rw [he]
    apply jsonLoad_jsonOpen_some tag ht
    simp only [List.length_cons, List.length_nil, parseValue.eq_5, skipWs_nl, skipWs_rbrack]
  | cons x l =>
    have he : jsonFrame tag (List.map pyDumps (x :: l)) true =
        jsonOpen tag ++ (List.intercalate ",\n".toList ((x :: l).map pyDumps) ++ '\n' :: ']' :: ['}']) := by
      simp [jsonFrame]
    rw [he]
    apply jsonLoad_jsonOpen_some tag ht
    have key := parseElems_lines (x :: l) (by simp) h
      (tag.length + (List.intercalate ",\n".toList ((x :: l).map pyDumps)).length + 8) ['}'] []
      (by omega)
    have hfu : tag.length + (List.intercalate ",\n".toList ((x :: l).map pyDumps) ++ '\n' :: ']' :: ['}']).length + 6
        = (tag.length + (List.intercalate ",\n".toList ((x :: l).map pyDumps)).length + 8) + 1 := by
      simp only [List.length_append, List.length_cons, List.length_nil]; omega
    rw [hfu, parseValue.eq_5, skipWs_nl]
    simp only [List.map_cons] at key ⊢
    rw [skipWs_lines]
    obtain ⟨c, t, hc, hv⟩ := lines_head ",\n".toList x (l.map pyDumps)
    rw [hc] at key ⊢
    split
    · next hx => simp at hx; exact absurd hx.1 (valStart_ne_rbrack c hv)
    · simpa using key

/-- a frame that was never closed is not a JSON document -/
theorem jsonLoad_unclosed (tag : List Char) (ht : ∀ c ∈ tag, escChar c = [c]) (js : List Json)
    (h : ∀ j ∈ js, j.wf = true) :
    jsonLoad (jsonFrame tag (js.map pyDumps) false) = none := by
  cases js with
  | nil =>
    have he : jsonFrame tag (List.map pyDumps []) false = jsonOpen tag ++ [] := by
      simp [jsonFrame, List.intercalate]
    rw [he]
    apply jsonLoad_jsonOpen_none tag ht
    simp [parseValue.eq_5, skipWs_nl, skipWs_nil, parseElems, parseValue]
  | cons x l =>
    have he : jsonFrame tag (List.map pyDumps (x :: l)) false =
        jsonOpen tag ++ List.intercalate ",\n".toList ((x :: l).map pyDumps) := by
      simp [jsonFrame]
    rw [he]
    apply jsonLoad_jsonOpen_none tag ht
    have key := parseElems_lines_unclosed (x :: l) (by simp) h
      (tag.length + (List.intercalate ",\n".toList ((x :: l).map pyDumps)).length + 5) []
      (by omega)
    have hfu : tag.length + (List.intercalate ",\n".toList ((x :: l).map pyDumps)).length + 6
        = (tag.length + (List.intercalate ",\n".toList ((x :: l).map pyDumps)).length + 5) + 1 := by
      omega
    rw [hfu, parseValue.eq_5, skipWs_nl]
    simp only [List.map_cons] at key ⊢
    have hsk := skipWs_lines ",\n".toList x (l.map pyDumps) []
    rw [List.append_nil] at hsk
    rw [hsk]
    obtain ⟨c, t, hc, hv⟩ := lines_head ",\n".toList x (l.map pyDumps)
    rw [hc] at key ⊢
    split
    · next hx => simp at hx; exact absurd hx.1 (valStart_ne_rbrack c hv)
    · exact key

end Bridge
