import BridgeVerif.Lemmas.RegexHandsA
import BridgeVerif.Model.Msg
/-!
# The regular expression of `PlayerThread.parse_connection_info` : general tools  (part A)

`Connecting "(.*)" as (.*) using protocol version (\d+)` with `re.IGNORECASE` is a right-nested sequence of literals,
two greedy `(.*)` groups and a final `(\d+)`.  This file relates, in the `Rel` framework of `Lemmas/RegexHandsA.lean`
(which does not depend on the `ic` flag),
* a run of literals compared with `Re.charEq true` to `stripPrefixCI` (`rel_lits`), on subjects whose characters
  satisfy `agreeOn` for the literals;
* a `(.*)` group to `dotStar` / `greedy` of `Model/Msg.lean` (`rel_dotStar`);
* a final `(\d+)` group to `takeWhile isDigit` (`rel_digits_last`).
-/
namespace Bridge.RegexConnect
open Bridge Bridge.Re Bridge.RegexPbn Bridge.RegexHands

/-! ### literals -/
/-- `c₁c₂…cₙR` as the parser builds it -/
def lits (p : List Char) (R : Re) : Re := p.foldr (fun c r => .seq (.lit c) r) R

/-- the continuation of a run of literals -/
def denLits (ic : Bool) : List Char → (St → Re.Res St) → St → Re.Res St
  | [], K => K
  | c :: p, K => fun st => stepChar (charEq ic c) st (denLits ic p K)

theorem den_lits (ic : Bool) (R : Re) (k : St → Re.Res St) : ∀ (p : List Char) (st : St),
    den ic (lits p R) k st = denLits ic p (den ic R k) st := by
  intro p
  induction p with
  | nil => intro st; rfl
  | cons c p ih =>
    intro st
    show den ic (.seq (.lit c) (lits p R)) k st = _
    simp only [den, denLits]
    congr 1
    funext st'
    exact ih st'

/-- the engine and the scanner agree on the pattern characters `ps` against the subject character `x` -/
def agreeLit (ps : List Char) (x : Char) : Bool := ps.all fun p => charEq true p x == eqCI p x

theorem rel_lits (s : List Char) (ps : List Char) (hs : ∀ x ∈ s, agreeLit ps x = true) (N j : Nat)
    (K : St → Re.Res St) (cont : List Char → Option (List (List Char))) (h : Rel s N j K cont) :
    ∀ p : List Char, (∀ c ∈ p, c ∈ ps) →
      Rel s N j (denLits true p K) (fun r => (stripPrefixCI p r).bind cont) := by
  intro p
  induction p with
  | nil =>
    intro _ pos rest caps hd hl
    simpa [denLits, stripPrefixCI] using h pos rest caps hd hl
  | cons c p ih =>
    intro hp pos rest caps hd hl
    cases rest with
    | nil => simp [denLits, stepChar, stripPrefixCI, absRes]
    | cons x xs =>
      have hx : x ∈ s := by
        have : x ∈ s.drop pos := by rw [hd]; simp
        exact List.mem_of_mem_drop this
      have hc : charEq true c x = eqCI c x := by
        have := hs x hx
        simp only [agreeLit, List.all_eq_true] at this
        exact eq_of_beq (this c (hp c (by simp)))
      have hdrop : s.drop (pos + 1) = xs := drop_succ_of_cons s pos x xs hd
      simp only [denLits, stepChar, stripPrefixCI, hc]
      by_cases he : eqCI c x = true
      · simp only [he, if_true]
        exact ih (fun c' hc' => hp c' (by simp [hc'])) (pos + 1) xs caps hdrop hl
      · simp only [he]
        simp [absRes]

/-! ### `(.*)` -/
def notNl (x : Char) : Bool := x != '\n'

theorem notNl_eq : (fun x : Char => decide (x ≠ '\n')) = notNl := by
  funext x; by_cases h : x = '\n' <;> simp [notNl, h]

/-- one attempt of `greedy` -/
def greedyAt {α : Type} (s : List Char) (k : List Char → List Char → Option α) (m : Nat) : Option α :=
  k (s.take m) (s.drop m)

def greedyBelow {α : Type} (s : List Char) (k : List Char → List Char → Option α) : Nat → Option α
  | 0 => none
  | m + 1 => greedy s k m

theorem greedy_eq {α : Type} (s : List Char) (k : List Char → List Char → Option α) (m : Nat) :
    greedy s k m = (greedyAt s k m).or (greedyBelow s k m) := by
  cases m with
  | zero => simp [greedy, greedyAt, greedyBelow]
  | succ m =>
    simp only [greedy, greedyAt, greedyBelow]
    cases k (s.take (m + 1)) (s.drop (m + 1)) <;> simp

theorem greedy_eq_scanUp {α : Type} (p : Char → Bool) (k : List Char → List Char → Option α) (s : List Char) :
    ∀ (rest : List Char) (m : Nat),
      greedy s k (m + (rest.takeWhile p).length) = (scanUp p (greedyAt s k) m rest).or (greedyBelow s k m) := by
  intro rest
  induction rest with
  | nil => intro m; simpa [scanUp] using greedy_eq s k m
  | cons x xs ih =>
    intro m
    by_cases hp : p x = true
    · have e : m + ((x :: xs).takeWhile p).length = (m + 1) + (xs.takeWhile p).length := by
        simp [List.takeWhile, hp]; omega
      rw [e, ih (m + 1)]
      simp only [scanUp, hp, if_true, greedyBelow, greedy_eq s k m, Option.or_assoc]
    · simp only [Bool.not_eq_true] at hp
      simp only [List.takeWhile, hp, List.length_nil, Nat.add_zero, scanUp]
      simpa using greedy_eq s k m

theorem dotStar_eq_scanUp {α : Type} (k : List Char → List Char → Option α) (s : List Char) :
    dotStar s k = scanUp notNl (greedyAt s k) 0 s := by
  unfold dotStar
  rw [notNl_eq]
  have := greedy_eq_scanUp notNl k s s 0
  simpa [greedyBelow] using this

theorem greedy_map {α β : Type} (f : α → β) (s : List Char) (k : List Char → List Char → Option α) :
    ∀ n, (greedy s k n).map f = greedy s (fun g t => (k g t).map f) n := by
  intro n
  induction n with
  | zero => rfl
  | succ n ih =>
    simp only [greedy]
    cases k (s.take (n + 1)) (s.drop (n + 1)) with
    | none => simpa using ih
    | some r => rfl

theorem dotStar_map {α β : Type} (f : α → β) (s : List Char) (k : List Char → List Char → Option α) :
    (dotStar s k).map f = dotStar s (fun g t => (k g t).map f) := greedy_map f s k _

def dotG (i : Nat) : Re := .group i (.rep 0 none .any)

/-- `(.*)` followed by `K'` is `dotStar` over the scanner of `K'` -/
theorem rel_dotStar (ic : Bool) (s : List Char) (N j : Nat) (hj : j < N) (K' : St → Re.Res St)
    (cont : List Char → Option (List (List Char))) (h : Rel s N (j + 1) K' cont) :
    Rel s N j (den ic (dotG (j + 1)) K') (fun r => dotStar r fun g t => (cont t).map fun gs => g :: gs) := by
  intro pos rest caps hd hl
  have hden : den ic (dotG (j + 1)) K' ⟨pos, rest, caps⟩ =
      repDen notNl 0 none (fun st' => K' { st' with caps := st'.caps.set j (some (pos, st'.pos)) }) caps 0 pos rest := by
    simp only [den, dotG, charPred, setCap]; rfl
  rw [hden]
  show absRes s _ = some (Option.map _ (dotStar rest _))
  rw [dotStar_eq_scanUp]
  have hk : ∀ m, absRes s ((fun st' : St => K' { st' with caps := st'.caps.set j (some (pos, st'.pos)) })
        ⟨pos + m, rest.drop m, caps⟩)
      = some ((greedyAt rest (fun g t => (cont t).map fun gs => g :: gs) m).map
          fun gs => (texts s caps).take j ++ gs.map some) := by
    intro m
    have hdrop : s.drop (pos + m) = rest.drop m := by rw [← List.drop_drop, hd]
    have := h (pos + m) (rest.drop m) (caps.set j (some (pos, pos + m))) hdrop (by simp [hl])
    simp only [greedyAt]
    rw [this, texts_set s caps j pos m (by omega), hd]
    cases cont (rest.drop m) <;> simp
  have h1 := star_scanUp s (fun gs => (texts s caps).take j ++ gs.map some) notNl
    (fun st' : St => K' { st' with caps := st'.caps.set j (some (pos, st'.pos)) }) caps pos rest
    (greedyAt rest (fun g t => (cont t).map fun gs => g :: gs)) hk rest 0 0 rfl
  simpa using h1

/-! ### the final `(\d+)` -/
theorem repDen_min (p : Char → Bool) (mn : Nat) (k : St → Re.Res St) (caps : Caps) :
    ∀ (rest : List Char) (count pos : Nat), mn ≤ count →
      repDen p mn none k caps count pos rest = repDen p 0 none k caps count pos rest := by
  intro rest
  induction rest with
  | nil => intro count pos h; simp [repDen, Nat.not_lt.mpr h]
  | cons x xs ih =>
    intro count pos h
    simp only [repDen, Nat.not_lt.mpr h, Nat.not_lt_zero, if_false, ih (count + 1) (pos + 1) (by omega)]

theorem repDen_pred (p q : Char → Bool) (mn : Nat) (mx : Option Nat) (k : St → Re.Res St) (caps : Caps) :
    ∀ (rest : List Char) (count pos : Nat), (∀ x ∈ rest, p x = q x) →
      repDen p mn mx k caps count pos rest = repDen q mn mx k caps count pos rest := by
  intro rest
  induction rest with
  | nil => intro count pos _; rfl
  | cons x xs ih =>
    intro count pos h
    simp only [repDen, h x (by simp), ih (count + 1) (pos + 1) (fun y hy => h y (by simp [hy]))]

def digG (i : Nat) : Re := .group i (.rep 1 none (.cls false [.digit false]))

theorem digit_pred (ic : Bool) : (fun x => classTest ic x [.digit false] != false) = Re.isDigit := by
  funext x
  simp only [classTest, ClassItem.test, Bool.or_false]
  cases Re.isDigit x <;> rfl

/-- the scanner of the last group: the longest run of ASCII digits, non-empty -/
def digitsLast (r : List Char) : Option (List (List Char)) :=
  if r.takeWhile Bridge.isDigit = [] then none else some [r.takeWhile Bridge.isDigit]

theorem rel_digits_last (ic : Bool) (s : List Char) (hs : ∀ x ∈ s, Re.isDigit x = Bridge.isDigit x) (j : Nat) :
    Rel s (j + 1) j (den ic (digG (j + 1)) (kfin 0 false false)) digitsLast := by
  intro pos rest caps hd hl
  have hsub : ∀ x ∈ rest, x ∈ s := by
    intro x hx
    rw [← hd] at hx
    exact List.mem_of_mem_drop hx
  have hden : den ic (digG (j + 1)) (kfin 0 false false) ⟨pos, rest, caps⟩ =
      repDen Bridge.isDigit 1 none
        (fun st' => kfin 0 false false { st' with caps := st'.caps.set j (some (pos, st'.pos)) }) caps 0 pos rest := by
    simp only [den, digG, charPred, setCap, digit_pred]
    exact repDen_pred _ _ _ _ _ _ rest 0 pos (fun x hx => hs x (hsub x hx))
  rw [hden]
  have hk : ∀ (r0 : List Char) (pos0 m : Nat), s.drop pos0 = r0 → pos ≤ pos0 →
      absRes s ((fun st' : St => kfin 0 false false
        { st' with caps := st'.caps.set j (some (pos, st'.pos)) }) ⟨pos0 + m, r0.drop m, caps⟩)
      = some ((some [(s.drop pos).take (pos0 + m - pos)]).map fun gs => (texts s caps).take j ++ gs.map some) := by
    intro r0 pos0 m _ hle
    have e : (texts s (caps.set j (some (pos, pos0 + m))))
        = (texts s (caps.set j (some (pos, pos0 + m)))).take (j + 1) := by
      rw [List.take_of_length_le]
      simp [texts]; omega
    have e2 : pos0 + m = pos + (pos0 + m - pos) := by omega
    simp only [kfin, Bool.false_and, Bool.or_false, Bool.false_eq_true, if_false, absRes]
    rw [e, e2, texts_set s caps j pos (pos0 + m - pos) (by omega)]
    simp
  unfold digitsLast
  cases rest with
  | nil => simp [repDen, absRes]
  | cons x xs =>
    by_cases hx : Bridge.isDigit x = true
    · have hdrop : s.drop (pos + 1) = xs := drop_succ_of_cons s pos x xs hd
      simp only [repDen, Nat.lt_add_one, if_true, hx, Nat.zero_add]
      rw [repDen_min _ 1 _ _ xs 1 (pos + 1) (Nat.le_refl _)]
      have h1 := star_scanUp s (fun gs => (texts s caps).take j ++ gs.map some) Bridge.isDigit
        (fun st' : St => kfin 0 false false { st' with caps := st'.caps.set j (some (pos, st'.pos)) }) caps (pos + 1) xs
        (fun m => some [(s.drop pos).take (pos + 1 + m - pos)]) (fun m => hk xs (pos + 1) m hdrop (by omega)) xs 0 1 rfl
      rw [scanUp_some Bridge.isDigit (fun m => [(s.drop pos).take (pos + 1 + m - pos)]) xs 0] at h1
      simp only [Nat.add_zero, Nat.zero_add] at h1
      rw [h1, hd]
      have e3 : pos + 1 + (xs.takeWhile Bridge.isDigit).length - pos = (xs.takeWhile Bridge.isDigit).length + 1 := by omega
      have e4 : ((x :: xs).takeWhile Bridge.isDigit) = x :: xs.takeWhile Bridge.isDigit := by simp [List.takeWhile, hx]
      rw [e3, e4, List.take_succ_cons, take_length_takeWhile]
      simp
    · simp only [Bool.not_eq_true] at hx
      simp [repDen, hx, List.takeWhile, absRes]

end Bridge.RegexConnect
