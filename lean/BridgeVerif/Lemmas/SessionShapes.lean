import BridgeVerif.Model.Session
import BridgeVerif.Lemmas.Confluence
/-! The *shape* of a phase (constructor and control parameters, payloads forgotten), the canonical
lowest-enabled-first scheduler on payload-erased nets, and the finite check that it runs every phase shape
from the initial net to a state with all programs and channels empty and the barrier counts level. -/
namespace Bridge

/-- a phase without its payloads -/
inductive Shape
  | seating | deal | call (a : Seat) | auctionEnd | playStart
  | card (a d : Seat) (lead opening : Bool)
  | nextBoard | lastBoard
  deriving DecidableEq, Repr

def Shape.toPhase : Shape → Phase Unit Unit
  | .seating => .seating () (fun _ => ()) () ()
  | .deal => .deal () (fun _ => ()) (fun _ => ()) (fun _ => ())
  | .call a => .call a () () () (fun _ => ())
  | .auctionEnd => .auctionEnd () ()
  | .playStart => .playStart ()
  | .card a d lead opening => .card a d lead opening () () () (fun _ => ()) (fun _ => ()) ()
  | .nextBoard => .nextBoard () () ()
  | .lastBoard => .lastBoard () () ()

def Phase.shape {Msg Out : Type} : Phase Msg Out → Shape
  | .seating .. => .seating
  | .deal .. => .deal
  | .call a .. => .call a
  | .auctionEnd .. => .auctionEnd
  | .playStart .. => .playStart
  | .card a d lead opening .. => .card a d lead opening
  | .nextBoard .. => .nextBoard
  | .lastBoard .. => .lastBoard

def Shape.cards : List Shape :=
  Seat.all.flatMap fun a => Seat.all.flatMap fun d =>
    [.card a d false false, .card a d false true, .card a d true false, .card a d true true]

def Shape.others : List Shape :=
  [.seating, .deal, .call .N, .call .E, .call .S, .call .W, .auctionEnd, .playStart, .nextBoard, .lastBoard]

theorem Shape.mem_all (s : Shape) : s ∈ Shape.others ∨ s ∈ Shape.cards := by
  cases s with
  | call a => cases a <;> decide
  | card a d l o => cases a <;> cases d <;> cases l <;> cases o <;> decide
  | _ => decide

abbrev ENet := Net Tid Chan Unit Unit

/-- the first enabled thread of the list, with the state after its step -/
def pickStep (n : ENet) : List Tid → Option (Tid × ENet)
  | [] => none
  | t :: ts =>
    match step parties n t with
    | some n' => some (t, n')
    | none => pickStep n ts

/-- canonical scheduler: repeatedly the first enabled thread of `Tid.all` -/
def runLow : Nat → ENet → List Tid × ENet
  | 0, n => ([], n)
  | fuel + 1, n =>
    match pickStep n Tid.all with
    | none => ([], n)
    | some (t, n') => (t :: (runLow fuel n').1, (runLow fuel n').2)

theorem pickStep_step {n : ENet} {l : List Tid} {t : Tid} {n' : ENet}
    (h : pickStep n l = some (t, n')) : step parties n t = some n' := by
  induction l with
  | nil => simp [pickStep] at h
  | cons u us ih =>
    unfold pickStep at h
    split at h
    · next n1 h1 =>
      simp only [Option.some.injEq, Prod.mk.injEq] at h
      obtain ⟨rfl, rfl⟩ := h
      exact h1
    · exact ih h

theorem runLow_run (fuel : Nat) (n : ENet) : Run parties n (runLow fuel n).1 (runLow fuel n).2 := by
  induction fuel generalizing n with
  | zero => exact Run.nil n
  | succ k ih =>
    unfold runLow
    split
    · exact Run.nil n
    · next t n' h => exact Run.cons (pickStep_step h) (ih n')

/-- all programs finished, all channels empty, nobody has departed more often than main has arrived, and
every party has arrived at least as often as main -/
def good (e : ENet) : Bool :=
  Tid.all.all (fun t => (e.prog t).isEmpty) && Chan.all.all (fun c => (e.chan c).isEmpty) &&
  Tid.all.all (fun t => decide (e.departed t ≤ e.arrived .main)) &&
  parties.all (fun q => decide (e.arrived .main ≤ e.arrived q))

def checkShape (s : Shape) : Bool := good (runLow 100 (Net.init (phaseProg s.toPhase))).2

theorem check_others : Shape.others.all checkShape = true := by decide +kernel

theorem check_cards : Shape.cards.all checkShape = true := by decide +kernel

theorem checkShape_true (s : Shape) : checkShape s = true := by
  rcases s.mem_all with h | h
  · exact List.all_eq_true.mp check_others s h
  · exact List.all_eq_true.mp check_cards s h

/-! ### single writer / single reader, checked shape by shape -/
def okActB {Msg Out : Type} (t : Tid) : Act Chan Msg Out → Bool
  | .send c _ => decide (t = c.wr)
  | .recv c => decide (t = c.rd)
  | _ => true

def discShape (s : Shape) : Bool := Tid.all.all fun t => (phaseProg s.toPhase t).all (okActB t)

theorem disc_others : Shape.others.all discShape = true := by decide +kernel
theorem disc_cards : Shape.cards.all discShape = true := by decide +kernel

theorem discShape_true (s : Shape) : discShape s = true := by
  rcases s.mem_all with h | h
  · exact List.all_eq_true.mp disc_others s h
  · exact List.all_eq_true.mp disc_cards s h

theorem Tid.mem_all (t : Tid) : t ∈ Tid.all := by
  cases t with
  | main => decide
  | seat p => cases p <;> decide
  | client p => cases p <;> decide

theorem Tid.nodup_all : Tid.all.Nodup := by decide

theorem Chan.mem_all (c : Chan) : c ∈ Chan.all := by
  cases c with
  | m2t p => cases p <;> decide
  | t2m p => cases p <;> decide
  | c2s p => cases p <;> decide
  | s2c p => cases p <;> decide

end Bridge
