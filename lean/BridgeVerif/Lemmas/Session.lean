import BridgeVerif.Model.Session
import BridgeVerif.Lemmas.Confluence
import BridgeVerif.Lemmas.SessionShapes
/-! Helper lemmas for the session theorems (C08–C10): discipline of the session programs, the canonical run
phase by phase, frame/shift/erasure glue. -/
namespace Bridge
set_option linter.unusedSectionVars false

/-! ## generic lemmas about nets -/
section generic
variable {Tid Chan Msg Out : Type} [DecidableEq Tid] [DecidableEq Chan] {parties : List Tid}

theorem Run.append {n n' n'' : Net Tid Chan Msg Out} {ts us : List Tid}
    (h1 : Run parties n ts n') (h2 : Run parties n' us n'') : Run parties n (ts ++ us) n'' := by
  induction h1 with
  | nil n => exact h2
  | cons hs _ ih => exact Run.cons hs (ih h2)

/-- a step removes the head action of the stepping thread and leaves the other programs alone -/
theorem step_prog {n n' : Net Tid Chan Msg Out} {t : Tid} (h : step parties n t = some n') :
    ∃ a rest, n.prog t = a :: rest ∧ n'.prog = upd n.prog t rest := by
  unfold step at h
  split at h
  · cases h
  · next c m rest hp => cases h; exact ⟨_, _, hp, rfl⟩
  · next c rest hp =>
    split at h
    · cases h
    · cases h; exact ⟨_, _, hp, rfl⟩
  · next rest hp => cases h; exact ⟨_, _, hp, rfl⟩
  · next rest hp =>
    split at h
    · cases h; exact ⟨_, _, hp, rfl⟩
    · cases h
  · next o rest hp => cases h; exact ⟨_, _, hp, rfl⟩

theorem sum_map_upd (f : Tid → List (Act Chan Msg Out)) (t : Tid) (a : Act Chan Msg Out)
    (rest : List (Act Chan Msg Out)) (hf : f t = a :: rest) (all : List Tid) (hnd : all.Nodup) :
    (all.map fun x => (f x).length).sum =
      (all.map fun x => (upd f t rest x).length).sum + (if t ∈ all then 1 else 0) := by
  induction all with
  | nil => simp
  | cons u us ih =>
    have hnd' := List.nodup_cons.mp hnd
    have ih := ih hnd'.2
    simp only [List.map_cons, List.sum_cons, List.mem_cons]
    by_cases hu : u = t
    · subst hu
      have : u ∉ us := hnd'.1
      simp only [this, if_false, Nat.add_zero] at ih
      simp [upd, hf, ih]
      omega
    · have h1 : upd f t rest u = f u := by simp [upd, hu]
      have h2 : ¬ t = u := fun h => hu h.symm
      rw [h1, ih]
      simp only [h2, false_or]
      omega

/-- every step shortens exactly one program by one action -/
theorem step_remaining {n n' : Net Tid Chan Msg Out} {t : Tid} {all : List Tid}
    (hnd : all.Nodup) (hall : ∀ t, t ∈ all) (h : step parties n t = some n') :
    n.remaining all = n'.remaining all + 1 := by
  obtain ⟨a, rest, hp, hp'⟩ := step_prog h
  unfold Net.remaining
  rw [hp', sum_map_upd n.prog t a rest hp all hnd]
  simp [hall t]

theorem run_remaining {n n' : Net Tid Chan Msg Out} {ts : List Tid} {all : List Tid}
    (hnd : all.Nodup) (hall : ∀ t, t ∈ all) (h : Run parties n ts n') :
    n.remaining all = n'.remaining all + ts.length := by
  induction h with
  | nil n => simp
  | cons hs _ ih => rw [step_remaining hnd hall hs, ih, List.length_cons]; omega

theorem allDone_remaining {n : Net Tid Chan Msg Out} (h : AllDone n) (all : List Tid) :
    n.remaining all = 0 := by
  unfold Net.remaining
  induction all with
  | nil => rfl
  | cons u us ih => simp [h u, ih]

/-- One-directional simulation: `m` runs the programs of `n` followed by `rest`, has the same channel
contents, and its barrier counts are those of `n` offset by (at least) `k` in the enabling direction.
The histories and outputs are unrelated. -/
structure Sim (parties : List Tid) (k : Nat) (rest : Tid → List (Act Chan Msg Out))
    (n m : Net Tid Chan Msg Out) : Prop where
  prog : ∀ t, m.prog t = n.prog t ++ rest t
  chan : ∀ c, m.chan c = n.chan c
  dep : ∀ t, m.departed t ≤ n.departed t + k
  arr : ∀ q ∈ parties, n.arrived q + k ≤ m.arrived q

theorem upd_append (f g : Tid → List (Act Chan Msg Out)) (rest : Tid → List (Act Chan Msg Out))
    (t : Tid) (r : List (Act Chan Msg Out)) (h : ∀ x, g x = f x ++ rest x) (x : Tid) :
    upd g t (r ++ rest t) x = upd f t r x ++ rest x := by
  unfold upd
  split
  · next hx => rw [hx]
  · exact h x

theorem step_sim {k : Nat} {rest : Tid → List (Act Chan Msg Out)} {n m n' : Net Tid Chan Msg Out} {t : Tid}
    (h : Sim parties k rest n m) (hs : step parties n t = some n') :
    ∃ m', step parties m t = some m' ∧ Sim parties k rest n' m' := by
  unfold step at hs
  unfold step
  rw [h.prog t]
  split at hs
  · cases hs
  · next c x r hp =>
    cases hs
    rw [hp]
    refine ⟨_, rfl, ⟨upd_append _ _ _ _ _ h.prog, ?_, h.dep, h.arr⟩⟩
    intro c'
    simp only [upd, h.chan]
  · next c r hp =>
    rw [hp]
    simp only [List.cons_append, h.chan c]
    split at hs
    · cases hs
    · next x ms hc =>
      cases hs
      refine ⟨_, rfl, ⟨upd_append _ _ _ _ _ h.prog, ?_, h.dep, h.arr⟩⟩
      intro c'
      simp only [upd]
      split <;> simp [h.chan]
  · next r hp =>
    cases hs
    rw [hp]
    refine ⟨_, rfl, ⟨upd_append _ _ _ _ _ h.prog, h.chan, h.dep, ?_⟩⟩
    intro q hq
    have := h.arr q hq
    simp only [upd]
    split
    · next hx => subst hx; omega
    · exact this
  · next r hp =>
    rw [hp]
    simp only [List.cons_append]
    split at hs
    · next hcd =>
      cases hs
      have hcd' : canDepart parties m t = true := by
        unfold canDepart at hcd ⊢
        rw [List.all_eq_true] at hcd ⊢
        intro q hq
        have h1 := hcd q hq
        have h2 := h.arr q hq
        have h3 := h.dep t
        simp only [decide_eq_true_eq] at h1 ⊢
        omega
      rw [if_pos hcd']
      refine ⟨_, rfl, ⟨upd_append _ _ _ _ _ h.prog, h.chan, ?_, h.arr⟩⟩
      intro u
      have := h.dep u
      simp only [upd]
      split
      · next hx => subst hx; omega
      · exact this
    · cases hs
  · next o r hp =>
    cases hs
    rw [hp]
    exact ⟨_, rfl, ⟨upd_append _ _ _ _ _ h.prog, h.chan, h.dep, h.arr⟩⟩

theorem run_sim {k : Nat} {rest : Tid → List (Act Chan Msg Out)} {n m n' : Net Tid Chan Msg Out}
    {ts : List Tid} (h : Sim parties k rest n m) (hr : Run parties n ts n') :
    ∃ m', Run parties m ts m' ∧ Sim parties k rest n' m' := by
  induction hr generalizing m with
  | nil n => exact ⟨m, Run.nil m, h⟩
  | cons hs _ ih =>
    obtain ⟨m1, hm1, hsim1⟩ := step_sim h hs
    obtain ⟨m2, hm2, hsim2⟩ := ih hsim1
    exact ⟨m2, Run.cons hm1 hm2, hsim2⟩

/-! `sendsOn` / `emitsOf` distribute over concatenation -/
theorem sendsOn_append (c : Chan) (l1 l2 : List (Act Chan Msg Out)) :
    sendsOn c (l1 ++ l2) = sendsOn c l1 ++ sendsOn c l2 := by
  induction l1 with
  | nil => rfl
  | cons a r ih =>
    cases a <;> simp only [List.cons_append, sendsOn, ih]
    split <;> simp

theorem emitsOf_append (l1 l2 : List (Act Chan Msg Out)) :
    emitsOf (l1 ++ l2) = emitsOf l1 ++ emitsOf l2 := by
  induction l1 with
  | nil => rfl
  | cons a r ih => cases a <;> simp [emitsOf, ih]

theorem sendsOn_flatMap {α : Type} (c : Chan) (l : List α) (f : α → List (Act Chan Msg Out)) :
    sendsOn c (l.flatMap f) = l.flatMap fun x => sendsOn c (f x) := by
  induction l with
  | nil => rfl
  | cons a r ih => simp [List.flatMap_cons, sendsOn_append, ih]

theorem emitsOf_flatMap {α : Type} (l : List α) (f : α → List (Act Chan Msg Out)) :
    emitsOf (l.flatMap f) = l.flatMap fun x => emitsOf (f x) := by
  induction l with
  | nil => rfl
  | cons a r ih => simp [List.flatMap_cons, emitsOf_append, ih]

end generic

/-! ## the session: discipline, erasure to shapes, canonical run phase by phase -/
section session
variable {Msg Out : Type}
theorem phaseProg_erase (ph : Phase Msg Out) (t : Tid) :
    (phaseProg ph t).map Act.erase = phaseProg ph.shape.toPhase t := by
  cases ph <;> cases t <;>
    simp [phaseProg, Phase.shape, Shape.toPhase, forSeats, sync, Seat.all, Act.erase, apply_ite (List.map Act.erase)]

theorem okActB_erase (t : Tid) (a : SAct Msg Out) : okActB t a.erase = okActB t a := by
  cases a <;> rfl

theorem phaseProg_ok (ph : Phase Msg Out) (t : Tid) (a : SAct Msg Out) (ha : a ∈ phaseProg ph t) :
    okActB t a = true := by
  have h := List.all_eq_true.mp (discShape_true ph.shape) t t.mem_all
  rw [← phaseProg_erase, List.all_map] at h
  have := List.all_eq_true.mp h a ha
  simpa [okActB_erase] using this

theorem phaseProg_disciplined (ph : Phase Msg Out) : Disciplined Chan.wr Chan.rd (phaseProg ph) := by
  intro t a ha
  have h := phaseProg_ok ph t a ha
  constructor
  · rintro c m rfl; simpa [okActB] using h
  · rintro c rfl; simpa [okActB] using h

theorem progOfPhases_disciplined (phs : List (Phase Msg Out)) :
    Disciplined Chan.wr Chan.rd (progOfPhases phs) := by
  intro t a ha
  unfold progOfPhases at ha
  obtain ⟨ph, _, hph⟩ := List.mem_flatMap.mp ha
  exact phaseProg_disciplined ph t a hph



theorem good_spec {e : ENet} (h : good e = true) :
    (∀ t, e.prog t = []) ∧ (∀ c, e.chan c = []) ∧ (∀ t, e.departed t ≤ e.arrived .main) ∧
    (∀ q ∈ parties, e.arrived .main ≤ e.arrived q) := by
  simp only [good, Bool.and_eq_true, List.all_eq_true, decide_eq_true_eq, List.isEmpty_iff] at h
  obtain ⟨⟨⟨h1, h2⟩, h3⟩, h4⟩ := h
  exact ⟨fun t => h1 t t.mem_all, fun c => h2 c c.mem_all, fun t => h3 t t.mem_all, h4⟩

/-- every phase, on its own, runs from the initial net to a state with all programs and channels empty and
the barrier level -/
theorem phase_run (ph : Phase Msg Out) :
    ∃ ts n', Run parties (Net.init (phaseProg ph)) ts n' ∧ AllDone n' ∧ (∀ c, n'.chan c = []) ∧
      ∃ j, (∀ t, n'.departed t ≤ j) ∧ (∀ q ∈ parties, j ≤ n'.arrived q) := by
  have hrun := runLow_run 100 (Net.init (phaseProg ph.shape.toPhase))
  have hgood : good _ = true := checkShape_true ph.shape
  have he : (Net.init (phaseProg ph)).erase = Net.init (phaseProg ph.shape.toPhase) := by
    show Net.init (fun t => (phaseProg ph t).map Act.erase) = _
    congr 1; funext t; exact phaseProg_erase ph t
  rw [← he] at hrun hgood
  obtain ⟨n', hr, hn'⟩ := run_of_erased hrun
  rw [← hn'] at hgood
  obtain ⟨h1, h2, h3, h4⟩ := good_spec hgood
  refine ⟨_, n', hr, ?_, ?_, n'.arrived .main, h3, h4⟩
  · intro t; exact List.map_eq_nil_iff.mp (h1 t)
  · intro c; exact List.map_eq_nil_iff.mp (h2 c)

/-- boundary between phases: all channels empty, barrier level at `k` -/
structure Boundary (k : Nat) (m : Net Tid Chan Msg Out) : Prop where
  chan : ∀ c, m.chan c = []
  dep : ∀ t, m.departed t ≤ k
  arr : ∀ q ∈ parties, k ≤ m.arrived q

theorem phases_run (phs : List (Phase Msg Out)) : ∀ (k : Nat) (m : Net Tid Chan Msg Out),
    (∀ t, m.prog t = progOfPhases phs t) → Boundary k m →
    ∃ ts m', Run parties m ts m' ∧ AllDone m' ∧ (∀ c, m'.chan c = []) := by
  induction phs with
  | nil => intro k m hp hb; exact ⟨[], m, Run.nil m, hp, hb.chan⟩
  | cons ph phs ih =>
    intro k m hp hb
    obtain ⟨ts, n', hr, hdone, hchan, j, hdep, harr⟩ := phase_run ph
    have hsim : Sim parties k (progOfPhases phs) (Net.init (phaseProg ph)) m :=
      ⟨fun t => by rw [hp t]; simp [progOfPhases, Net.init], fun c => by simp [hb.chan c, Net.init],
       fun t => by simpa [Net.init] using hb.dep t, fun q hq => by simpa [Net.init] using hb.arr q hq⟩
    obtain ⟨m1, hr1, hsim1⟩ := run_sim hsim hr
    have hb1 : Boundary (j + k) m1 :=
      ⟨fun c => by rw [hsim1.chan c, hchan c],
       fun t => by have := hsim1.dep t; have := hdep t; omega,
       fun q hq => by have := hsim1.arr q hq; have := harr q hq; omega⟩
    obtain ⟨us, m2, hr2, hd2, hc2⟩ := ih (j + k) m1 (fun t => by rw [hsim1.prog t, hdone t]; rfl) hb1
    exact ⟨ts ++ us, m2, hr1.append hr2, hd2, hc2⟩

theorem progOfPhases_run (phs : List (Phase Msg Out)) :
    ∃ ts nf, Run parties (Net.init (progOfPhases phs)) ts nf ∧ AllDone nf ∧ (∀ c, nf.chan c = []) :=
  phases_run phs 0 _ (fun _ => rfl) ⟨fun _ => rfl, fun _ => Nat.le_refl _, fun _ _ => Nat.le_refl _⟩

end session

/-! ## what the session sends to the clients last, and what it writes to the log -/
section
variable {Msg Out : Type}

theorem sendsOn_progOfPhases (c : Chan) (phs : List (Phase Msg Out)) (t : Tid) :
    sendsOn c (progOfPhases phs t) = phs.flatMap fun ph => sendsOn c (phaseProg ph t) :=
  sendsOn_flatMap c phs _

theorem emitsOf_progOfPhases (phs : List (Phase Msg Out)) (t : Tid) :
    emitsOf (progOfPhases phs t) = phs.flatMap fun ph => emitsOf (phaseProg ph t) :=
  emitsOf_flatMap phs _

/-- what main writes to the log during a phase -/
def Phase.emits : Phase Msg Out → List Out
  | .seating _ _ _ o => [o]
  | .nextBoard r _ _ => [r]
  | .lastBoard r c _ => [r, c]
  | .deal .. => []
  | .call .. => []
  | .auctionEnd .. => []
  | .playStart .. => []
  | .card .. => []

theorem emitsOf_phaseProg_main (ph : Phase Msg Out) : emitsOf (phaseProg ph .main) = ph.emits := by
  cases ph <;>
    simp [phaseProg, forSeats, sync, Seat.all, emitsOf_append, emitsOf, Phase.emits, apply_ite emitsOf]

theorem emitsOf_progOfPhases_main (phs : List (Phase Msg Out)) :
    emitsOf (progOfPhases phs .main) = phs.flatMap Phase.emits := by
  rw [emitsOf_progOfPhases]; congr 1; funext ph; exact emitsOf_phaseProg_main ph
end

theorem callPhases_emits (dealer : Seat) (l : List (Call × Text)) : ∀ j,
    (callPhases dealer j l).flatMap Phase.emits = [] := by
  induction l with
  | nil => intro j; rfl
  | cons x r ih => intro j; obtain ⟨c, text⟩ := x; simp [callPhases, Phase.emits, ih]

theorem cardPhases_emits (d : Seat) (deal : Hands) (l : List (Card × Text)) : ∀ s j,
    (cardPhases d deal s j l).flatMap Phase.emits = [] := by
  induction l with
  | nil => intro s j; rfl
  | cons x r ih =>
    intro s j; obtain ⟨c, text⟩ := x
    simp only [cardPhases, List.flatMap_cons, Phase.emits, ih, List.nil_append]

theorem boardPhases_emits (sc : Scenario) (k : Nat) (last : Bool) (b : BoardSetting) (d : Decisions) :
    (boardPhases sc k last b d).flatMap Phase.emits =
      LogOp.write (recordOf sc b d) :: (if last then [LogOp.close] else []) := by
  unfold boardPhases
  simp only [List.flatMap_append, callPhases_emits]
  split <;> split <;> cases last <;>
    simp only [List.flatMap_cons, List.flatMap_nil, Phase.emits, cardPhases_emits, List.nil_append,
      List.append_nil, if_true, if_false, Bool.false_eq_true]

theorem boardsPhases_emits (sc : Scenario) (boards : List (BoardSetting × Decisions)) (h : boards ≠ []) :
    ∀ k, (boardsPhases sc k boards).flatMap Phase.emits =
      (boards.map fun bd => LogOp.write (recordOf sc bd.1 bd.2)) ++ [LogOp.close] := by
  induction boards with
  | nil => exact absurd rfl h
  | cons x r ih =>
    intro k
    obtain ⟨b, d⟩ := x
    cases r with
    | nil => simp [boardsPhases, boardPhases_emits]
    | cons y r' =>
      have := ih (by simp) (k + 1)
      rw [boardsPhases, List.flatMap_append, this, boardPhases_emits]
      · simp
      · simp

theorem boardsPhases_last (sc : Scenario) (boards : List (BoardSetting × Decisions)) (h : boards ≠ []) :
    ∀ k, ∃ pre r, boardsPhases sc k boards = pre ++ [Phase.lastBoard r LogOp.close MSG_END] := by
  induction boards with
  | nil => exact absurd rfl h
  | cons x r ih =>
    intro k
    obtain ⟨b, d⟩ := x
    cases r with
    | nil =>
      refine ⟨?_, LogOp.write (recordOf sc b d), ?_⟩
      rotate_left
      · simp only [boardsPhases, boardPhases, if_true]
        exact rfl
    | cons y r' =>
      obtain ⟨pre, r, hpre⟩ := ih (by simp) (k + 1)
      refine ⟨boardPhases sc k false b d ++ pre, r, ?_⟩
      rw [boardsPhases, hpre, List.append_assoc]
      simp

theorem session_last_s2c (sc : Scenario) (h : sc.boards ≠ []) (p : Seat) :
    (sendsOn (Chan.s2c p) (sessionProg sc (.seat p))).getLast? = some MSG_END := by
  obtain ⟨pre, r, hpre⟩ := boardsPhases_last sc sc.boards h 1
  unfold sessionProg sessionPhases
  rw [hpre, sendsOn_progOfPhases, ← List.cons_append, List.flatMap_append]
  simp [phaseProg, sendsOn]

theorem session_log (sc : Scenario) (h : sc.boards ≠ []) :
    emitsOf (sessionProg sc .main) =
      LogOp.open :: (sc.boards.map fun bd => LogOp.write (recordOf sc bd.1 bd.2)) ++ [LogOp.close] := by
  unfold sessionProg sessionPhases
  rw [emitsOf_progOfPhases_main, List.flatMap_cons, boardsPhases_emits sc sc.boards h 1]
  rfl

end Bridge
