import BridgeVerif.Model.Session
import BridgeVerif.Lemmas.Confluence
/-! Helper lemmas for the session theorems (C08–C10): discipline of the session programs, the canonical run
phase by phase, frame/shift/erasure glue. -/
namespace Bridge

end Bridge
