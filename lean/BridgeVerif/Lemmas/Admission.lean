import BridgeVerif.Model.Admission
/-!
# Lemmas about admission (`admitReq`, `serve`) — used by C20
-/
namespace Bridge

/-! ## seats -/

theorem Seat.partner_partner (p : Seat) : p.partner.partner = p := by cases p <;> rfl

theorem Seat.partner_ne (p : Seat) : p.partner ≠ p := by cases p <;> decide

theorem Seat.partner_eq_iff (p q : Seat) : p.partner = q ↔ p = q.partner := by
  cases p <;> cases q <;> decide

theorem Table.full_iff (t : Table) : t.full = true ↔ ∀ p, (t p).isSome = true := by
  constructor
  · intro h p
    simp [Table.full, Seat.all] at h
    cases p <;> simp [h]
  · intro h
    simp [Table.full, Seat.all, h]

theorem Table.set_self (t : Table) (p : Seat) (n : List Char) : t.set p n p = some n := by
  simp [Table.set]

theorem Table.set_ne (t : Table) (p q : Seat) (n : List Char) (h : q ≠ p) : t.set p n q = t q := by
  simp [Table.set, h]

/-! ## `admitReq` -/

theorem admit_seated_iff (t : Table) (r : Request) :
    (admitReq t r).2 = .seated ↔
      r.version = PROTOCOL_VERSION ∧ t r.seat = none ∧ (t r.seat.partner = none ∨ t r.seat.partner = some r.team) := by
  by_cases hv : r.version = PROTOCOL_VERSION
  · cases hs : t r.seat with
    | some x => simp [admitReq, hv, hs]
    | none =>
      cases hp : t r.seat.partner with
      | none => simp [admitReq, hv, hs, hp]
      | some pt =>
        by_cases hpt : pt = r.team
        · simp [admitReq, hv, hs, hp, hpt]
        · simp [admitReq, hv, hs, hp, hpt]
  · simp [admitReq, hv]

theorem admit_errors (t : Table) (r : Request) :
    ((admitReq t r).2 = .badVersion ↔ r.version ≠ PROTOCOL_VERSION) ∧
    ((admitReq t r).2 = .seatTaken ↔ r.version = PROTOCOL_VERSION ∧ (t r.seat).isSome = true) ∧
    ((admitReq t r).2 = .teamMismatch ↔ r.version = PROTOCOL_VERSION ∧ t r.seat = none ∧
        ∃ pt, t r.seat.partner = some pt ∧ pt ≠ r.team) := by
  by_cases hv : r.version = PROTOCOL_VERSION
  · cases hs : t r.seat with
    | some x => simp [admitReq, hv, hs]
    | none =>
      cases hp : t r.seat.partner with
      | none => simp [admitReq, hv, hs, hp]
      | some pt =>
        by_cases hpt : pt = r.team
        · simp [admitReq, hv, hs, hp, hpt]
        · simp [admitReq, hv, hs, hp, hpt]
  · simp [admitReq, hv]

theorem admit_table (t : Table) (r : Request) :
    ((admitReq t r).2 ≠ .seated → (admitReq t r).1 = t) ∧
    ((admitReq t r).2 = .seated → (admitReq t r).1 = t.set r.seat r.team ∧ ∀ q, q ≠ r.seat → (admitReq t r).1 q = t q) := by
  by_cases hv : r.version = PROTOCOL_VERSION
  · cases hs : t r.seat with
    | some x => simp [admitReq, hv, hs]
    | none =>
      cases hp : t r.seat.partner with
      | none =>
        simp [admitReq, hv, hs, hp]
        intro q hq; exact Table.set_ne t _ q _ hq
      | some pt =>
        by_cases hpt : pt = r.team
        · simp [admitReq, hv, hs, hp, hpt]
          intro q hq; exact Table.set_ne t _ q _ hq
        · simp [admitReq, hv, hs, hp, hpt]
  · simp [admitReq, hv]

/-! ## `serve` -/

theorem serve_nil (t : Table) : serve t [] = (t, []) := by simp [serve]

theorem serve_step (t : Table) (r : Request) (rs : List Request) :
    (t.full = false → serve t (r :: rs) = ((serve (admitReq t r).1 rs).1, (admitReq t r).2 :: (serve (admitReq t r).1 rs).2)) ∧
    (t.full = true → serve t (r :: rs) = (t, [])) := by
  constructor
  · intro h; simp [serve, h]
  · intro h; simp [serve, h]

/-- the invariant of the accept loop: partners share the team name; the occupied seats are exactly the seats of
the requests seated so far (each under its request's team name), and those seats are pairwise different -/
structure TableInv (t : Table) (acc : List Request) : Prop where
  partners : ∀ p a b, t p = some a → t p.partner = some b → a = b
  nodup : (acc.map (·.seat)).Nodup
  holds : ∀ r ∈ acc, t r.seat = some r.team
  occ : ∀ p, (t p).isSome = true → ∃ r ∈ acc, r.seat = p

theorem TableInv.empty : TableInv Table.empty [] := by
  constructor <;> simp [Table.empty]

theorem TableInv.admit_seated {t : Table} {acc : List Request} (r : Request) (hi : TableInv t acc)
    (hs : (admitReq t r).2 = .seated) : TableInv (t.set r.seat r.team) (acc ++ [r]) := by
  obtain ⟨_, hfree, hpart⟩ := (admit_seated_iff t r).1 hs
  have hfresh : ∀ r' ∈ acc, r'.seat ≠ r.seat := by
    intro r' hr' he
    have := hi.holds r' hr'
    rw [he, hfree] at this
    cases this
  constructor
  · intro p a b ha hb
    by_cases hp : p = r.seat
    · subst hp
      rw [Table.set_self] at ha
      rw [Table.set_ne _ _ _ _ (Seat.partner_ne _)] at hb
      cases hpart with
      | inl h => rw [h] at hb; cases hb
      | inr h => rw [h] at hb; cases ha; cases hb; rfl
    · rw [Table.set_ne _ _ _ _ hp] at ha
      by_cases hq : p.partner = r.seat
      · rw [hq, Table.set_self] at hb
        have hp' : p = r.seat.partner := (Seat.partner_eq_iff _ _).1 hq
        rw [hp'] at ha
        cases hpart with
        | inl h => rw [h] at ha; cases ha
        | inr h => rw [h] at ha; cases ha; cases hb; rfl
      · rw [Table.set_ne _ _ _ _ hq] at hb
        exact hi.partners p a b ha hb
  · rw [List.map_append, List.nodup_append]
    refine ⟨hi.nodup, by simp, ?_⟩
    intro a ha b hb
    simp at hb
    subst hb
    obtain ⟨r', hr', rfl⟩ := List.mem_map.1 ha
    exact hfresh r' hr'
  · intro r' hr'
    rcases List.mem_append.1 hr' with h | h
    · rw [Table.set_ne _ _ _ _ (hfresh r' h)]
      exact hi.holds r' h
    · simp at h
      subst h
      exact Table.set_self _ _ _
  · intro p hp
    by_cases hps : p = r.seat
    · exact ⟨r, by simp, hps.symm⟩
    · rw [Table.set_ne _ _ _ _ hps] at hp
      obtain ⟨r', hr', he⟩ := hi.occ p hp
      exact ⟨r', by simp [hr'], he⟩

theorem serve_inv (rs : List Request) : ∀ (t : Table) (acc : List Request), TableInv t acc →
    TableInv (serve t rs).1 (acc ++ seatedRequests rs (serve t rs).2) := by
  induction rs with
  | nil => intro t acc hi; simpa [serve, seatedRequests] using hi
  | cons r rs ih =>
    intro t acc hi
    cases hf : t.full with
    | true =>
      rw [(serve_step t r rs).2 hf]
      simpa [seatedRequests] using hi
    | false =>
      rw [(serve_step t r rs).1 hf]
      by_cases hs : (admitReq t r).2 = .seated
      · have h1 := (admit_table t r).2 hs
        have hi' := hi.admit_seated r hs
        rw [← h1.1] at hi'
        have := ih _ _ hi'
        simpa [seatedRequests, hs] using this
      · have h1 := (admit_table t r).1 hs
        have := ih t acc hi
        simpa [seatedRequests, hs, h1] using this

theorem serve_inv_empty (rs : List Request) :
    TableInv (serve Table.empty rs).1 (seatedRequests rs (serve Table.empty rs).2) := by
  simpa using serve_inv rs Table.empty [] TableInv.empty

theorem serve_one_per_seat (rs : List Request) :
    let res := serve Table.empty rs
    ((seatedRequests rs res.2).map (·.seat)).Nodup ∧
    ∀ p, (res.1 p).isSome = true ↔ ∃ r ∈ seatedRequests rs res.2, r.seat = p ∧ res.1 p = some r.team := by
  intro res
  have hi := serve_inv_empty rs
  refine ⟨hi.nodup, ?_⟩
  intro p
  constructor
  · intro hp
    obtain ⟨r, hr, he⟩ := hi.occ p hp
    refine ⟨r, hr, he, ?_⟩
    have := hi.holds r hr
    rw [he] at this
    exact this
  · rintro ⟨r, _, _, h⟩
    show ((serve Table.empty rs).1 p).isSome = true
    rw [h]; rfl

theorem serve_partners (rs : List Request) (p : Seat) (a b : List Char)
    (ha : (serve Table.empty rs).1 p = some a) (hb : (serve Table.empty rs).1 p.partner = some b) : a = b :=
  (serve_inv_empty rs).partners p a b ha hb

theorem serve_teams (rs : List Request) (h : (serve Table.empty rs).1.full = true) :
    ∃ ns ew, (∀ p, p.side = .NS → (serve Table.empty rs).1 p = some ns) ∧
             (∀ p, p.side = .EW → (serve Table.empty rs).1 p = some ew) ∧
             teamsOfTable (serve Table.empty rs).1 = teamsMsg ns ew := by
  have hall := (Table.full_iff _).1 h
  obtain ⟨ns, hN⟩ := Option.isSome_iff_exists.1 (hall .N)
  obtain ⟨ew, hE⟩ := Option.isSome_iff_exists.1 (hall .E)
  obtain ⟨s, hS⟩ := Option.isSome_iff_exists.1 (hall .S)
  obtain ⟨w, hW⟩ := Option.isSome_iff_exists.1 (hall .W)
  have e1 : ns = s := serve_partners rs .N ns s hN hS
  have e2 : ew = w := serve_partners rs .E ew w hE hW
  subst e1; subst e2
  refine ⟨ns, ew, ?_, ?_, ?_⟩
  · intro p hp
    cases p <;> simp_all [Seat.side]
  · intro p hp
    cases p <;> simp_all [Seat.side]
  · simp [teamsOfTable, hN, hE]

theorem serve_lengths_gen (rs : List Request) : ∀ t : Table,
    (serve t rs).2.length ≤ rs.length ∧ ((serve t rs).1.full = false → (serve t rs).2.length = rs.length) := by
  induction rs with
  | nil => intro t; simp [serve]
  | cons r rs ih =>
    intro t
    cases hf : t.full with
    | true =>
      rw [(serve_step t r rs).2 hf]
      simp [hf]
    | false =>
      rw [(serve_step t r rs).1 hf]
      have := ih (admitReq t r).1
      simp only [List.length_cons]
      exact ⟨by omega, fun h => by have := this.2 h; omega⟩

theorem serve_lengths (rs : List Request) :
    (serve Table.empty rs).2.length ≤ rs.length ∧
    ((serve Table.empty rs).1.full = false → (serve Table.empty rs).2.length = rs.length) :=
  serve_lengths_gen rs Table.empty

end Bridge
