import BridgeVerif.Lemmas.Deal
/-!
# C14 — Every deal survives every encoding round trip
`PartialDeal h` : valid cards, pairwise disjoint hands, each hand empty or of 13 cards (what `to_pbn` accepts).
Hands are compared as sets (`SameHands` = permutation per seat).
-/
namespace Bridge.C14

/-- the PBN deal string written from any first seat decodes back to the same four hands -/
theorem pbn_round_trip (h : Hands) (hd : PartialDeal h) (first : Seat) :
    ∃ s, toPbn? h first = some s ∧ ∃ h', convertPbn? s = some h' ∧ SameHands h' h := by
  refine ⟨_, toPbn_eq h hd.size first, ?_⟩
  have hp : ∀ p, ∃ l, handParser? (handField (h p)) = some l ∧ l.Perm (h p) := fun p =>
    handParser_field (h p) (hd.ok p) (hd.nodup_hand p) (hd.size p)
  have hf : ∀ p, IsField (handField (h p)) := fun p => handField_isField (h p) (hd.ok p) (hd.size p)
  obtain ⟨c0, p0, q0⟩ := hp first
  obtain ⟨c1, p1, q1⟩ := hp first.left
  obtain ⟨c2, p2, q2⟩ := hp first.left.left
  obtain ⟨c3, p3, q3⟩ := hp first.left.left.left
  refine ⟨_, convertPbn_fields first _ _ _ _ c0 c1 c2 c3 (hf _) (hf _) (hf _) (hf _) p0 p1 p2 p3, ?_⟩
  intro p
  cases first <;> cases p <;> assumption

/-- the PBN text is canonical: `<first>:` then the four hands in rotation separated by one space; an unknown
hand is `-`; otherwise 16 characters: the spade, heart, diamond and club holdings separated by dots, each
listing exactly the ranks held in that suit from high to low (a void is an empty field) -/
theorem pbn_canonical (h : Hands) (hd : PartialDeal h) (first : Seat) :
    ∃ f0 f1 f2 f3,
      toPbn? h first = some (first.name ++ [':'] ++ f0 ++ [' '] ++ f1 ++ [' '] ++ f2 ++ [' '] ++ f3) ∧
      handToPbn? (h first) = some f0 ∧ handToPbn? (h first.left) = some f1 ∧
      handToPbn? (h first.left.left) = some f2 ∧ handToPbn? (h first.left.left.left) = some f3 ∧
      ∀ p f, handToPbn? (h p) = some f →
        (h p = [] → f = ['-']) ∧
        (h p ≠ [] → f.length = 16 ∧
          f = (suitRanksDesc (h p) .S).map (fun r => (rankChar? r).getD '?') ++ ['.'] ++
              (suitRanksDesc (h p) .H).map (fun r => (rankChar? r).getD '?') ++ ['.'] ++
              (suitRanksDesc (h p) .D).map (fun r => (rankChar? r).getD '?') ++ ['.'] ++
              (suitRanksDesc (h p) .C).map (fun r => (rankChar? r).getD '?') ∧
          ∀ su, StrictDesc (suitRanksDesc (h p) su) ∧
            ∀ r, r ∈ suitRanksDesc (h p) su ↔ (⟨r, su⟩ : Card) ∈ h p) := by
  refine ⟨_, _, _, _, toPbn_eq h hd.size first, handToPbn_field _ (hd.size _), handToPbn_field _ (hd.size _),
    handToPbn_field _ (hd.size _), handToPbn_field _ (hd.size _), ?_⟩
  intro p f hf
  rw [handToPbn_field _ (hd.size p)] at hf
  cases hf
  refine ⟨?_, ?_⟩
  · intro he
    simp [handField, he]
  · intro hne
    have h13 : (h p).length = 13 := by
      rcases hd.size p with h0 | h13
      · exact absurd (List.length_eq_zero_iff.1 h0) hne
      · exact h13
    refine ⟨handField_length _ (hd.ok p) h13, ?_, fun su =>
      ⟨suitRanksDesc_strict _ (hd.ok p) (hd.nodup_hand p) su, mem_suitRanksDesc _ su⟩⟩
    rw [handField, if_neg (by omega)]
    simp only [suitRanksDesc_map, List.append_assoc, List.cons_append, List.nil_append]

/-- the 52-slot vectors (tuple form) decode back to the same hands -/
theorem binary_round_trip (h : Hands) (hd : PartialDeal h) :
    SameHands (convertBinary (toBinary h)) h ∧
    ∀ p, (toBinary h p).length = 52 ∧ ∀ x ∈ toBinary h p, x = 0 ∨ x = 1 := by
  refine ⟨fun p => ?_, fun p => ⟨toBinary_length h p, toBinary_bits h p⟩⟩
  exact (List.perm_ext_iff_of_nodup (convertBinary_nodup _ p) (hd.nodup_hand p)).2
    (mem_convertBinary h hd p)

/-- the numpy form decodes back to the same hands -/
theorem np_binary_round_trip (h : Hands) (hd : PartialDeal h) :
    SameHands (convertNpBinary (toBinary h)) h := by
  intro p
  exact (List.perm_ext_iff_of_nodup (convertNpBinary_nodup _ p) (hd.nodup_hand p)).2
    (mem_convertNpBinary h hd.ok p)

/-- the JSON card lists decode back to the same hands -/
theorem json_round_trip (h : Hands) (hd : PartialDeal h) (p : Seat) :
    ∃ l, handOfJson? (dealToJson h p) = some l ∧ l.Perm (h p) := by
  have hp := sortAsc_perm (h p)
  refine ⟨sortAsc (h p), ?_, hp⟩
  rw [handOfJson?, dealToJson, mapM_strToCard _ fun c hc => hd.ok p c (hp.mem_iff.1 hc)]
  simp only [Option.map_some]
  rw [dedup_of_nodup _ (hp.nodup_iff.2 (hd.nodup_hand p))]

/-- JSON cards are listed in ascending card order -/
theorem json_cards_ascending (h : Hands) (hd : PartialDeal h) (p : Seat) :
    ∃ l : List Card, dealToJson h p = l.map cardStr ∧ l.Perm (h p) ∧ l.Pairwise fun a b => a.idx < b.idx := by
  exact ⟨sortAsc (h p), rfl, sortAsc_perm (h p), sortAsc_strict (h p) (hd.ok p) (hd.nodup_hand p)⟩

/-- the random dealer returns four disjoint 13-card hands covering the pack, whatever permutation
`random.shuffle` produces -/
theorem random_deal_is_partition (l : List Card) (hp : l.Perm freshPack) :
    PartialDeal (dealOfList l) ∧ (∀ p, (dealOfList l p).length = 13) ∧
    (handsAll (dealOfList l)).Perm Card.deck := by
  exact dealOfList_partial l hp

theorem fresh_pack_is_the_deck : freshPack.Perm Card.deck ∧ freshPack.length = 52 := by
  exact ⟨freshPack_perm_deck, by decide⟩

/-! ### non-vacuity: a complete deal with a void and a 13-card suit, and a partial deal -/
def exDeal : Hands := fun p => match p with
  | .N => (List.range 13).map fun r => ⟨r + 2, .S⟩
  | .E => (List.range 13).map fun r => ⟨r + 2, .H⟩
  | .S => (List.range 13).map fun r => ⟨r + 2, .D⟩
  | .W => (List.range 13).map fun r => ⟨r + 2, .C⟩
example : toPbn? exDeal .E = some "E:.AKQJT98765432.. ..AKQJT98765432. ...AKQJT98765432 AKQJT98765432...".toList := by
  decide +kernel
example : (convertPbn? "E:.AKQJT98765432.. - - AKQJT98765432...".toList).map (fun h => (h .N).length) = some 13 := by
  decide +kernel

end Bridge.C14
