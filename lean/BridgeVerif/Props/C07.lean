import BridgeVerif.Model.Score
import BridgeVerif.Spec.Scoring
/-!
# C07 — Every contract and result scores what the duplicate scoring table says
The domain is finite; each statement is proved by kernel evaluation (`decide +kernel`)
over the complete table and then lifted to the typed ∀.
-/
namespace Bridge.C07

/-- doubling status from the two stored flags (as `Contract.__str__` reads them) -/
def status (x xx : Bool) : Dbl := if xx then .xx else if x then .x else .none

theorem table_fin : ∀ b : Fin 35, ∀ x xx vul : Bool, ∀ t : Fin 14,
    calcBidScore b x xx vul t.val = dupScore (bidLevel b) (bidDenom b) (status x xx) vul t.val := by
  decide +kernel

/-- `calc_bid_score` is the law on its whole domain (35 bids × flags × vul × 0..13 tricks) -/
theorem calc_bid_score_is_law (b : Fin 35) (x xx vul : Bool) (t : Nat) (ht : t ≤ 13) :
    calcBidScore b x xx vul t = dupScore (bidLevel b) (bidDenom b) (status x xx) vul t :=
  table_fin b x xx vul ⟨t, by omega⟩

/-- `Contract.is_vul` is the vulnerability of declarer's side only -/
theorem is_vul_is_declarer_side (b : Option (Fin 35)) (x xx : Bool) (v : Vul) (d : Seat) :
    (Contract.mk b x xx v (some d)).isVul = some (sideVulnerable v d) := by
  cases v <;> cases d <;> rfl

/-- `calc_score` of a contract with a declarer is the duplicate score from declarer's side -/
theorem calc_score_is_law (b : Fin 35) (x xx : Bool) (v : Vul) (d : Seat) (t : Nat) (ht : t ≤ 13) :
    calcScore ⟨some b, x, xx, v, some d⟩ t =
      some (dupScore (bidLevel b) (bidDenom b) (status x xx) (sideVulnerable v d) t) := by
  simp only [calcScore, is_vul_is_declarer_side, calc_bid_score_is_law b x xx _ t ht]

/-- only declarer's side's vulnerability matters -/
theorem declarer_side_vulnerability_only (b : Fin 35) (x xx : Bool) (v v' : Vul) (d : Seat) (t : Nat)
    (h : sideVulnerable v d = sideVulnerable v' d) :
    calcScore ⟨some b, x, xx, v, some d⟩ t = calcScore ⟨some b, x, xx, v', some d⟩ t := by
  simp only [calcScore, is_vul_is_declarer_side, h]

/-- a passed-out board scores zero whatever else the contract carries -/
theorem passed_out_scores_zero (x xx : Bool) (v : Vul) (d : Option Seat) (t : Nat) :
    calcScore ⟨none, x, xx, v, d⟩ t = some 0 := rfl

/-! sanity: 4♠ doubled vulnerable making 11 = 990; 3NT −2 non-vul = −100; 7NT XX vul made = 2980 -/
example : calcScore ⟨some ⟨18, by omega⟩, true, false, .ns, some .S⟩ 11 = some 990 := by decide
example : calcScore ⟨some ⟨14, by omega⟩, false, false, .ns, some .E⟩ 7 = some (-100) := by decide
example : calcScore ⟨some ⟨34, by omega⟩, true, true, .both, some .W⟩ 13 = some 2980 := by decide

end Bridge.C07
