import BridgeVerif.Lemmas.Play
/-!
# C06 — The playable-card set is exactly the follow-suit rule
-/
namespace Bridge.C06

/-- `available_cards` is the follow-suit rule: the whole hand when leading or void in the suit led,
otherwise exactly the hand's cards of the suit led -/
theorem available_spec (hand : List Card) (first : Option Card) :
    availableCards hand first = followSuit hand first := by
  sorry

theorem available_subset (hand : List Card) (first : Option Card) :
    ∀ c ∈ availableCards hand first, c ∈ hand := by
  sorry

theorem available_nonempty (hand : List Card) (first : Option Card) (h : hand ≠ []) :
    availableCards hand first ≠ [] := by
  sorry

/-- when following, every offered card is of the suit led if the hand has any -/
theorem available_follows (hand : List Card) (f : Card) (h : ∃ c ∈ hand, c.suit = f.suit) :
    ∀ c, c ∈ availableCards hand (some f) ↔ (c ∈ hand ∧ c.suit = f.suit) := by
  sorry

/-- the state-dependent variant uses the first card of the trick in progress; there is none exactly when
the seat on turn is leading -/
theorem current_available_uses_first_card (c : Contract) (s0 : PState) (h0 : PState.init c = some s0)
    (plays : List Card) (hand : List Card) :
    let s := runPlay s0 plays
    s.currentAvailable hand = followSuit hand s.trick.head? ∧
    (s.trick.head? = none ↔ s.active = s.leader ∧ plays.length % 4 = 0) := by
  sorry

/-- the bundled example player chooses `random.choice(list(available))`: for every choice function that
returns an element of its non-empty argument, the card played is playable and in the hand -/
theorem random_play_in_available (choice : List Card → Card)
    (hc : ∀ l, l ≠ [] → choice l ∈ l) (s : PState) (hand : List Card) (hne : hand ≠ []) :
    choice (s.currentAvailable hand) ∈ s.currentAvailable hand ∧
    choice (s.currentAvailable hand) ∈ hand := by
  sorry

example : availableCards [⟨3, .C⟩, ⟨2, .D⟩, ⟨9, .D⟩] (some ⟨14, .D⟩) = [⟨2, .D⟩, ⟨9, .D⟩] := by decide
example : availableCards [⟨3, .C⟩, ⟨2, .D⟩] (some ⟨14, .S⟩) = [⟨3, .C⟩, ⟨2, .D⟩] := by decide

end Bridge.C06
