import BridgeVerif.Lemmas.Play
/-!
# C06 — The playable-card set is exactly the follow-suit rule
-/
namespace Bridge.C06

/-- `available_cards` is the follow-suit rule: the whole hand when leading or void in the suit led,
otherwise exactly the hand's cards of the suit led -/
theorem available_spec (hand : List Card) (first : Option Card) :
    availableCards hand first = followSuit hand first := by
  exact availableCards_eq_followSuit hand first

theorem available_subset (hand : List Card) (first : Option Card) :
    ∀ c ∈ availableCards hand first, c ∈ hand := by
  exact availableCards_subset hand first

theorem available_nonempty (hand : List Card) (first : Option Card) (h : hand ≠ []) :
    availableCards hand first ≠ [] := by
  exact availableCards_ne_nil hand first h

/-- when following, every offered card is of the suit led if the hand has any -/
theorem available_follows (hand : List Card) (f : Card) (h : ∃ c ∈ hand, c.suit = f.suit) :
    ∀ c, c ∈ availableCards hand (some f) ↔ (c ∈ hand ∧ c.suit = f.suit) := by
  intro c
  obtain ⟨d, hd, hds⟩ := h
  have hne : (hand.filter fun c => decide (c.suit = f.suit)) ≠ [] := by
    intro e
    have := List.filter_eq_nil_iff.1 e d hd
    simp [hds] at this
  have hl : (hand.filter fun c => decide (c.suit = f.suit)).length ≠ 0 := by
    intro e; exact hne (List.eq_nil_of_length_eq_zero e)
  simp only [availableCards, hl, if_false, List.mem_filter, decide_eq_true_eq]

/-- the state-dependent variant uses the first card of the trick in progress; there is none exactly when
the seat on turn is leading -/
theorem current_available_uses_first_card (c : Contract) (s0 : PState) (h0 : PState.init c = some s0)
    (plays : List Card) (hand : List Card) :
    let s := runPlay s0 plays
    s.currentAvailable hand = followSuit hand s.trick.head? ∧
    (s.trick.head? = none ↔ s.active = s.leader ∧ plays.length % 4 = 0) := by
  intro s
  have hp := pinv_of_init h0 plays
  have ha : s.active = s.leader.rot s.trick.length := hp.act
  have hl : s.trick.length = plays.length % 4 := hp.len
  refine ⟨availableCards_eq_followSuit hand _, ?_⟩
  rw [List.head?_eq_none_iff]
  constructor
  · intro e
    rw [e] at ha hl
    exact ⟨ha, by simpa using hl.symm⟩
  · rintro ⟨_, e⟩
    apply List.eq_nil_of_length_eq_zero; omega

/-- the bundled example player chooses `random.choice(list(available))`: for every choice function that
returns an element of its non-empty argument, the card played is playable and in the hand -/
theorem random_play_in_available (choice : List Card → Card)
    (hc : ∀ l, l ≠ [] → choice l ∈ l) (s : PState) (hand : List Card) (hne : hand ≠ []) :
    choice (s.currentAvailable hand) ∈ s.currentAvailable hand ∧
    choice (s.currentAvailable hand) ∈ hand := by
  have hne' : s.currentAvailable hand ≠ [] := availableCards_ne_nil hand _ hne
  have hm := hc _ hne'
  exact ⟨hm, availableCards_subset hand _ _ hm⟩

example : availableCards [⟨3, .C⟩, ⟨2, .D⟩, ⟨9, .D⟩] (some ⟨14, .D⟩) = [⟨2, .D⟩, ⟨9, .D⟩] := by decide
example : availableCards [⟨3, .C⟩, ⟨2, .D⟩] (some ⟨14, .S⟩) = [⟨3, .C⟩, ⟨2, .D⟩] := by decide

end Bridge.C06
