import BridgeVerif.Props.C15
import BridgeVerif.Translated.Notation
import BridgeVerif.Translated.Contract
/-!
# C15 — the same statements for the code AS TRANSLATED from the source on this run
(kept apart from Props/C15.lean so that the lemma files which reuse the property theorems do not depend on the generated
program; audited with the property)
-/
namespace Bridge.C15t
open Bridge.C15

/-! ## The notation functions AS TRANSLATED from the source on this run are the model functions above:
`Translated/Notation.lean` and `Translated/Contract.lean` (kernel evaluation of `Generated/PyCore.lean` under the MiniPy
interpreter over the complete finite domains); audited with this property. -/

theorem translated_contract_is_model (c : Contract) : Translated.contractAgrees c = true :=
  Translated.contract_class_translated c


end Bridge.C15t
