import BridgeVerif.Lemmas.Play
/-!
# C11 (in-process half) — a single-seat observer fed the public sequence of plays agrees with the
full-information game and never rejects what the table manager accepted
-/
namespace Bridge.C11a

/-- creating both from the same contract and the true hand establishes the relation -/
theorem obs_rel_init (c : Contract) (hands : Seat → List Card) (me : Seat) (w : WithHands) (o : Observed)
    (hw : WithHands.init c hands = some w) (ho : Observed.init c me (hands me) = some o) : ObsRel w o := by
  exact (finv_init hw ho).1.rel

/-- both constructors accept / reject the same contracts -/
theorem init_agree (c : Contract) (hands : Seat → List Card) (me : Seat) :
    (WithHands.init c hands).isSome = (Observed.init c me (hands me)).isSome := by
  simp [WithHands.init, Observed.init]

/-- supplying dummy's true current hand keeps the relation -/
theorem obs_rel_set_dummy (w : WithHands) (o : Observed) (h : ObsRel w o) :
    ObsRel w (o.setDummy (w.hands w.base.dummy)) := by
  exact ⟨h.base, h.hand, fun dh hdh => by simp [Observed.setDummy] at hdh; exact hdh.symm⟩

/-- **Simulation.** Whatever the table manager accepts, the observer accepts too and they stay related —
provided dummy's hand has been supplied before dummy (a seat other than the observer) plays (`hd`).
`hme`: an observer sitting dummy holds no separate copy of dummy's hand (its own `hand` is that hand); the
protocol guarantees this — `Client.playing_phase` only calls `set_dummy_hand` when `dummy is not self.player`.
Without `hme` the statement is false: `Observed.play` would update `hand` but leave `dummyHand` stale. -/
theorem observer_simulates (w w' : WithHands) (o : Observed) (c : Card) (p : Seat)
    (hr : ObsRel w o) (hw : w.play c p = .ok w')
    (hd : p = w.base.dummy → p ≠ o.me → o.dummyHand ≠ none)
    (hme : o.me = w.base.dummy → o.dummyHand = none) :
    ∃ o', o.play c p = .ok o' ∧ ObsRel w' o' := by
  obtain ⟨o', h1, h2, _⟩ := observer_simulates_strong w w' o c p hr hw hd hme
  exact ⟨o', h1, h2⟩

/-- once supplied, dummy's hand stays known -/
theorem dummy_stays_known (o o' : Observed) (c : Card) (p : Seat) (h : o.play c p = .ok o')
    (hk : o.dummyHand ≠ none) : o'.dummyHand ≠ none := by
  obtain ⟨_, ⟨_, _, rfl⟩ | ⟨_, _, dh, _, _, rfl⟩ | ⟨_, _, rfl⟩⟩ := observed_play_ok o o' c p h
  · exact hk
  · simp
  · exact hk

/-- related states agree on every public field: contract data, declarer, dummy, turn, trick number, leaders,
trick history and trick counts (they are the same `PState`) -/
theorem related_agree (w : WithHands) (o : Observed) (h : ObsRel w o) :
    o.base.trump = w.base.trump ∧ o.base.declarer = w.base.declarer ∧ o.base.dummy = w.base.dummy ∧
    o.base.active = w.base.active ∧ o.base.leader = w.base.leader ∧ o.base.trickNum = w.base.trickNum ∧
    o.base.history = w.base.history ∧ o.base.takenNS = w.base.takenNS ∧ o.base.takenEW = w.base.takenEW ∧
    o.base.trick = w.base.trick ∧ o.base.used = w.base.used := by
  rw [h.base]; simp

/-- the protocol's feed: dummy's hand is supplied right after the opening lead, to every observer that does not
itself sit dummy (`Client.playing_phase`: `set_dummy_hand` only when `dummy is not self.player`).  Then every
play the table manager accepts is accepted by the observer, for whole sequences. -/
def feed (w : WithHands) (o : Observed) : List (Card × Seat) → Option (WithHands × Observed)
  | [] => some (w, o)
  | (c, p) :: ops =>
    match w.play c p with
    | .error _ => feed w o ops          -- refused by the table manager: not part of the public sequence
    | .ok w' =>
      match o.play c p with
      | .error _ => none                -- the observer rejected an accepted play
      | .ok o' =>
        let o'' := if w.base.used = [] ∧ o'.me ≠ w'.base.dummy then o'.setDummy (w'.hands w'.base.dummy) else o'
        feed w' o'' ops

/-- the workhorse: the feed invariant `FInv` (Lemmas/Play.lean) is maintained along any sequence of offers -/
theorem feed_invariant : ∀ (ops : List (Card × Seat)) (w : WithHands) (o : Observed), FInv w o →
    ∃ w' o', feed w o ops = some (w', o') ∧ FInv w' o' ∧ w' = runFull w ops ∧ o'.me = o.me
  | [], w, o, hi => ⟨w, o, rfl, hi, rfl, rfl⟩
  | (c, p) :: ops, w, o, hi => by
    unfold feed runFull
    cases hw : w.play c p with
    | error e => exact feed_invariant ops w o hi
    | ok w1 =>
      obtain ⟨o1, hplay, hi1, hme1⟩ := finv_step w w1 o c p hi hw
      obtain ⟨w', o', hf, hi', hrun, hme'⟩ := feed_invariant ops w1 _ hi1
      refine ⟨w', o', ?_, hi', hrun, hme'.trans hme1⟩
      simp only [hplay]
      exact hf

/-- for every observer seat (dummy included): no play accepted by the table manager is ever rejected by the
observer, and the two stay related -/
theorem observer_never_rejects_accepted (c : Contract) (hands : Seat → List Card) (me : Seat)
    (w : WithHands) (o : Observed)
    (hw : WithHands.init c hands = some w) (ho : Observed.init c me (hands me) = some o)
    (ops : List (Card × Seat)) :
    ∃ w' o', feed w o ops = some (w', o') ∧ ObsRel w' o' ∧ w' = runFull w ops := by
  obtain ⟨w', o', hf, hi', hrun, _⟩ := feed_invariant ops w o (finv_init hw ho).1
  exact ⟨w', o', hf, hi'.rel, hrun⟩

/-- for whole sequences the observer's public state (contract data, declarer, dummy, turn, trick number, leaders,
trick history, trick counts, played cards — all fields of `PState`, cf. `related_agree`) and its own hand are
those of the full-information game -/
theorem feed_public_state (c : Contract) (hands : Seat → List Card) (me : Seat)
    (w : WithHands) (o : Observed)
    (hw : WithHands.init c hands = some w) (ho : Observed.init c me (hands me) = some o)
    (ops : List (Card × Seat)) (w' : WithHands) (o' : Observed) (hf : feed w o ops = some (w', o')) :
    w' = runFull w ops ∧ o'.base = w'.base ∧ o'.me = me ∧ o'.hand = w'.hands me := by
  obtain ⟨hi, hm⟩ := finv_init hw ho
  obtain ⟨w2, o2, hf2, hi', hrun, hme'⟩ := feed_invariant ops w o hi
  rw [hf] at hf2
  obtain ⟨rfl, rfl⟩ : w' = w2 ∧ o' = o2 := by simpa using hf2
  have hme : o'.me = me := hme'.trans hm
  exact ⟨hrun, hi'.rel.base, hme, by rw [hi'.rel.hand, hme]⟩

/-! ### non-vacuity: 1♣ by North, East leads ♣2, South (dummy) plays ♣3.  West as observer is given dummy's hand
after the lead and sees it shrink; South as observer is never given a copy and uses its own hand. -/
def exHands : Seat → List Card
  | .E => [⟨2, .C⟩] | .S => [⟨3, .C⟩, ⟨4, .C⟩] | _ => []
def exContract : Contract := { finalBid := some ⟨0, by decide⟩, declarer := some .N }
example : (feed ((WithHands.init exContract exHands).get rfl) ((Observed.init exContract .W (exHands .W)).get rfl)
    [(⟨2, .C⟩, .E), (⟨3, .C⟩, .S)]).map (fun r => (r.2.dummyHand, r.2.hand, r.1.hands .S)) =
    some (some [⟨4, .C⟩], [], [⟨4, .C⟩]) := by decide
example : (feed ((WithHands.init exContract exHands).get rfl) ((Observed.init exContract .S (exHands .S)).get rfl)
    [(⟨2, .C⟩, .E), (⟨3, .C⟩, .S)]).map (fun r => (r.2.dummyHand, r.2.hand, r.1.hands .S)) =
    some (none, [⟨4, .C⟩], [⟨4, .C⟩]) := by decide

end Bridge.C11a
