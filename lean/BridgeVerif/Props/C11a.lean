import BridgeVerif.Lemmas.Play
/-!
# C11 (in-process half) — a single-seat observer fed the public sequence of plays agrees with the
full-information game and never rejects what the table manager accepted
-/
namespace Bridge.C11a

/-- creating both from the same contract and the true hand establishes the relation -/
theorem obs_rel_init (c : Contract) (hands : Seat → List Card) (me : Seat) (w : WithHands) (o : Observed)
    (hw : WithHands.init c hands = some w) (ho : Observed.init c me (hands me) = some o) : ObsRel w o := by
  sorry

/-- both constructors accept / reject the same contracts -/
theorem init_agree (c : Contract) (hands : Seat → List Card) (me : Seat) :
    (WithHands.init c hands).isSome = (Observed.init c me (hands me)).isSome := by
  sorry

/-- supplying dummy's true current hand keeps the relation -/
theorem obs_rel_set_dummy (w : WithHands) (o : Observed) (h : ObsRel w o) :
    ObsRel w (o.setDummy (w.hands w.base.dummy)) := by
  sorry

/-- **Simulation.** Whatever the table manager accepts, the observer accepts too and they stay related —
provided dummy's hand has been supplied before dummy (a seat other than the observer) plays -/
theorem observer_simulates (w w' : WithHands) (o : Observed) (c : Card) (p : Seat)
    (hr : ObsRel w o) (hw : w.play c p = .ok w')
    (hd : p = w.base.dummy → p ≠ o.me → o.dummyHand ≠ none) :
    ∃ o', o.play c p = .ok o' ∧ ObsRel w' o' := by
  sorry

/-- once supplied, dummy's hand stays known -/
theorem dummy_stays_known (o o' : Observed) (c : Card) (p : Seat) (h : o.play c p = .ok o')
    (hk : o.dummyHand ≠ none) : o'.dummyHand ≠ none := by
  sorry

/-- related states agree on every public field: contract data, declarer, dummy, turn, trick number, leaders,
trick history and trick counts (they are the same `PState`) -/
theorem related_agree (w : WithHands) (o : Observed) (h : ObsRel w o) :
    o.base.trump = w.base.trump ∧ o.base.declarer = w.base.declarer ∧ o.base.dummy = w.base.dummy ∧
    o.base.active = w.base.active ∧ o.base.leader = w.base.leader ∧ o.base.trickNum = w.base.trickNum ∧
    o.base.history = w.base.history ∧ o.base.takenNS = w.base.takenNS ∧ o.base.takenEW = w.base.takenEW ∧
    o.base.trick = w.base.trick ∧ o.base.used = w.base.used := by
  sorry

/-- the protocol's feed: dummy's hand is supplied right after the opening lead.  Then every play the table
manager accepts is accepted by the observer, for whole sequences. -/
def feed (w : WithHands) (o : Observed) : List (Card × Seat) → Option (WithHands × Observed)
  | [] => some (w, o)
  | (c, p) :: ops =>
    match w.play c p with
    | .error _ => feed w o ops          -- refused by the table manager: not part of the public sequence
    | .ok w' =>
      match o.play c p with
      | .error _ => none                -- the observer rejected an accepted play
      | .ok o' =>
        let o'' := if w.base.used = [] then o'.setDummy (w'.hands w'.base.dummy) else o'
        feed w' o'' ops

theorem observer_never_rejects_accepted (c : Contract) (hands : Seat → List Card) (me : Seat)
    (w : WithHands) (o : Observed) (hd : IsDeal hands)
    (hw : WithHands.init c hands = some w) (ho : Observed.init c me (hands me) = some o)
    (ops : List (Card × Seat)) :
    ∃ w' o', feed w o ops = some (w', o') ∧ ObsRel w' o' ∧ w' = runFull w ops := by
  sorry

end Bridge.C11a
