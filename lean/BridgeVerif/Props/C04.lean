import BridgeVerif.Lemmas.Play
/-!
# C04 — Tricks are won, led and counted according to the laws of play
All statements are for every contract with a declarer, and every list of cards played (no deal hypothesis
unless stated; uniqueness of the winner needs the four cards to be distinct).
-/
namespace Bridge.C04

/-- what the loop of `calc_highest` returns: −1 iff NT or no card of the suit; otherwise the position of the
first card of the suit whose rank is maximal among the cards of the suit -/
theorem calc_highest_spec (suit : Suit) (cs : List Card) :
    (calcHighest suit cs = -1 ↔ (suit = .NT ∨ ∀ c ∈ cs, c.suit ≠ suit)) ∧
    (-1 ≤ calcHighest suit cs) ∧
    (∀ n : Nat, calcHighest suit cs = (n : Int) →
      ∃ c, cs[n]? = some c ∧ c.suit = suit ∧ (∀ c' ∈ cs, c'.suit = suit → c'.rank ≤ c.rank) ∧
        ∀ m c', m < n → cs[m]? = some c' → c'.suit = suit → c'.rank < c.rank) := by
  exact calcHighest_spec suit cs

/-- the position chosen by `_set_next_leader` is the Law's winner of the trick.
`hok`: the cards are real cards (what `Card.__post_init__` accepts).  It is needed because the model's `Card`
type allows the suit value `NT`, which cannot be constructed in Python; for such a "card" led in no-trump
`calc_highest` returns −1 (`trick_winner_is_law_counterexample` in Lemmas/Play.lean).  Only "the card led is
not of suit `NT`" is actually used (`trick_winner_is_law_of_head`). -/
theorem trick_winner_is_law (trump : Suit) (cs : List Card) (hne : cs ≠ [])
    (hok : ∀ c ∈ cs, c.ok = true) :
    0 ≤ highestIdx trump cs ∧ WinsTrick trump cs (winnerIdx trump cs) :=
  trick_winner_is_law_of_ok trump cs hne hok

/-- with distinct cards the Law's winner is unique, so the model's choice is *the* winner -/
theorem winner_unique (trump : Suit) (cs : List Card) (hnd : cs.Nodup) (i j : Nat)
    (hi : WinsTrick trump cs i) (hj : WinsTrick trump cs j) : i = j := by
  exact winsTrick_unique trump cs hnd i j hi hj

/-- the opening lead belongs to declarer's left-hand opponent, declarer's partner is dummy -/
theorem opening_lead_and_dummy (c : Contract) (b : Fin 35) (d : Seat)
    (hb : c.finalBid = some b) (hd : c.declarer = some d) :
    ∃ s, PState.init c = some s ∧ s.leader = d.left ∧ s.active = d.left ∧ s.dummy = d.partner ∧
      s.declarer = d ∧ s.trump = bidDenom b ∧ s.trickNum = 1 ∧ s.trick = [] ∧ s.history = [] ∧
      s.takenNS = 0 ∧ s.takenEW = 0 := by
  simp [PState.init, hb, hd]

/-- a passed-out contract (or one without declarer) cannot be played -/
theorem passed_out_not_playable (c : Contract) (h : c.finalBid = none ∨ c.declarer = none) :
    PState.init c = none := by
  unfold PState.init
  rcases h with h | h
  · rw [h]
  · rw [h]; split <;> simp_all

/-- turns pass clockwise within a trick: the seat on turn is always `trick.length` seats after the leader,
and a trick in progress has fewer than four cards -/
theorem turn_passes_clockwise (c : Contract) (s0 : PState) (h0 : PState.init c = some s0)
    (plays : List Card) :
    let s := runPlay s0 plays
    s.active = s.leader.rot s.trick.length ∧ s.trick.length < 4 ∧ s.trick.length = plays.length % 4 := by
  intro s
  have h := pinv_of_init h0 plays
  have hl : s.trick.length = plays.length % 4 := h.len
  exact ⟨h.act, by omega, hl⟩

/-- the fourth card completes the trick: the seat that played the winning card leads (and is on turn for) the
next trick, the trick is recorded with its leader and the four cards in the order played -/
theorem winner_leads_next (c : Contract) (s0 : PState) (h0 : PState.init c = some s0)
    (plays : List Card) (x : Card) (h3 : (runPlay s0 plays).trick.length = 3) :
    let s := runPlay s0 plays
    let s' := playCard s x
    let tc := s.trick ++ [x]
    s'.leader = s.leader.rot (winnerIdx s.trump tc) ∧ s'.active = s'.leader ∧ s'.trick = [] ∧
    s'.history = ⟨s.leader, tc⟩ :: s.history ∧ s'.trickNum = s.trickNum + 1 := by
  intro s s' tc
  have _ := h0
  have e : s' = playCard s x := rfl
  rw [playCard_complete s x h3] at e
  rw [e]; simp [tc]

/-- the winner's side is credited exactly one trick, the other side nothing -/
theorem one_trick_credited_to_winners_side (c : Contract) (s0 : PState) (h0 : PState.init c = some s0)
    (plays : List Card) (x : Card) (h3 : (runPlay s0 plays).trick.length = 3) :
    let s := runPlay s0 plays
    let s' := playCard s x
    (s'.leader.side = .NS → s'.takenNS = s.takenNS + 1 ∧ s'.takenEW = s.takenEW) ∧
    (s'.leader.side = .EW → s'.takenEW = s.takenEW + 1 ∧ s'.takenNS = s.takenNS) := by
  intro s s'
  have _ := h0
  have e : s' = playCard s x := rfl
  rw [playCard_complete s x h3] at e
  rw [e]
  simp only [addTaken_leader, addTaken_takenNS, addTaken_takenEW]
  constructor <;> intro hs <;> simp [hs]

/-- a card that does not complete a trick changes neither leader, history nor the trick counts -/
theorem incomplete_trick_step (c : Contract) (s0 : PState) (h0 : PState.init c = some s0)
    (plays : List Card) (x : Card) (hlt : (runPlay s0 plays).trick.length < 3) :
    let s := runPlay s0 plays
    let s' := playCard s x
    s'.leader = s.leader ∧ s'.active = s.active.left ∧ s'.trick = s.trick ++ [x] ∧ s'.history = s.history ∧
    s'.takenNS = s.takenNS ∧ s'.takenEW = s.takenEW ∧ s'.trickNum = s.trickNum := by
  intro s s'
  have _ := h0
  have e : s' = playCard s x := rfl
  rw [playCard_incomplete s x (Nat.ne_of_lt hlt)] at e
  rw [e]; simp

/-- the recorded history is exactly the played cards cut into tricks, each with its actual leader and its
four cards in the order played; leader, current trick, trick number and both counts follow -/
theorem history_is_tricksOf (c : Contract) (s0 : PState) (h0 : PState.init c = some s0)
    (plays : List Card) :
    let s := runPlay s0 plays
    tricksOf s0.trump s0.leader plays = (s.history.reverse, s.leader, s.trick) ∧
    s.takenNS = wonBy s0.trump s0.leader .NS plays ∧
    s.takenEW = wonBy s0.trump s0.leader .EW plays ∧
    s.trickNum = plays.length / 4 + 1 ∧
    s.takenNS + s.takenEW = plays.length / 4 := by
  intro s
  obtain ⟨b, d, _, _, hs0⟩ := init_some h0
  have ht : s0.trick = [] := by rw [hs0]
  have hh : s0.history = [] := by rw [hs0]
  have hn : s0.takenNS = 0 := by rw [hs0]
  have he : s0.takenEW = 0 := by rw [hs0]
  obtain ⟨r1, r2, r3, r4, r5⟩ := run_tricksOf plays s0 ht
  have hp := pinv_of_init h0 plays
  refine ⟨?_, ?_, ?_, hp.tn, hp.tk⟩
  · rw [hh] at r1
    have r1' : s.history.reverse = (tricksOf s0.trump s0.leader plays).1 := by simpa using r1
    have r2' : s.leader = (tricksOf s0.trump s0.leader plays).2.1 := r2
    have r3' : s.trick = (tricksOf s0.trump s0.leader plays).2.2 := r3
    rw [r1', r2', r3']
  · have : s.takenNS = s0.takenNS + wonBy s0.trump s0.leader .NS plays := r4
    omega
  · have : s.takenEW = s0.takenEW + wonBy s0.trump s0.leader .EW plays := r5
    omega

/-- after thirteen tricks the two sides' counts total thirteen and play is over -/
theorem after_52_cards (c : Contract) (s0 : PState) (h0 : PState.init c = some s0)
    (plays : List Card) (h52 : plays.length = 52) :
    let s := runPlay s0 plays
    s.takenNS + s.takenEW = 13 ∧ s.hasDone = true ∧ s.history.length = 13 ∧ s.trick = [] := by
  intro s
  have hp := pinv_of_init h0 plays
  have h1 : s.takenNS + s.takenEW = plays.length / 4 := hp.tk
  have h2 : s.trickNum = plays.length / 4 + 1 := hp.tn
  have h3 : s.history.length = plays.length / 4 := hp.hl
  have h4 : s.trick.length = plays.length % 4 := hp.len
  refine ⟨by omega, ?_, by omega, ?_⟩
  · simp only [PState.hasDone, decide_eq_true_eq]; omega
  · apply List.eq_nil_of_length_eq_zero; omega

/-- play is over exactly from the 52nd card on -/
theorem has_done_iff_52 (c : Contract) (s0 : PState) (h0 : PState.init c = some s0)
    (plays : List Card) : (runPlay s0 plays).hasDone = true ↔ 52 ≤ plays.length := by
  have h2 : (runPlay s0 plays).trickNum = plays.length / 4 + 1 := (pinv_of_init h0 plays).tn
  simp only [PState.hasDone, decide_eq_true_eq]; omega

/-! ### non-vacuity: spades are trumps; ♥A led, ♠2 ruffs, ♠5 over-ruffs, ♥K follows: position 2 wins.
In NT the ♥A wins. -/
example : winnerIdx .S [⟨14, .H⟩, ⟨2, .S⟩, ⟨5, .S⟩, ⟨13, .H⟩] = 2 := by decide
example : winnerIdx .NT [⟨14, .H⟩, ⟨2, .S⟩, ⟨5, .S⟩, ⟨13, .H⟩] = 0 := by decide
example : winnerIdx .D [⟨3, .H⟩, ⟨14, .S⟩, ⟨5, .C⟩, ⟨13, .H⟩] = 3 := by decide

end Bridge.C04
