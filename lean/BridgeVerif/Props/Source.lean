import BridgeVerif.Generated.SourceConsts
import BridgeVerif.Model.Session
/-!
# The regular expressions and message constants the models were written for

Every scanner in `Model/*.lean` stands for ONE regular expression of the source (DESIGN appendix F), used with a given
`re` function and flags; the session models use the literal texts of `Server.Message`.  `Generated/SourceConsts.lean` is
re-extracted from the repository on every run; the theorems below pin it to the texts the models were written for.  If a
pattern is edited in the source these theorems stop checking: the scanners are then no longer known to represent the code,
and the property checks that depend on them report it (with a failing input if the correspondence run finds one).
-/
namespace Bridge.Source

/-- (where, how it is used, pattern text) — as extracted when the scanners were written -/
def expectedPatterns : List (String × String × String) := [
  ("hands.py:<module>", "assign HAND_PATTERN", "([2-9TJQKA]*).([2-9TJQKA]*).([2-9TJQKA]*).([2-9TJQKA]*)"),
  ("hands.py:<module>", "assign HAND", "[2-9TJQKA\\.]{16}|-"),
  ("hands.py:<module>", "assign DEAL_PATTERN", "([NESW]):({HAND}) ({HAND}) ({HAND}) ({HAND})"),
  ("hands.py:Hands.convert_pbn", "re.match flags=", "<expr> DEAL_PATTERN"),
  ("hands.py:Hands._hand_parser", "re.match flags=", "<expr> HAND_PATTERN"),
  ("parser.py:PbnParser", "assign TAG_PATTERN", "\\[[ ]?([A-Z][a-zA-Z]+) \"([^\"]*)\"[ ]?\\]"),
  ("parser.py:PbnParser", "assign REPLACE_PATTERN", "[ \\t\\r\\n]+"),
  ("parser.py:PbnParser", "assign _VALUE_OR_SPACE_PATTERN", "\"[^\"]*\"|[ \\t\\r\\n]+"),
  ("parser.py:PbnParser.extract_content", "re.search flags=", "<expr> self.TAG_PATTERN"),
  ("parser.py:PbnParser.parse_board", "re.sub flags=string", "<expr> self._VALUE_OR_SPACE_PATTERN"),
  ("parser.py:PbnParser.parse_board", "re.findall flags=", "<expr> self.TAG_PATTERN"),
  ("parser.py:PbnParser.parse_stream", "re.fullmatch flags=", "<expr> self.REPLACE_PATTERN"),
  ("parser.py:PbnParser.parse_stream", "re.match flags=", "% PBN (\\d+)\\.(\\d+)"),
  ("parser.py:PbnParser.parse_stream", "re.match flags=", "% EXPORT"),
  ("socket_interface.py:MessageInterface.parse_match_base", "re.match flags=re.IGNORECASE", "<expr> pattern"),
  ("socket_interface.py:MessageInterface.parse_bid", "assign bid_pattern", "{player_name} bids (\\d)(C|D|H|S|NT)"),
  ("socket_interface.py:MessageInterface.parse_bid", "re.match flags=re.IGNORECASE", "<expr> bid_pattern"),
  ("socket_interface.py:MessageInterface.parse_bid", "assign pattern", "{player_name} (.*)"),
  ("socket_interface.py:MessageInterface.parse_card", "assign pattern", "{player.formal_name} plays (.*)"),
  ("server.py:PlayerThread._check_message", "assign pattern", "<expr> expected_message.replace(' ', '\\\\s+')"),
  ("server.py:PlayerThread._check_message", "re.fullmatch flags=re.IGNORECASE", "<expr> pattern"),
  ("server.py:PlayerThread.parse_connection_info", "assign pattern", "Connecting \"(.*)\" as (.*) using protocol version (\\d+)"),
  ("server.py:PlayerThread.parse_connection_info", "re.match flags=re.IGNORECASE", "<expr> pattern"),
  ("server.py:Server.remove_alert_word", "re.sub flags=message|re.IGNORECASE", "\\s+Alert\\.\\s*"),
  ("client.py:Client.parse_team_names", "assign pattern", "Teams : N/S : \"(.*)\".? E/W : \"(.*)\""),
  ("client.py:Client.parse_board", "assign pattern", "Board number (\\d+)\\. Dealer (.*)\\. (.*) vulnerable\\."),
  ("client.py:Client.parse_cards", "assign pattern", "{player_name}\\'s cards : (.*)"),
  ("client.py:Client.parse_hand", "assign pattern", "S (.*)\\. H (.*)\\. D (.*)\\. C (.*)\\.\\s?"),
  ("client.py:Client.parse_leader_message", "assign pattern", "(.*) to lead")
]

def expectedMessages : List (String × String) := [
  ("ILLEGAL_BID", "illegal bid"),
  ("ERROR", "error detected"),
  ("PASSED_OUT", "passed out"),
  ("NULL", "nothing happens"),
  ("END_SESSION", "End of session"),
  ("NEXT_BOARD", "next board")
]

/-- the regular expressions in the source are the ones the scanners model -/
theorem patterns_as_modelled : Generated.Source.patterns = expectedPatterns := rfl

/-- the queue messages in the source are the ones the session models use -/
theorem messages_as_modelled :
    Generated.Source.messages = expectedMessages ∧
    MSG_NULL = "nothing happens".toList ∧ MSG_PASSED_OUT = "passed out".toList ∧ MSG_END = "End of session".toList ∧
    MSG_NEXT = "next board".toList := ⟨rfl, rfl, rfl, rfl, rfl⟩

end Bridge.Source
