import BridgeVerif.Lemmas.Msg
import BridgeVerif.Lemmas.MsgHeader
import BridgeVerif.Lemmas.MsgBid
import BridgeVerif.Lemmas.MsgHand
/-!
# C19 — Protocol messages mean the same to both ends and framing always terminates
Builders and parsers are the models of Model/Msg.lean (each parser = its regular expression with `re.match`
semantics); framing is the byte-level reader of Model/Framing.lean.
-/
namespace Bridge.C19

/-- a hand message (any seat name or `Dummy`, 0..13 cards — in fact any number — voids included) is read back
as the original set of cards -/
theorem hand_msg_round_trip (name : List Char) (hand : List Card) (hok : HandOK hand) :
    parseCards? (cardsMsg name hand) name = some (handToStr hand) ∧
    ∃ l, parseHand? (handToStr hand) = some l ∧ l.Perm hand := by
  exact ⟨parseCards_ok name hand, parseHand_ok hand hok⟩

/-- a call message built for any of the 38 calls and any seat is parsed as that call, in any letter case -/
theorem bid_msg_round_trip (c : Call) (p : Seat) (m : List Char)
    (hm : CaseVariant m (bidMsg c p.formal)) : parseBid? m p.formal = some c := by
  rw [← parseBid_lowerS, hm.lowerS_eq]
  exact parseBid_canonical c (call_mem_all c) p (seat_mem_all p)

/-- … and with an alert suffix (white space, `Alert.` in any case, optional white space) the table manager
strips the suffix and parses the same call; what it relays is the message without the suffix -/
theorem bid_msg_alert_round_trip (c : Call) (p : Seat) (m ws1 al ws2 : List Char)
    (hm : CaseVariant m (bidMsg c p.formal)) (h1 : ws1 ≠ [] ∧ AllWs ws1)
    (hal : CaseVariant al "Alert.".toList) (h2 : AllWs ws2) :
    preprocessBid (m ++ ws1 ++ al ++ ws2) = m ∧
    parseBid? (preprocessBid (m ++ ws1 ++ al ++ ws2)) p.formal = some c := by
  have h := preprocessBid_alert c p m ws1 al ws2 hm h1 hal h2
  exact ⟨h, by rw [h]; exact bid_msg_round_trip c p m hm⟩

/-- a card message in either notation (rank-suit as the bundled client writes it, or suit-rank) and any
letter case is parsed as that card, for all 52 cards and 4 seats -/
theorem card_msg_round_trip (c : Card) (hc : c ∈ Card.deck) (p : Seat) (suitFirst : Bool) (m : List Char)
    (hm : CaseVariant m (playMsg p c suitFirst)) : parseCard? m p = some c := by
  rw [← parseCard_lowerS, hm.lowerS_eq]
  exact parseCard_canonical c hc p (seat_mem_all p) suitFirst

/-- every board header the server builds is parsed as the same number, dealer and vulnerability -/
theorem board_header_round_trip (n : Nat) (dealer : Seat) (v : Vul) :
    parseBoard? (boardHeader n dealer v) = some (n, dealer, v) := by
  have h := parseBoard_number n (dealer.formal ++ ". ".toList ++ convertVul v ++ " vulnerable.".toList)
  rw [boardTail_ok] at h
  unfold boardHeader
  simpa only [List.append_assoc, Option.map_some] using h

/-- the team-names message is parsed as the two names, for all names without a double quote (or line break) -/
theorem team_names_round_trip (ns ew : List Char) (h1 : NameOK ns) (h2 : NameOK ew) :
    parseTeamNames? (teamsMsg ns ew) = some (ns, ew) := by
  exact parseTeamNames_ok ns ew h1 h2

/-- a connection request is parsed as the team name, the seat (named in any letter case) and the version -/
theorem connect_round_trip (team : List Char) (ht : NameOK team) (p : Seat) (seat : List Char)
    (hs : CaseVariant seat p.formal) (v : Nat) :
    parseConnect? (connectMsg team seat v) = some (team, p, v) := by
  exact parseConnect_ok team ht p seat hs v

/-- lead prompts are understood -/
theorem lead_prompt_round_trip (who : Option Seat) (dummy : Seat) :
    parseLeader? (leadPrompt who) dummy = some (who.getD dummy) := by
  cases who with
  | none => cases dummy <;> decide +kernel
  | some p => cases p <;> cases dummy <;> decide +kernel

/-- one framed message, followed by anything, is received intact and the rest of the stream is left -/
theorem recv_one_frame (m rest : List Byte) (hm : CRFree m) :
    recvOne (.body []) (encodeMsg m ++ rest) = .msg m rest := by
  simpa [encodeMsg] using recvOne_body m rest [] hm

/-- **Framing.** Any sequence of CR-free messages is received intact and in order; when the stream then ends
— between messages, inside one, or right after a CR — the receiver has delivered exactly the complete
messages and stops (it neither waits nor spins) -/
theorem framing_round_trip (msgs : List (List Byte)) (hm : ∀ m ∈ msgs, CRFree m)
    (tail : List Byte) (ht : PartialFrame tail) (fuel : Nat) (hf : msgs.length < fuel) :
    recvAll fuel ((msgs.map encodeMsg).flatten ++ tail) = msgs := by
  exact recvAll_frames msgs hm tail ht fuel hf

/-- however the bytes are split in transit: the result depends on the concatenated stream only -/
theorem chunking_irrelevant (chunks : List (List Byte)) (stream : List Byte)
    (h : chunks.flatten = stream) (fuel : Nat) : recvAll fuel chunks.flatten = recvAll fuel stream := by
  rw [h]

/-- when the peer closes the connection the reader stops with an error, in every state -/
theorem reader_stops_at_eof (s : RState) : rstep s none = .err ∧ recvOne s [] = .error [] := by
  cases s <;> simp [rstep, recvOne]

/-- `n` further `recv` calls of the old reader at end of stream -/
def spinOld : Nat → RState → RState
  | 0, s => s
  | n + 1, s => match rstepOld s none with | .cont s' => spinOld n s' | _ => s

/-- the reader before the fix did not: at end of stream inside a message it stays in the same state for ever -/
theorem reader_spins_at_eof_old (acc : List Byte) (n : Nat) :
    rstepOld (.body acc) none = .cont (.body acc) ∧
    spinOld n (RState.body acc) = RState.body acc := by
  refine ⟨rfl, ?_⟩
  induction n with
  | zero => rfl
  | succ n ih => simpa [spinOld, rstepOld] using ih

/-! ### non-vacuity -/
example : parseTeamNames? (teamsMsg " E/W : ".toList "x y".toList) = some (" E/W : ".toList, "x y".toList) := by
  decide +kernel
example : parseBid? "nORTH BIDS 7nt".toList "North".toList = some (.bid ⟨34, by omega⟩) := by decide +kernel
example : recvAll 5 ([97, 13, 10, 98, 99, 13, 10, 100, 13] : List Byte) = [[97], [98, 99]] := by decide

end Bridge.C19
