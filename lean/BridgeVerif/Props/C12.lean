import BridgeVerif.Lemmas.JsonRoundTrip
import BridgeVerif.Lemmas.JsonRecord
/-!
# C12 — JSON game logs are schema-valid and read back exactly as written

`logText es` is the text `JsonLogWriter` produces for the results `es` (open, write …, close);
`parseBoardLogs?` / `parseBoardSettings?` are `JsonParser.parse_board_logs` / `parse_board_settings` on a text
(`json.load` included: `jsonLoad` is the model of Python's reader, `pyDumps` of its writer);
`Generated.logSchema` is the published schema file, translated on every run.
-/
namespace Bridge.C12

theorem tag_logs_plain : ∀ c ∈ jkey "logs", escChar c = [c] := by decide
theorem tag_settings_plain : ∀ c ∈ jkey "board_settings", escChar c = [c] := by decide

theorem mapM_of_forall {α β : Type} (f : α → Option β) (g : α → β) :
    ∀ (l : List α), (∀ x ∈ l, f x = some (g x)) → l.mapM f = some (l.map g)
  | [], _ => rfl
  | x :: r, h => by
    have hx := h x (List.mem_cons_self ..)
    have hr := mapM_of_forall f g r fun y hy => h y (List.mem_cons_of_mem _ hy)
    simp [List.mapM_cons, hx, hr]

theorem mapM_map_of_forall {α β γ : Type} (f : β → Option γ) (k : α → β) (g : α → γ) :
    ∀ (l : List α), (∀ x ∈ l, f (k x) = some (g x)) → (l.map k).mapM f = some (l.map g)
  | [], _ => rfl
  | x :: r, h => by
    have hx := h x (List.mem_cons_self ..)
    have hr := mapM_map_of_forall f k g r fun y hy => h y (List.mem_cons_of_mem _ hy)
    simp [List.mapM_cons, hx, hr]

/-- Python's reader undoes Python's writer on every JSON value (any nesting; strings with quotes, backslashes,
control characters, astral characters; integers of any size) -/
theorem loads_dumps (j : Json) (h : j.wf = true) : jsonLoad (pyDumps j) = some j :=
  jsonLoad_pyDumps j h

/-- any sequence of board results (none included) forms ONE valid JSON document: `{"logs": [r1, …, rn]}` -/
theorem framed_output_is_json (es : List LogEntry) (h : ∀ e ∈ es, e.WF) :
    jsonLoad (logText es) = some (logDoc es) := by
  have := jsonLoad_frame (jkey "logs") tag_logs_plain (es.map logJson) (by
    intro j hj
    obtain ⟨e, he, rfl⟩ := List.mem_map.1 hj
    exact logJson_wf e (h e he))
  simpa [logText, logDoc, List.map_map, Function.comp_def] using this

/-- … which conforms to the published log schema -/
theorem log_validates (es : List LogEntry) (h : ∀ e ∈ es, e.WF)
    (hc : ∀ e ∈ es, ∀ d, e.dda = some d → DdaComplete d) :
    ∃ doc, jsonLoad (logText es) = some doc ∧ validate Generated.logSchema doc = true :=
  ⟨logDoc es, framed_output_is_json es h,
    validate_logDoc es fun e he d hd => ⟨hc e he d hd, (h e he).dda d hd⟩⟩

/-- the parser rebuilds from one written record exactly the record that was written -/
theorem record_read_back (e : LogEntry) (h : e.WF) : logOfJson? (logJson e) = some e.readBack :=
  logOfJson_logJson e h

/-- the log parser reads the document back as the records that were written, in order -/
theorem log_read_back (es : List LogEntry) (h : ∀ e ∈ es, e.WF) :
    parseBoardLogs? (logText es) = some (es.map LogEntry.readBack) := by
  have hm' : (es.map logJson).mapM logOfJson? = some (es.map LogEntry.readBack) :=
    mapM_map_of_forall logOfJson? logJson LogEntry.readBack es fun e he => logOfJson_logJson e (h e he)
  simp [parseBoardLogs?, framed_output_is_json es h, logDoc, Json.get?, Json.arr?, hm']

/-- "equal in every field": what `readBack` is, field by field.  (The doubling status of a passed-out contract is
"none", whatever flags the object carried: the text `Passed_out` has no doubling.) -/
theorem read_back_is_what_was_written (e : LogEntry) (h : e.WF) :
    let r := e.readBack
    r.boardId = e.boardId ∧ r.dealer = e.dealer ∧ r.vul = e.contract.vul ∧ (∀ p, (r.hands p).Perm (e.deal p)) ∧
    r.bids = some e.bids ∧ r.contract.finalBid = e.contract.finalBid ∧
    r.contract.dbl = (if e.contract.isPassedOut then Dbl.none else e.contract.dbl) ∧
    r.contract.vul = e.contract.vul ∧ r.contract.declarer = e.contract.declarer ∧ r.declarer = e.contract.declarer ∧
    r.play = e.play ∧ r.tricks = e.tricks ∧ r.scoreType = some e.scoring.value ∧
    r.scores = some [(.NS, e.scoreNS), (.EW, e.scoreEW)] ∧ r.dda = e.dda ∧
    r.players = some [(.N, e.north), (.E, e.east), (.S, e.south), (.W, e.west)] :=
  readBack_fields e h

/-- the same document is accepted as a board-settings source and yields the same boards in the same order -/
theorem log_as_settings (es : List LogEntry) (h : ∀ e ∈ es, e.WF) :
    parseBoardSettings? (logText es) = some (es.map LogEntry.setting) := by
  have hm : (es.map logJson).mapM settingOfJson? = some (es.map LogEntry.setting) :=
    mapM_map_of_forall settingOfJson? logJson LogEntry.setting es fun e he => settingOfJson_logJson e (h e he)
  simp [parseBoardSettings?, framed_output_is_json es h, logDoc, Json.get?, Json.arr?, hm]

/-! ### non-vacuity: a played board with a double-dummy table and awkward strings satisfies the hypotheses -/
def exEntry : LogEntry :=
  { boardId := "b \"1\"\\ é😀".toList, north := "n".toList, east := [], south := "n".toList, west := [],
    dealer := .W, deal := fun p => match p with | .N => [⟨14, .S⟩, ⟨2, .C⟩] | _ => [], scoring := .IMP,
    bids := [.bid ⟨5, by omega⟩, .dbl, .pass, .pass, .pass],
    contract := ⟨some ⟨5, by omega⟩, true, false, .ns, some .W⟩,
    play := some [⟨.N, [⟨14, .S⟩, ⟨2, .C⟩]⟩], tricks := some 7, scoreNS := -180, scoreEW := 180,
    dda := some [(.N, [(.C, 1), (.D, 2), (.H, 3), (.S, 4), (.NT, 5)])] }
theorem exEntry_wf : exEntry.WF where
  hands := by intro p; cases p <;> decide
  dda := by
    intro d hd
    cases hd
    exact ⟨by decide, by decide⟩
  declarer := by decide
  noDeclarer := by decide
  play := by
    intro ts hts
    cases hts
    decide
example : parseBoardLogs? (logText [exEntry]) = some [exEntry.readBack] :=
  log_read_back [exEntry] (by simpa using exEntry_wf)
example : ∃ doc, jsonLoad (logText [exEntry]) = some doc ∧ validate Generated.logSchema doc = true :=
  log_validates [exEntry] (by simpa using exEntry_wf) (by
    intro e he d hd
    simp at he
    subst he
    cases hd
    unfold DdaComplete
    decide)
example : jsonLoad (logText []) = some (logDoc []) := framed_output_is_json [] (by simp)

end Bridge.C12
