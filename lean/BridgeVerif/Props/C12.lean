import BridgeVerif.Spec.JsonLog
import BridgeVerif.Generated.Schemas
/-!
# C12 — JSON game logs are schema-valid and read back exactly as written

`logText es` is the text `JsonLogWriter` produces for the results `es` (open, write …, close);
`parseBoardLogs?` / `parseBoardSettings?` are `JsonParser.parse_board_logs` / `parse_board_settings` on a text
(`json.load` included: `jsonLoad` is the model of Python's reader, `pyDumps` of its writer);
`Generated.logSchema` is the published schema file, translated on every run.
-/
namespace Bridge.C12

/-- Python's reader undoes Python's writer on every JSON value (any nesting; strings with quotes, backslashes,
control characters, astral characters; integers of any size) -/
theorem loads_dumps (j : Json) (h : j.wf = true) : jsonLoad (pyDumps j) = some j := by
  sorry

/-- any sequence of board results (none included) forms ONE valid JSON document: `{"logs": [r1, …, rn]}` -/
theorem framed_output_is_json (es : List LogEntry) (h : ∀ e ∈ es, e.WF) :
    jsonLoad (logText es) = some (logDoc es) := by
  sorry

/-- … which conforms to the published log schema -/
theorem log_validates (es : List LogEntry) (h : ∀ e ∈ es, e.WF)
    (hc : ∀ e ∈ es, ∀ d, e.dda = some d → DdaComplete d) :
    ∃ doc, jsonLoad (logText es) = some doc ∧ validate Generated.logSchema doc = true := by
  sorry

/-- the parser rebuilds from one written record exactly the record that was written -/
theorem record_read_back (e : LogEntry) (h : e.WF) : logOfJson? (logJson e) = some e.readBack := by
  sorry

/-- the log parser reads the document back as the records that were written, in order -/
theorem log_read_back (es : List LogEntry) (h : ∀ e ∈ es, e.WF) :
    parseBoardLogs? (logText es) = some (es.map LogEntry.readBack) := by
  sorry

/-- "equal in every field": what `readBack` is, field by field -/
theorem read_back_is_what_was_written (e : LogEntry) (h : e.WF) :
    let r := e.readBack
    r.boardId = e.boardId ∧ r.dealer = e.dealer ∧ r.vul = e.contract.vul ∧ (∀ p, (r.hands p).Perm (e.deal p)) ∧
    r.bids = some e.bids ∧ r.contract.finalBid = e.contract.finalBid ∧ r.contract.dbl = e.contract.dbl ∧
    r.contract.vul = e.contract.vul ∧ r.contract.declarer = e.contract.declarer ∧ r.declarer = e.contract.declarer ∧
    r.play = e.play ∧ r.tricks = e.tricks ∧ r.scoreType = some e.scoring.value ∧
    r.scores = some [(.NS, e.scoreNS), (.EW, e.scoreEW)] ∧ r.dda = e.dda ∧
    r.players = some [(.N, e.north), (.E, e.east), (.S, e.south), (.W, e.west)] := by
  sorry

/-- the same document is accepted as a board-settings source and yields the same boards in the same order -/
theorem log_as_settings (es : List LogEntry) (h : ∀ e ∈ es, e.WF) :
    parseBoardSettings? (logText es) = some (es.map LogEntry.setting) := by
  sorry

end Bridge.C12
