import BridgeVerif.Lemmas.Auction
/-!
# C01 — The auction accepts exactly the calls the Laws of bridge allow

Specification side (Spec/Laws.lean): `legalLaw` (pass always; a bid only above the last bid; a double only of
an opponent's undoubled last bid; a redouble only of an opponent's double of one's own side's last bid),
`endedB`/`EndedLaw`, `acceptedLaw`, `answersLaw` — all functions of the call history alone.
Model side (Model/Auction.lean): `takeBid`, `runAuction`, mirroring `BiddingPhase.take_bid`.
`Reach d v s h` = the model state `s` has been reached by a history `h` (`reach_init`, `reach_run`).
-/
namespace Bridge.C01

/-- **Main theorem.** Offer any sequence of calls (legal or not, also after the end) to a fresh auction:
the history kept is exactly the Laws' `acceptedLaw`, every answer (illegal / ongoing / finished / error) is the
Laws' answer, and while the auction is open the advertised vector is exactly the legal set. -/
theorem auction_refines_laws (d : Seat) (v : Vul) (ops : List Call) :
    let r := runAuction (AState.init d v) ops
    r.1.history = acceptedLaw d [] ops ∧
    r.2 = answersLaw d [] ops ∧
    LegalLaw d r.1.history ∧
    (endedB r.1.history = false → ∀ c, r.1.avail c = legalLaw d r.1.history c) := by
  intro r
  have hr := reach_run d v ops
  have h1 := (run_refines d v ops _ _ (ainv_init d v)).2
  have hh : r.1.history = accepted d [] ops := hr.inv.hist
  refine ⟨?_, ?_, ?_, ?_⟩
  · rw [hh, acceptedLaw_eq d ops [] .nil]
  · rw [answersLaw_eq d ops [] .nil]; exact h1
  · rw [hh]; exact (legal_iff_legalLaw d _).1 hr.leg
  · intro he c
    rw [hh] at he ⊢
    rw [← over_eq_endedB d _ hr.leg] at he
    rw [legalLaw_eq_legal d _ hr.leg]
    exact hr.inv.av he c

/-- at every reachable open state, the advertised vector is exactly the legal set -/
theorem avail_vector_is_legal_set (d : Seat) (v : Vul) (s : AState) (h : List Call)
    (hr : Reach d v s h) (ho : endedB h = false) (c : Call) : s.avail c = legalLaw d h c := by
  rw [legalLaw_eq_legal d h hr.leg]
  exact hr.inv.av (by rw [over_eq_endedB d h hr.leg]; exact ho) c

/-- a call is accepted (appended, state advanced) iff the Laws allow it -/
theorem take_bid_accepts_iff_legal (d : Seat) (v : Vul) (s : AState) (h : List Call)
    (hr : Reach d v s h) (ho : endedB h = false) (c : Call) :
    (∃ s' r, takeBid s c = .ok (s', r) ∧ r ≠ .illegal ∧ s'.history = c :: h ∧ Reach d v s' (c :: h)) ↔
      legalLaw d h c = true := by
  have ho' : over h = false := by rw [over_eq_endedB d h hr.leg]; exact ho
  obtain ⟨_, h2, h3⟩ := take_bid_refines d v s h hr.inv c
  rw [legalLaw_eq_legal d h hr.leg]
  constructor
  · rintro ⟨s', r, e, hne, _, _⟩
    cases hl : legal d h c with
    | true => rfl
    | false =>
      rw [h2 ho' hl] at e
      cases e; exact absurd rfl hne
  · intro hl
    obtain ⟨s', e, hi'⟩ := h3 ho' hl
    refine ⟨s', _, e, ?_, hi'.hist, ⟨hi', .cons hr.leg ho' hl⟩⟩
    split <;> simp

/-- a call the Laws forbid is reported as illegal and leaves the auction exactly as it was
(the very same state: history, turn, available calls and everything else) -/
theorem illegal_reported_and_state_unchanged (d : Seat) (v : Vul) (s : AState) (h : List Call)
    (hr : Reach d v s h) (ho : endedB h = false) (c : Call) (hl : legalLaw d h c = false) :
    takeBid s c = .ok (s, .illegal) := by
  have ho' : over h = false := by rw [over_eq_endedB d h hr.leg]; exact ho
  rw [legalLaw_eq_legal d h hr.leg] at hl
  exact (take_bid_refines d v s h hr.inv c).2.1 ho' hl

/-! ### non-vacuity: N deals, history 1C X XX P P 1D (newest first below): the legal set is exactly
{Pass, X, every bid above 1D}; in particular XX and 1C, 1D are refused. -/
def exH : List Call := [.bid ⟨1, by omega⟩, .pass, .pass, .rdbl, .dbl, .bid ⟨0, by omega⟩]
example : LegalLaw .N exH := by
  rw [← legal_iff_legalLaw]
  repeat (first | exact .nil | refine .cons ?_ (by decide) (by decide))
example : endedB exH = false ∧
    (Call.all.filter (legalLaw .N exH)) = (Call.all.filter fun c => c.idx ≥ 2 ∧ c.idx ≠ 37) := by
  decide

end Bridge.C01
