import BridgeVerif.Props.C02
import BridgeVerif.Translated.Auction
/-!
# C02 — the same statements for the code AS TRANSLATED from the source on this run
(kept apart from Props/C02.lean so that the lemma files which reuse the property theorems do not depend on the generated
program; audited with the property)
-/
namespace Bridge.C02t
open Bridge.C02

/-! ## For `BiddingPhase` AS TRANSLATED from the source on this run: every run of the translated object is the model's
run (`Translated/Auction.lean`, symbolic execution of `Generated/PyCore.lean` under MiniPy), so turn order, per-seat
shares and the end condition above are statements about the code -/

/-- from ANY model state, offering any calls to the translated object gives the model's answers and final state -/
theorem translated_run_is_model (s : AState) (cs : List Call) :
    Translated.runTranslated (Translated.encState s) cs =
      ((Translated.encState (runAuction s cs).1), (runAuction s cs).2.map (fun r => match r with
        | .error () => .error (.exc Py.K.Exception) | .ok r => .ok (Translated.encRes r))) :=
  Translated.run_translated_from s cs

/-- the translated `has_done()` -/
theorem translated_has_done_is_model (s : AState) :
    Translated.P.runMethod Generated.PyCore.n_BiddingPhase Generated.PyCore.n_has_done [Translated.encState s]
      = .ok (.bool s.hasDone, Translated.encState s) :=
  Translated.has_done_translated s


end Bridge.C02t
