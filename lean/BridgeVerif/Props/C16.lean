import BridgeVerif.Lemmas.Imps
/-!
# C16 — IMP conversion is the official scale, odd and monotone, for every integer difference
Property theorems only.  All statements quantify over every `d : Int`.
-/
namespace Bridge.C16

/-- the code's loop computes the official scale -/
theorem imps_is_scale (d : Int) : pointDifferenceToImps d = impsSpec d := by
  unfold pointDifferenceToImps impsSpec
  rw [impScan_eq_count _ _ _ IMPS_LIST_asc, IMPS_LIST_is_official]
  split <;> simp

theorem imps_bounds (d : Int) : -24 ≤ pointDifferenceToImps d ∧ pointDifferenceToImps d ≤ 24 := by
  rw [imps_is_scale]; unfold impsSpec
  have := impCount_le_len (d.natAbs : Int) impThresholds
  have hl : impThresholds.length = 24 := by decide
  split <;> omega

/-- 0 below 20 -/
theorem imps_zero_below_20 (d : Int) (h : -20 < d ∧ d < 20) : pointDifferenceToImps d = 0 := by
  rw [imps_is_scale]; unfold impsSpec
  have : impCount (d.natAbs : Int) impThresholds = 0 := by
    apply impCount_zero_of_lt
    intro x hx
    simp [impThresholds] at hx
    omega
  simp [this]

/-- 24 from 4000 up (and −24 from −4000 down) -/
theorem imps_24_from_4000 (d : Int) (h : 4000 ≤ d) : pointDifferenceToImps d = 24 := by
  rw [imps_is_scale]; unfold impsSpec
  have h1 := impCount_mono 4000 (d.natAbs : Int) impThresholds (by omega)
  have h2 := impCount_le_len (d.natAbs : Int) impThresholds
  have h3 : impCount 4000 impThresholds = 24 := by decide
  have hl : impThresholds.length = 24 := by decide
  have : d ≥ 0 := by omega
  simp [this]; omega

theorem imps_odd (d : Int) : pointDifferenceToImps (-d) = - pointDifferenceToImps d := by
  rw [imps_is_scale, imps_is_scale]; unfold impsSpec
  simp only [Int.natAbs_neg]
  by_cases h0 : d = 0
  · subst h0; simp [impCount, impThresholds]
  · generalize (impCount (↑d.natAbs) impThresholds : Int) = c
    split <;> split <;> omega

theorem imps_monotone (a b : Int) (h : a ≤ b) :
    pointDifferenceToImps a ≤ pointDifferenceToImps b := by
  rw [imps_is_scale, imps_is_scale]; unfold impsSpec
  by_cases ha : a ≥ 0
  · have hb : b ≥ 0 := by omega
    have := impCount_mono (a.natAbs : Int) (b.natAbs : Int) impThresholds (by omega)
    simp [ha, hb]; omega
  · by_cases hb : b ≥ 0
    · simp only [ha, hb, if_true, if_false]
      have h1 : (0:Int) ≤ (impCount (b.natAbs : Int) impThresholds : Int) := by omega
      have h2 : (0:Int) ≤ (impCount (a.natAbs : Int) impThresholds : Int) := by omega
      omega
    · have := impCount_mono (b.natAbs : Int) (a.natAbs : Int) impThresholds (by omega)
      simp [ha, hb]; omega

/-- the two-score form is the scale applied to the sum -/
theorem score_to_imp_is_sum (a b : Int) : scoreToImp a b = impsSpec (a + b) := by
  unfold scoreToImp; exact imps_is_scale _

/-! non-vacuity / sanity: concrete values of the scale -/
example : pointDifferenceToImps 430 = 10 ∧ pointDifferenceToImps 429 = 9 ∧
    pointDifferenceToImps (-4000) = -24 ∧ pointDifferenceToImps 15 = 0 := by decide

end Bridge.C16
