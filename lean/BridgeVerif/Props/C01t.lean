import BridgeVerif.Props.C01
import BridgeVerif.Translated.Auction
/-!
# C01 — the same statements for the code AS TRANSLATED from the source on this run
(kept apart from Props/C01.lean so that the lemma files which reuse the property theorems do not depend on the generated
program; audited with the property)
-/
namespace Bridge.C01t
open Bridge.C01

/-! ## The same, for `BiddingPhase` AS TRANSLATED from bridge_env/bidding_phase.py on this run
(`Generated/PyCore.lean` executed by the MiniPy interpreter; `Translated/Auction.lean` proves by symbolic execution
that the translated `__init__` / `take_bid` ARE the model's `AState.init` / `takeBid` on every state and call) -/

/-- how an answer of the model reads as a result of the translated `take_bid` -/
def encAnswer : Except Unit Res → Except Py.Err Py.Val
  | .error () => .error (.exc Py.K.Exception)
  | .ok r => .ok (Translated.encRes r)

open Bridge.Py Bridge.Generated.PyCore in
/-- **The code as translated.**  Construct the translated `BiddingPhase(dealer, vul)` and offer it ANY sequence of
calls: every answer (`ILLEGAL` / `ONGOING` / `FINISHED` / the exception after the end) is the Laws' answer, and the
object left behind is the encoding of a state whose history is exactly the Laws' accepted calls and whose 38-slot
vector is exactly the legal set while the auction is open. -/
theorem translated_auction_refines_laws (d : Seat) (v : Vul) (ops : List Call) :
    ∃ s : AState,
      Translated.P.runNew n_BiddingPhase [Translated.encSeat d, Translated.encVul v]
        = .ok (Translated.encState (AState.init d v)) ∧
      Translated.runTranslated (Translated.encState (AState.init d v)) ops
        = (Translated.encState s, (answersLaw d [] ops).map encAnswer) ∧
      s.history = acceptedLaw d [] ops ∧ LegalLaw d s.history ∧
      (endedB s.history = false → ∀ c, s.avail c = legalLaw d s.history c) := by
  obtain ⟨h1, h2, h3, h4⟩ := auction_refines_laws d v ops
  refine ⟨(runAuction (AState.init d v) ops).1, Translated.init_translated d v, ?_, h1, h3, h4⟩
  rw [Translated.run_translated, h2]
  congr 1

/-- one step: the translated `take_bid` on the encoding of ANY model state is the model's `takeBid` -/
theorem translated_take_bid_is_model (s : AState) (c : Call) :
    Translated.P.runMethod Generated.PyCore.n_BiddingPhase Generated.PyCore.n_take_bid [Translated.encState s, Translated.encCall c] =
      match takeBid s c with
      | .error () => .error (.exc Py.K.Exception)
      | .ok (s', r) => .ok (Translated.encRes r, Translated.encState s') :=
  Translated.take_bid_translated s c


end Bridge.C01t
