import BridgeVerif.Lemmas.PbnCompose
/-!
# C18 — PBN export is read back by the PBN parser, one game per board

`writeBoardResult? r` are the strings `PbnWriter.write_board_result` passes to the output stream for the result
`r` (`none` = an assertion of the writer fails); `parseStream ∘ pyLines` is `PbnParser.parse_all` on the written
text; `pbnBoardSettings?` is `parse_board_settings`.  `PbnResult.WF` (Spec/PbnLayout.lean): positive board number,
hands complete or unknown, a result exactly when the board was played, free-text values without quote / line end /
comment opener, every tag pair fitting on one 255-character line.
-/
namespace Bridge.C18

/-- `write_line` never writes more than 255 characters per line, for EVERY non-empty string: each written piece has
at most 255 characters and ends with a line end, and removing the inserted line ends gives back the string -/
theorem lines_at_most_255 (s : Str) (h : s ≠ []) :
    ∃ cs, writeLine? s = some cs ∧ cs ≠ [] ∧ (∀ c ∈ cs, c.length ≤ MAX_LINE_CHARS ∧ c.getLast? = some '\n') ∧
      (cs.map fun c => c.dropLast).flatten = (if s.getLast? = some '\n' then s.dropLast else s) :=
  writeLine_chunks s h

/-- no line of ANY written board result exceeds the limit (also with over-long values, which are wrapped) -/
theorem written_lines_at_most_255 (r : PbnResult) (cs : List Str) (h : writeBoardResult? r = some cs) :
    ∀ c ∈ cs, c.length ≤ MAX_LINE_CHARS ∧ c.getLast? = some '\n' :=
  board_result_lines_at_most_255 r cs h

/-- the fifteen mandatory tags, in the order of the standard, carrying the values that were given: vulnerability in
PBN spelling, date as YYYY.MM.DD, board number in decimal -/
theorem fifteen_tags_in_order (r : PbnResult) (tags : List (Str × Str)) (h : resultTags? r = some tags) :
    tags.map (·.1) = mandatoryTags ∧
    tags = [("Event".toList, r.event), ("Site".toList, r.site), ("Date".toList, dateStr r.year r.month r.day),
      ("Board".toList, intRepr r.boardNum), ("West".toList, r.west), ("North".toList, r.north),
      ("East".toList, r.east), ("South".toList, r.south), ("Dealer".toList, r.dealer.name),
      ("Vulnerable".toList, vulPbn r.contract.vul), ("Deal".toList, (toPbn? r.deal r.dealer).getD []),
      ("Scoring".toList, r.scoring.value),
      ("Declarer".toList, if r.contract.isPassedOut then [] else seatOptStr r.contract.declarer),
      ("Contract".toList, if r.contract.isPassedOut then "Pass".toList else contractStr r.contract),
      ("Result".toList, match r.tricks with | some n => if r.contract.isPassedOut then [] else intRepr n | none => [])] :=
  ⟨resultTags_names r tags h, resultTags_values r tags h⟩

/-- a passed-out board: empty declarer and result, contract "Pass" -/
theorem passed_out_tags (r : PbnResult) (tags : List (Str × Str)) (h : resultTags? r = some tags)
    (hpo : r.contract.isPassedOut = true) :
    (tags.find? fun kv => kv.1 == "Declarer".toList).map (·.2) = some [] ∧
    (tags.find? fun kv => kv.1 == "Contract".toList).map (·.2) = some "Pass".toList ∧
    (tags.find? fun kv => kv.1 == "Result".toList).map (·.2) = some [] := by
  rw [resultTags_values r tags h, hpo]
  refine ⟨by simp, by simp, ?_⟩
  cases r.tricks <;> simp

/-- **Main theorem.** Any sequence of well-formed board results is written (no assertion fails) and the parser reads
the written text back as one game per result, in the order written, each game being exactly the fifteen tags with the
values that were written -/
theorem export_round_trip (rs : List PbnResult) (h : ∀ r ∈ rs, r.WF) :
    ∃ tagss css, rs.mapM resultTags? = some tagss ∧ rs.mapM writeBoardResult? = some css ∧
      parseStream (pyLines css.flatten.flatten) = tagss := by
  obtain ⟨tagss, css, h1, h2, h3, h4⟩ := export_is_layout rs h
  refine ⟨tagss, css, h1, h2, ?_⟩
  have htext : css.flatten.flatten = (exportFile tagss).text := by rw [h3]; rfl
  rw [htext, pyLines_text _ h4, parseStream_layout _ h4]
  -- every game is its fifteen tags: the names are pairwise different, so "first occurrence wins" drops nothing
  have hnames : ∀ tags ∈ tagss, firstWins tags [] = tags := by
    intro tags ht
    obtain ⟨r, hr, hrt⟩ := mapM_mem_some h1 tags ht
    rw [resultTags_values r tags hrt]
    simp [firstWins]
  simp only [exportFile, List.map_map]
  rw [show tagss = tagss.map id by simp]
  rw [List.map_map]
  apply List.map_congr_left
  intro tags ht
  simp only [Function.comp_def, id]
  rw [resultGame_tagList]
  exact hnames tags ht

/-- consecutive results are separate games, as many games as results -/
theorem consecutive_results_are_separate_games (rs : List PbnResult) (h : ∀ r ∈ rs, r.WF) :
    ∃ css, rs.mapM writeBoardResult? = some css ∧ (parseStream (pyLines css.flatten.flatten)).length = rs.length := by
  obtain ⟨tagss, css, h1, h2, h3⟩ := export_round_trip rs h
  exact ⟨css, h2, by rw [h3]; exact mapM_length h1⟩

/-- deal, dealer, vulnerability and board number of every written result are recovered as a board setting -/
theorem export_as_settings (rs : List PbnResult) (h : ∀ r ∈ rs, r.WF) :
    ∃ css ss, rs.mapM writeBoardResult? = some css ∧ pbnBoardSettings? (pyLines css.flatten.flatten) = some ss ∧
      ss.length = rs.length ∧
      ∀ i (h₁ : i < ss.length) (h₂ : i < rs.length),
        SameBoard ss[i] ⟨intRepr rs[i].boardNum, rs[i].dealer, rs[i].deal, rs[i].contract.vul, none⟩ :=
  export_settings rs h

/-- before the repair (no empty line after a game) two results were read back as ONE game (kernel-evaluated witness) -/
theorem old_writer_merged_games :
    ∃ r : PbnResult, r.WF ∧ ∃ cs, writeBoardResultOld? r = some cs ∧
      (parseStream (pyLines (cs ++ cs).flatten)).length = 1 ∧
      ∃ cs', writeBoardResult? r = some cs' ∧ (parseStream (pyLines (cs' ++ cs').flatten)).length = 2 :=
  old_writer_merges_games

end Bridge.C18
