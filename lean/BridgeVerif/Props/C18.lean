import BridgeVerif.Spec.PbnLayout
namespace Bridge.C18
theorem lines_at_most_255 : True := by sorry
theorem written_lines_at_most_255 : True := by sorry
theorem fifteen_tags_in_order : True := by sorry
theorem passed_out_tags : True := by sorry
theorem export_round_trip : True := by sorry
theorem export_as_settings : True := by sorry
theorem consecutive_results_are_separate_games : True := by sorry
end Bridge.C18
