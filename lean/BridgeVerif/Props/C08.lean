import BridgeVerif.Lemmas.SessionC08
import BridgeVerif.Lemmas.MainThread
/-!
# C08 — The table manager's log records exactly what was played

`recordOf sc b d` (Model/Session.lean) is the record main writes for board `b` when the seats decide `d`; it is
compared field by field with the real log by the correspondence run.  Here: it is what the rules say, and it
does not depend on thread timing.
-/
namespace Bridge.C08

/-- the log operations of a session -/
def logSpec (sc : Scenario) : List LogOp :=
  LogOp.open :: (sc.boards.map fun bd => LogOp.write (recordOf sc bd.1 bd.2)) ++ [LogOp.close]

/-- in every schedule, when nobody can move any more the main thread has opened the log, written one record per
configured board, in order, and closed it; no other thread writes -/
theorem log_is_session_spec (sc : Scenario) (h : sc.boards ≠ []) (us : List Tid) (n : Net Tid Chan Text LogOp)
    (hr : Run parties (Net.init (sessionProg sc)) us n) (hs : Stuck parties n) :
    n.outs .main = logSpec sc ∧ ∀ t, t ≠ .main → n.outs t = [] := by
  obtain ⟨_, _, _, houts⟩ := C09.never_deadlocks sc us n hr hs
  refine ⟨?_, fun t ht => ?_⟩
  · rw [houts, C09.log_is_opened_written_closed sc h]; rfl
  · rw [houts, session_emits_not_main sc t ht]

/-- the record does not depend on thread timing: any two executions that have come to rest wrote the same log -/
theorem log_independent_of_schedule (sc : Scenario) (us vs : List Tid) (n m : Net Tid Chan Text LogOp)
    (hr : Run parties (Net.init (sessionProg sc)) us n) (hs : Stuck parties n)
    (hr' : Run parties (Net.init (sessionProg sc)) vs m) (hs' : Stuck parties m) :
    n.outs = m.outs ∧ n.hist = m.hist := by
  obtain ⟨rfl, _⟩ := maximal_runs_agree (C09.session_disciplined sc) hr hs hr' hs'
  exact ⟨rfl, rfl⟩

/-- identifier, dealer, complete ORIGINAL deal, team names, double-dummy table and the calls exactly as configured / sent -/
theorem deal_logged_is_original (sc : Scenario) (b : BoardSetting) (d : Decisions) :
    let r := recordOf sc b d
    r.boardId = b.boardId ∧ r.dealer = b.dealer ∧ r.deal = b.deal ∧ r.nsName = sc.nsName ∧ r.ewName = sc.ewName ∧
    r.calls = d.calls.map (·.1) ∧ r.dda = b.dda := by
  rw [recordOf_eq]
  split <;> exact ⟨rfl, rfl, rfl, rfl, rfl, rfl, rfl⟩

/-- the two sides' scores are negatives of each other -/
theorem scores_are_opposite (sc : Scenario) (b : BoardSetting) (d : Decisions) :
    (recordOf sc b d).scoreEW = - (recordOf sc b d).scoreNS := by
  rw [recordOf_eq]
  split
  · next decl _ _ => cases decl.side <;> simp
  · simp

/-- a passed-out board has no play, no trick count and zero scores; any other board has both -/
theorem passed_out_record_shape (sc : Scenario) (b : BoardSetting) (d : Decisions) (hc : ConformingAuction b d) :
    let r := recordOf sc b d
    (r.contract.isPassedOut = true → r.play = none ∧ r.tricks = none ∧ r.scoreNS = 0 ∧ r.scoreEW = 0 ∧
        r.contract.declarer = none) ∧
    (r.contract.isPassedOut = false → r.play.isSome ∧ r.tricks.isSome ∧ r.contract.declarer.isSome) := by
  have hbc := boardContract_conforming b d hc
  rcases specContract_shape b.dealer b.vul (d.calls.map (·.1)).reverse with ⟨hf, hd⟩ | ⟨i, decl, hf, hd⟩
  · rw [← hbc] at hf hd
    rw [recordOf_passed sc b d (Or.inl hf)]
    simp [Contract.isPassedOut, hf, hd]
  · rw [← hbc] at hf hd
    rw [recordOf_played sc b d i decl hf hd]
    simp [Contract.isPassedOut, hf, hd]

/-- contract, declarer, tricks and score follow from the calls and cards by the rules: the contract is the Laws'
contract of the auction (C03), the recorded tricks are the cards cut in fours with their true leaders (C04), the
trick count is the number of tricks won by declarer's side, and the score is the duplicate score of that
contract and result for declarer's side (C07) -/
theorem record_follows_rules (sc : Scenario) (b : BoardSetting) (d : Decisions)
    (hc : ConformingAuction b d) (hp : ConformingPlay b d) :
    let r := recordOf sc b d
    let h := (d.calls.map (·.1)).reverse
    r.contract = specContract b.dealer b.vul h ∧ r.vul = b.vul ∧
    (∀ decl i, r.contract.declarer = some decl → r.contract.finalBid = some i →
      let cards := d.cards.map (·.1)
      r.play = some (tricksOf (bidDenom i) decl.left cards).1 ∧
      r.tricks = some (wonBy (bidDenom i) decl.left decl.side cards) ∧
      (if decl.side = .NS then r.scoreNS else r.scoreEW) =
        dupScore (bidLevel i) (bidDenom i) r.contract.dbl (sideVulnerable b.vul decl) (wonBy (bidDenom i) decl.left decl.side cards)) := by
  have hbc := boardContract_conforming b d hc
  have hcon : (recordOf sc b d).contract = boardContract b d := by rw [recordOf_eq]; split <;> rfl
  have hvul : (recordOf sc b d).vul = (boardContract b d).vul := by rw [recordOf_eq]; split <;> rfl
  refine ⟨hcon.trans hbc, by rw [hvul, hbc, specContract_vul], ?_⟩
  intro decl i hd hf
  rw [hcon] at hd hf ⊢
  exact record_rules sc b d hc hp decl i hd hf

/-- **The main thread as the code writes it.**  `mainReactive` (Model/MainThread.lean) is `Server.run` / `deal` /
`bidding_phase` / `playing_phase` written the way the Python is: it asks the seat on turn, PARSES the text it receives
(`remove_alert_word`, `parse_bid`, `parse_card`), runs its own auction and its own full-information play, raises on an
illegal / unparseable / not-held action, relays, and assembles the record from what it parsed.  Fed the messages the seat
threads forward in a session with conforming players whose texts mean what they decided, it performs exactly the program
of the session model — so the records it writes ARE `recordOf`, i.e. (by `record_follows_rules`) what the rules say -/
theorem main_thread_follows_the_messages (sc : Scenario) (h : sc.boards ≠ [])
    (hc : ∀ bd ∈ sc.boards, ConformingAuction bd.1 bd.2 ∧ ConformingPlay bd.1 bd.2 ∧ TextsConform bd.1 bd.2) :
    mainReactive sc (sc.boards.map (·.1)) (fun p => sendsOn (Chan.t2m p) (sessionProg sc (.seat p)))
      = some (sessionProg sc .main) :=
  mainReactive_session sc h hc

end Bridge.C08
