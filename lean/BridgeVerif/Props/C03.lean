import BridgeVerif.Lemmas.Auction
/-!
# C03 — The final contract is the last bid, its doubling state and its true declarer
`specContract d v h` (Spec/Laws.lean): passed out if `h` has no bid; otherwise the last bid, doubled /
redoubled according to the calls *after* it, the board's vulnerability, and as declarer the member of the
last bidder's side who first named that denomination (`firstNamer`).
-/
namespace Bridge.C03

/-- before the auction has ended no contract is reported -/
theorem contract_none_before_end (d : Seat) (v : Vul) (s : AState) (h : List Call)
    (hr : Reach d v s h) (hn : ¬ EndedLaw h) : s.contract = none := by
  have ho : over h = false := by
    cases ho : over h with
    | false => rfl
    | true => exact absurd (ended_law_of_over d h hr.leg ho) hn
  simp [AState.contract, hr.inv.act, ho]

/-- when the auction has ended the contract is the one the Laws assign -/
theorem contract_is_spec (d : Seat) (v : Vul) (s : AState) (h : List Call)
    (hr : Reach d v s h) (he : EndedLaw h) : s.contract = some (specContract d v h) := by
  have ho := over_of_ended_law h he
  obtain ⟨_, _, vl, act, lb, lbr, cx, cxx, _, dc, _⟩ := hr.inv
  simp only [AState.contract, act, ho, if_true, lb, lbr, specContract]
  cases hq : lastBid? h with
  | none => simp [vl]
  | some q => obtain ⟨k, j⟩ := q; simp [vl, cx, cxx, dc]

/-- the board is passed out exactly when nobody bid -/
theorem passed_out_iff_no_bid (d : Seat) (v : Vul) (h : List Call) :
    (specContract d v h).isPassedOut = true ↔ ∀ i, Call.bid i ∉ h := by
  have key : lastBid? h = none ↔ ∀ i, Call.bid i ∉ h := by
    induction h with
    | nil => simp [lastBid?]
    | cons c r ih =>
      cases c with
      | bid i =>
        simp only [lastBid?]
        constructor
        · intro hh; cases hh
        · intro hh; exact absurd List.mem_cons_self (hh i)
      | pass | dbl | rdbl => simp [lastBid?, ih]
  rw [← key]
  simp only [specContract, Contract.isPassedOut]
  cases hq : lastBid? h with
  | none => simp
  | some q => obtain ⟨k, j⟩ := q; simp

/-- a passed-out contract has no declarer and carries the vulnerability -/
theorem passed_out_shape (d : Seat) (v : Vul) (h : List Call) (hn : ∀ i, Call.bid i ∉ h) :
    specContract d v h = ⟨none, false, false, v, none⟩ := by
  have : lastBid? h = none := by
    induction h with
    | nil => rfl
    | cons c r ih =>
      cases c with
      | bid i => exact absurd (List.mem_cons_self) (hn i)
      | pass | dbl | rdbl =>
        simp only [lastBid?, ih (fun i hi => hn i (List.mem_cons_of_mem _ hi)), Option.map_none]
  simp [specContract, this]

/-- the doubling status depends only on the calls made after the last bid:
an earlier double or redouble is superseded by a higher bid -/
theorem superseded_double_cleared (i : Fin 35) (pre pre' post : List Call)
    (hp : ∀ j, Call.bid j ∉ post) :
    dblOf (post ++ Call.bid i :: pre) = dblOf (post ++ Call.bid i :: pre') := by
  induction post with
  | nil => rfl
  | cons c r ih =>
    have hr : ∀ j, Call.bid j ∉ r := fun j hj => hp j (List.mem_cons_of_mem _ hj)
    cases c with
    | bid j => exact absurd List.mem_cons_self (hp j)
    | pass => simp only [List.cons_append, dblOf]; exact ih hr
    | dbl => simp only [List.cons_append, dblOf, ih hr]
    | rdbl => rfl

/-- the stored flags follow the status: doubled ⇒ x, redoubled ⇒ x and xx, and xx only with x -/
theorem flags_follow_status (d : Seat) (v : Vul) (h : List Call) :
    let c := specContract d v h
    (c.xx = true → c.x = true) ∧
    (c.dbl = .xx ↔ dblOf h = .xx ∧ c.finalBid.isSome) ∧
    (c.dbl = .x ↔ dblOf h = .x ∧ c.finalBid.isSome) := by
  simp only [specContract]
  cases hq : lastBid? h with
  | none => simp [Contract.dbl]
  | some q =>
    obtain ⟨k, j⟩ := q
    cases hd : dblOf h <;> simp [Contract.dbl, Dbl.isX, Dbl.isXX]

/-- `firstNamer` returns a seat that made a bid in that denomination at a moment when no member of that
side had named it before -/
theorem first_namer_some (d : Seat) (sd : Side) (su : Suit) :
    ∀ (h : List Call) (p : Seat), firstNamer d h sd su = some p →
      ∃ post i pre, h = post ++ Call.bid i :: pre ∧ p = turn d pre ∧ p.side = sd ∧ bidDenom i = su ∧
        firstNamer d pre sd su = none := by
  intro h
  induction h with
  | nil => intro p hp; simp [firstNamer] at hp
  | cons c r ih =>
    intro p hp
    simp only [firstNamer] at hp
    cases hf : firstNamer d r sd su with
    | some q =>
      rw [hf] at hp
      cases hp
      obtain ⟨post, i, pre, e, h1, h2, h3, h4⟩ := ih p hf
      exact ⟨c :: post, i, pre, by simp [e], h1, h2, h3, h4⟩
    | none =>
      rw [hf] at hp
      cases c with
      | bid i =>
        simp only at hp
        split at hp
        · rename_i hc
          cases hp
          exact ⟨[], i, r, rfl, rfl, hc.1, hc.2, hf⟩
        · cases hp
      | pass | dbl | rdbl => simp at hp

/-- ... and it returns nobody only if no member of that side ever named the denomination -/
theorem first_namer_none (d : Seat) (sd : Side) (su : Suit) :
    ∀ (h : List Call), firstNamer d h sd su = none →
      ∀ post i pre, h = post ++ Call.bid i :: pre → ¬ ((turn d pre).side = sd ∧ bidDenom i = su) := by
  intro h
  induction h with
  | nil => intro _ post i pre e; cases post <;> simp at e
  | cons c r ih =>
    intro hn post i pre e
    simp only [firstNamer] at hn
    cases hf : firstNamer d r sd su with
    | some q => rw [hf] at hn; cases hn
    | none =>
      rw [hf] at hn
      cases post with
      | nil =>
        simp only [List.nil_append, List.cons.injEq] at e
        obtain ⟨e1, e2⟩ := e
        subst e1; subst e2
        intro hc
        have h1 : (d.rot r.length).side = sd := hc.1
        simp [h1, hc.2] at hn
      | cons c' post' =>
        simp only [List.cons_append, List.cons.injEq] at e
        exact ih hf post' i pre e.2

/-- the declarer of a contract with a bid is a member of the side that made the last bid who first named
its denomination; in particular there is one -/
theorem declarer_is_first_namer (d : Seat) (v : Vul) (h : List Call) (k : Nat) (j : Fin 35)
    (hq : lastBid? h = some (k, j)) :
    ∃ p, (specContract d v h).declarer = some p ∧ p.side = (callerAt d h.length k).side ∧
      ∃ post i pre, h = post ++ Call.bid i :: pre ∧ p = turn d pre ∧ bidDenom i = bidDenom j ∧
        firstNamer d pre p.side (bidDenom j) = none := by
  simp only [specContract, hq]
  cases hf : firstNamer d h (callerAt d h.length k).side (bidDenom j) with
  | some p =>
    obtain ⟨post, i, pre, e, h1, h2, h3, h4⟩ := first_namer_some d _ _ h p hf
    exact ⟨p, rfl, h2, post, i, pre, e, h1, h3, by rw [h2]; exact h4⟩
  | none =>
    exfalso
    -- the last bidder himself named it
    have := lastBid_decomp
    obtain ⟨post, pre, e, hl⟩ := this h k j hq
    refine first_namer_none d _ _ h hf post j pre e ⟨?_, rfl⟩
    simp [turn, callerAt, hl]

/-! ### non-vacuity: N deals  1H – 2H(E) – 3H(S) – P – P – P : both sides named hearts, South is the last
bidder but **North** (who named hearts first for N/S) declares; 1C X 1D P P P drops the double. -/
example : specContract .N .ns
    [.pass, .pass, .pass, .bid ⟨12, by omega⟩, .bid ⟨7, by omega⟩, .bid ⟨2, by omega⟩] =
    ⟨some ⟨12, by omega⟩, false, false, .ns, some .N⟩ := by decide
example : specContract .N .none
    [.pass, .pass, .pass, .bid ⟨1, by omega⟩, .dbl, .bid ⟨0, by omega⟩] =
    ⟨some ⟨1, by omega⟩, false, false, .none, some .S⟩ := by decide
example : specContract .E .both [.pass, .pass, .pass, .rdbl, .dbl, .bid ⟨34, by omega⟩] =
    ⟨some ⟨34, by omega⟩, true, true, .both, some .E⟩ := by decide

end Bridge.C03
