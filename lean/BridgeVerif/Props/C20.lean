import BridgeVerif.Lemmas.Admission
import BridgeVerif.Lemmas.AdmissionLoop
/-!
# C20 — Admission seats one conforming client per seat and turns the others away

`admitReq t r` is `PlayerThread._connect`'s verdict on request `r` against the seat table `t`; `serve t rs` is the
accept loop over the requests in the order they are accepted (it serves one connection at a time and waits for
its verdict, so every interleaving of the connecting clients is SOME request sequence; the theorems quantify over
all of them).
-/
namespace Bridge.C20

/-- a request is seated if and only if, at its turn, its version is 18, its seat is free and its partner is either
not seated yet or seated under the same team name -/
theorem accept_iff_ok (t : Table) (r : Request) :
    (admitReq t r).2 = .seated ↔
      r.version = PROTOCOL_VERSION ∧ t r.seat = none ∧ (t r.seat.partner = none ∨ t r.seat.partner = some r.team) :=
  admit_seated_iff t r

/-- otherwise it is answered with the error of the FIRST failing test: version, then seat, then partner's team -/
theorem error_is_first_failing_test (t : Table) (r : Request) :
    ((admitReq t r).2 = .badVersion ↔ r.version ≠ PROTOCOL_VERSION) ∧
    ((admitReq t r).2 = .seatTaken ↔ r.version = PROTOCOL_VERSION ∧ (t r.seat).isSome = true) ∧
    ((admitReq t r).2 = .teamMismatch ↔ r.version = PROTOCOL_VERSION ∧ t r.seat = none ∧
        ∃ pt, t r.seat.partner = some pt ∧ pt ≠ r.team) :=
  admit_errors t r

/-- a rejected request does not disturb the players already seated: the table is unchanged; an accepted one writes
exactly its own seat -/
theorem reject_leaves_table_unchanged (t : Table) (r : Request) :
    ((admitReq t r).2 ≠ .seated → (admitReq t r).1 = t) ∧
    ((admitReq t r).2 = .seated → (admitReq t r).1 = t.set r.seat r.team ∧ ∀ q, q ≠ r.seat → (admitReq t r).1 q = t q) :=
  admit_table t r

/-- the server keeps accepting: a rejection never stops the loop — as long as a seat is free the next request is
served; once the table is full nothing more is accepted -/
theorem loop_continues_until_full (t : Table) (r : Request) (rs : List Request) :
    (t.full = false → serve t (r :: rs) = ((serve (admitReq t r).1 rs).1, (admitReq t r).2 :: (serve (admitReq t r).1 rs).2)) ∧
    (t.full = true → serve t (r :: rs) = (t, [])) :=
  serve_step t r rs

/-- exactly one client per seat: in every request sequence at most one request is seated for any seat, and every
occupied seat of the final table is the seat of exactly one seated request, holding that request's team name -/
theorem one_client_per_seat (rs : List Request) :
    let res := serve Table.empty rs
    ((seatedRequests rs res.2).map (·.seat)).Nodup ∧
    ∀ p, (res.1 p).isSome = true ↔ ∃ r ∈ seatedRequests rs res.2, r.seat = p ∧ res.1 p = some r.team :=
  serve_one_per_seat rs

/-- partners share a team name, in every table the loop can reach -/
theorem partners_share_team (rs : List Request) (p : Seat) (a b : List Char)
    (ha : (serve Table.empty rs).1 p = some a) (hb : (serve Table.empty rs).1 p.partner = some b) : a = b :=
  serve_partners rs p a b ha hb

/-- when the loop ends with four players seated, the `Teams` message (North's name for N/S, East's for E/W) tells
every seat its own side's name and the other side's name correctly -/
theorem teams_message_correct (rs : List Request) (h : (serve Table.empty rs).1.full = true) :
    ∃ ns ew, (∀ p, p.side = .NS → (serve Table.empty rs).1 p = some ns) ∧
             (∀ p, p.side = .EW → (serve Table.empty rs).1 p = some ew) ∧
             teamsOfTable (serve Table.empty rs).1 = teamsMsg ns ew :=
  serve_teams rs h

/-- every served request gets exactly one verdict, in order; requests after the table is full get none -/
theorem verdicts_are_a_prefix (rs : List Request) :
    (serve Table.empty rs).2.length ≤ rs.length ∧
    ((serve Table.empty rs).1.full = false → (serve Table.empty rs).2.length = rs.length) :=
  serve_lengths rs

/-- the final table does depend on the arrival order (N:"a" then S:"b" seats North; the other order seats South) —
the property does not claim otherwise; kernel-evaluated -/
theorem order_matters :
    (serve Table.empty [⟨"a".toList, .N, 18⟩, ⟨"b".toList, .S, 18⟩]).2 = [.seated, .teamMismatch] ∧
    (serve Table.empty [⟨"b".toList, .S, 18⟩, ⟨"a".toList, .N, 18⟩]).2 = [.seated, .teamMismatch] := by
  decide

/-- **The connection thread and the accept loop as the code writes them.**  `Admission.acceptLoopR`
(Model/Admission.lean) is `Server.run`'s accept loop driving `PlayerThread._connect` (`connectR`): every connection's
request TEXT is parsed (`parse_connection_info`), tested against the seat table, answered, and a seated client's
"<Seat> ready for teams" is awaited and checked before the thread signals its verdict.  For well-formed requests from
conforming clients (`conns` = request texts built by `connectMsg` in any letter case of the seat name, each followed by the
expected acknowledgement) the loop IS the fold `serve` over the parsed requests: same final table, one round of
accept / start / wait-for-verdict / sleep / is_alive / clear per served request, a seated thread performs
receive · reply "seated" · receive · signal, a rejected one receive · error reply · close · signal. -/
theorem accept_loop_is_the_fold (reqs : List Request) (hn : ∀ r ∈ reqs, NameOK r.team) :
    let conns := reqs.map fun r => (connectMsg r.team r.seat.formal r.version, r.seat.formal ++ " ready for teams".toList)
    ∃ opss mops,
      Admission.acceptLoopR Table.empty conns = some (opss, mops, (serve Table.empty reqs).1) ∧
      opss.length = (serve Table.empty reqs).2.length ∧
      mops = (List.replicate (serve Table.empty reqs).2.length Admission.acceptRound).flatten ∧
      ∀ i (h₁ : i < opss.length) (h₂ : i < (serve Table.empty reqs).2.length),
        ((serve Table.empty reqs).2[i] = .seated →
            ∃ reply, opss[i] = [.recv, .send reply, .recv, .signal]) ∧
        ((serve Table.empty reqs).2[i] ≠ .seated →
            ∃ reply, opss[i] = [.recv, .send reply, .close, .signal]) :=
  acceptLoop_serve reqs hn

/-! ### non-vacuity: a sequence with every kind of rejection that ends with a full table -/
example :
    (serve Table.empty [⟨"x".toList, .N, 17⟩, ⟨"x".toList, .N, 18⟩, ⟨"x".toList, .N, 18⟩, ⟨"y".toList, .S, 18⟩,
      ⟨"z".toList, .W, 18⟩, ⟨"x".toList, .S, 18⟩, ⟨"z".toList, .E, 18⟩, ⟨"q".toList, .E, 18⟩]).2 =
    [.badVersion, .seated, .seatTaken, .teamMismatch, .seated, .seated, .seated] := by decide

end Bridge.C20
