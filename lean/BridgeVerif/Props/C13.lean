import BridgeVerif.Model.Abort
namespace Bridge.C13
theorem abort_closes_writer : True := by sorry
theorem aborted_log_is_wellformed : True := by sorry
theorem aborted_log_reads_back : True := by sorry
theorem unclosed_log_not_json_old : True := by sorry
theorem session_records_are_wellformed : True := by sorry
end Bridge.C13
