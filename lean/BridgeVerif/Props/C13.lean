import BridgeVerif.Lemmas.Abort
/-!
# C13 — An aborted session still leaves a well-formed log of the completed boards

`Server.run` abandons a session by raising out of the board loop — at ANY point of the main thread's program
(`pre` below is an arbitrary prefix of it: the faults enumerated by the correspondence run — illegal / malformed
call, malformed card, card not held, operator interrupt — are particular prefixes).  Leaving the `with` block
closes the writer (`abortedMain`).
-/
namespace Bridge.C13

/-- wherever the main thread is when the session is abandoned (after the log has been opened), what it has
emitted — closing included — is: open, the records of the first `k` boards in order, close; `k` is the number of
boards whose record had been written, i.e. the boards finished before the abort -/
theorem abort_closes_writer (sc : Scenario) (h : sc.boards ≠ []) (pre rest : List (SAct Text LogOp))
    (hp : sessionProg sc .main = pre ++ rest) (ho : pre.any isOpenAct = true) :
    ∃ k, k ≤ sc.boards.length ∧
      emitsOf (abortedMain pre) =
        LogOp.open :: ((sc.boards.take k).map fun bd => LogOp.write (recordOf sc bd.1 bd.2)) ++ [LogOp.close] ∧
      -- k counts exactly the records already written
      k = ((emitsOf pre).filter fun o => match o with | .write _ => true | _ => false).length := by
  exact abort_emits sc h pre rest hp ho

/-- the file then holds the complete, closed log of those boards: the text `JsonLogWriter` writes for them -/
theorem aborted_log_is_wellformed (recs : List BoardRecord) :
    logFileText (LogOp.open :: recs.map LogOp.write ++ [LogOp.close]) = logText (recs.map entryOf) := by
  exact logFileText_closed recs

/-- … one JSON document that the log parser reads back as exactly those boards, each of them whole (C12) -/
theorem aborted_log_reads_back (recs : List BoardRecord) (hwf : ∀ r ∈ recs, (entryOf r).WF) :
    jsonLoad (logFileText (LogOp.open :: recs.map LogOp.write ++ [LogOp.close])) = some (logDoc (recs.map entryOf)) ∧
    parseBoardLogs? (logFileText (LogOp.open :: recs.map LogOp.write ++ [LogOp.close])) =
      some ((recs.map entryOf).map LogEntry.readBack) := by
  exact aborted_log_reads recs hwf

/-- the records of a session with conforming players and proper deals ARE well-formed writer arguments -/
theorem session_records_are_wellformed (sc : Scenario) (b : BoardSetting) (d : Decisions)
    (hdeal : PartialDeal b.deal) (hc : ConformingAuction b d) (hp : ConformingPlay b d) :
    (entryOf (recordOf sc b d)).WF := by
  exact entryOf_recordOf_wf sc b d hdeal hc hp

/-- before the repair (writer closed on the normal path only) the file of an abandoned session was NOT a JSON
document, whatever had been completed -/
theorem unclosed_log_not_json_old (recs : List BoardRecord) (hwf : ∀ r ∈ recs, (entryOf r).WF) :
    jsonLoad (logFileText (LogOp.open :: recs.map LogOp.write)) = none := by
  exact unclosed_log_not_json recs hwf

end Bridge.C13
