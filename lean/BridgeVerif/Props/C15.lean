import BridgeVerif.Model.Notation
/-!
# C15 — Card, call, contract, seat and vulnerability notations are exact inverses
Every domain is finite; each statement is decided by kernel evaluation over the complete domain.
`Card.deck` = the 52 cards, `Call.all` = the 38 calls.
-/
namespace Bridge.C15

theorem deck_complete : Card.deck.length = 52 ∧ ∀ c : Card, c.ok = true → c ∈ Card.deck := by
  refine ⟨by decide, ?_⟩
  intro ⟨r, s⟩ h
  simp only [Card.ok, Bool.and_eq_true, decide_eq_true_eq] at h
  obtain ⟨⟨h1, h2⟩, h3⟩ := h
  have : r = 2 ∨ r = 3 ∨ r = 4 ∨ r = 5 ∨ r = 6 ∨ r = 7 ∨ r = 8 ∨ r = 9 ∨ r = 10 ∨ r = 11 ∨ r = 12 ∨
      r = 13 ∨ r = 14 := by omega
  rcases this with rfl | rfl | rfl | rfl | rfl | rfl | rfl | rfl | rfl | rfl | rfl | rfl | rfl <;>
    cases s <;> first | exact absurd rfl h3 | decide

theorem calls_complete : Call.all.length = 38 ∧ ∀ c : Call, c ∈ Call.all := by
  refine ⟨by decide, ?_⟩
  intro c
  cases c with
  | pass => decide
  | dbl => decide
  | rdbl => decide
  | bid i =>
    have : ∀ i : Fin 35, Call.bid i ∈ Call.all := by decide
    exact this i

/-! ### cards -/
theorem card_int_round_trip :
    (∀ c ∈ Card.deck, intToCard? (c.idx : Int) = some c) ∧
    (∀ n : Fin 52, (Card.ofIdx? n.val).map Card.idx = some n.val) ∧
    intToCard? (-1) = none ∧ intToCard? 52 = none := by decide

theorem card_str_round_trip : ∀ c ∈ Card.deck, strToCard? (cardStr c) = some c := by decide

theorem card_notations_injective :
    (∀ a ∈ Card.deck, ∀ b ∈ Card.deck, cardStr a = cardStr b → a = b) ∧
    (∀ a ∈ Card.deck, ∀ b ∈ Card.deck, a.idx = b.idx → a = b) := by decide +kernel

/-- the card order (`<` compares `int(card)`) is the index order C2 < … < CA < D2 < … < SA -/
theorem card_order_is_index_order :
    (∀ a ∈ Card.deck, ∀ b ∈ Card.deck, Card.lt a b = decide (a.idx < b.idx)) ∧
    (∀ i j : Fin 52, Card.lt (Card.ofIdx i.val) (Card.ofIdx j.val) = decide (i.val < j.val)) := by
  decide +kernel

/-! ### calls -/
theorem bid_idx_round_trip :
    (∀ c ∈ Call.all, intToCall? (c.idx : Int) = some c) ∧ intToCall? (-1) = none ∧ intToCall? 38 = none ∧
    (∀ n : Fin 38, (Call.ofIdx? n.val).map Call.idx = some n.val) := by decide

theorem bid_str_round_trip : ∀ c ∈ Call.all, strToCall? (callStr c) = some c := by decide +kernel

theorem bid_level_suit_round_trip :
    ∀ i : Fin 35, levelSuitToCall? (bidLevel i : Int) (bidDenom i) = some (Call.bid i) ∧
      callLevel? (.bid i) = some (bidLevel i) ∧ callSuit? (.bid i) = some (bidDenom i) ∧
      1 ≤ bidLevel i ∧ bidLevel i ≤ 7 := by decide

theorem bid_notations_injective :
    (∀ a ∈ Call.all, ∀ b ∈ Call.all, callStr a = callStr b → a = b) ∧
    (∀ a ∈ Call.all, ∀ b ∈ Call.all, a.idx = b.idx → a = b) ∧
    (∀ i j : Fin 35, bidLevel i = bidLevel j → bidDenom i = bidDenom j → i = j) := by decide +kernel

/-! ### seats, suits, vulnerability -/
theorem seat_formal_name_round_trip :
    (∀ p ∈ Seat.all, seatOfFormal? p.formal = some p ∧ seatOfName? p.name = some p) ∧
    (∀ a ∈ Seat.all, ∀ b ∈ Seat.all, a.formal = b.formal → a = b) ∧
    (∀ a ∈ Seat.all, ∀ b ∈ Seat.all, a.name = b.name → a = b) := by decide

theorem suit_name_round_trip :
    (∀ s ∈ Suit.all, suitOfName? s.name = some s) ∧
    (∀ a ∈ Suit.all, ∀ b ∈ Suit.all, a.name = b.name → a = b) := by decide

theorem vul_round_trip :
    (∀ v ∈ Vul.all, strToVul? (vulStr v) = some v ∧ strToVul? (vulPbn v) = some v) ∧
    strToVul? "Love".toList = some .none ∧ strToVul? ['-'] = some .none ∧
    strToVul? "All".toList = some .both ∧ strToVul? "Both".toList = some .both ∧
    (∀ a ∈ Vul.all, ∀ b ∈ Vul.all, vulStr a = vulStr b → a = b) ∧
    (∀ a ∈ Vul.all, ∀ b ∈ Vul.all, vulPbn a = vulPbn b → a = b) := by decide

/-! ### contracts -/
def seatOpts : List (Option Seat) := [none, some .N, some .E, some .S, some .W]

/-- a contract's text parses back to the same bid (level and denomination), vulnerability, declarer and the
same doubling *status*, for every bid, every combination of the two stored flags, every vulnerability and
every declarer (or none) -/
theorem contract_text_round_trip :
    ∀ b : Fin 35, ∀ x xx : Bool, ∀ v ∈ Vul.all, ∀ d ∈ seatOpts,
      ∃ c', strToContract? (contractStr ⟨some b, x, xx, v, d⟩) v d = some c' ∧
        c'.finalBid = some b ∧ c'.dbl = (Contract.mk (some b) x xx v d).dbl ∧ c'.vul = v ∧ c'.declarer = d := by
  have key : ∀ b : Fin 35, ∀ x xx : Bool, ∀ v ∈ Vul.all, ∀ d ∈ seatOpts,
      (match strToContract? (contractStr ⟨some b, x, xx, v, d⟩) v d with
       | some c' => c'.finalBid == some b && c'.dbl == (Contract.mk (some b) x xx v d).dbl &&
                      c'.vul == v && c'.declarer == d
       | none => false) = true := by decide +kernel
  intro b x xx v hv d hd
  have := key b x xx v hv d hd
  split at this
  · rename_i c' hc
    simp only [Bool.and_eq_true, beq_iff_eq] at this
    exact ⟨c', hc, this.1.1.1, this.1.1.2, this.1.2, this.2⟩
  · cases this

/-- a passed-out contract prints as `Passed_out` and parses back as passed out with the same vulnerability -/
theorem passed_out_text_round_trip :
    ∀ x xx : Bool, ∀ v ∈ Vul.all,
      strToContract? (contractStr ⟨none, x, xx, v, none⟩) v none = some ⟨none, false, false, v, none⟩ := by
  decide

/-- distinct (bid, status) pairs never share a text -/
theorem contract_text_injective :
    ∀ b b' : Fin 35, ∀ x xx x' xx' : Bool,
      contractStr ⟨some b, x, xx, .none, none⟩ = contractStr ⟨some b', x', xx', .none, none⟩ →
        b = b' ∧ (Contract.mk (some b) x xx .none none).dbl = (Contract.mk (some b') x' xx' .none none).dbl := by
  decide +kernel

end Bridge.C15
