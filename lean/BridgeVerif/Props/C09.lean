import BridgeVerif.Lemmas.Session
import BridgeVerif.Lemmas.CheckMessage
import BridgeVerif.Lemmas.SeatThread
/-!
# C09 — A session with four conforming clients always runs to completion

The nine threads of a session (main, four seat threads, four clients) are the straight-line programs
`sessionProg sc t` of Model/Session.lean (checked against the real threads, operation by operation, by the
correspondence run under the deterministic scheduler).  A *run* is ANY sequence of enabled steps — i.e. any
interleaving whatsoever, with any thread delayed for as long as one likes.
-/
namespace Bridge.C09

/-- every channel of the session has exactly one writer thread and one reader thread -/
theorem session_disciplined (sc : Scenario) : Disciplined Chan.wr Chan.rd (sessionProg sc) := by
  exact progOfPhases_disciplined (sessionPhases sc)

/-- total number of synchronisation steps of a session -/
def totalSteps (sc : Scenario) : Nat := (Tid.all.map fun t => (sessionProg sc t).length).sum

/-- there IS a run of the whole session to the state where all nine threads have finished and all
sixteen channels are empty -/
theorem canonical_run_terminates (sc : Scenario) :
    ∃ ts nf, Run parties (Net.init (sessionProg sc)) ts nf ∧ AllDone nf ∧ (∀ c, nf.chan c = []) := by
  exact progOfPhases_run (sessionPhases sc)

/-- **No lost wake-up**: once a thread can move, no step of any other thread takes that away -/
theorem no_lost_wakeup (sc : Scenario) (us : List Tid) (n n1 : Net Tid Chan Text LogOp) (t u : Tid)
    (hr : Run parties (Net.init (sessionProg sc)) us n) (htu : t ≠ u)
    (ht : step parties n t = some n1) (hu : (step parties n u).isSome) : (step parties n1 u).isSome := by
  exact step_persistent (run_disciplined (session_disciplined sc) hr) htu ht hu

/-- **Main theorem.** Whatever the interleaving so far (`us` is arbitrary), the session can always be
continued, every continuation is finite (the total number of steps is fixed), and it ends with all nine
threads finished, all channels drained, every channel having carried exactly the messages of the
specification, and main having emitted exactly the specified log operations. -/
theorem session_always_completes (sc : Scenario) (us : List Tid) (n' : Net Tid Chan Text LogOp)
    (hr : Run parties (Net.init (sessionProg sc)) us n') :
    ∃ vs nf, Run parties n' vs nf ∧ us.length + vs.length = totalSteps sc ∧
      AllDone nf ∧ (∀ c, nf.chan c = []) ∧
      (∀ c, nf.hist c = sendsOn c (sessionProg sc c.wr)) ∧
      (∀ t, nf.outs t = emitsOf (sessionProg sc t)) := by
  obtain ⟨ts, nf, hrun, hdone, hchan⟩ := canonical_run_terminates sc
  have hd := session_disciplined sc
  obtain ⟨vs, hvs, hlen⟩ := confluence hd hrun (allDone_stuck hdone) us n' hr
  have hts : ts.length = totalSteps sc := by
    have h := run_remaining Tid.nodup_all Tid.mem_all hrun
    rw [allDone_remaining hdone] at h
    simpa [totalSteps, Net.remaining, Net.init] using h.symm
  refine ⟨vs, nf, hvs, by omega, hdone, hchan, ?_, ?_⟩
  · intro c
    have h := run_hist hd hrun c
    rwa [hdone, sendsOn, List.append_nil] at h
  · intro t
    have h := run_outs hrun t
    rwa [hdone, emitsOf, List.append_nil] at h

/-- no run is longer than the fixed total: there are no infinite executions (no spinning, no livelock) -/
theorem runs_are_bounded (sc : Scenario) (us : List Tid) (n' : Net Tid Chan Text LogOp)
    (hr : Run parties (Net.init (sessionProg sc)) us n') : us.length ≤ totalSteps sc := by
  obtain ⟨vs, nf, _, hlen, _⟩ := session_always_completes sc us n' hr
  omega

/-- **No deadlock**: the only state in which nobody can move is the completed session -/
theorem never_deadlocks (sc : Scenario) (us : List Tid) (n' : Net Tid Chan Text LogOp)
    (hr : Run parties (Net.init (sessionProg sc)) us n') (hs : Stuck parties n') :
    AllDone n' ∧ (∀ c, n'.chan c = []) ∧ (∀ c, n'.hist c = sendsOn c (sessionProg sc c.wr)) ∧
    (∀ t, n'.outs t = emitsOf (sessionProg sc t)) := by
  obtain ⟨vs, nf, hvs, _, hdone, hchan, hhist, houts⟩ := session_always_completes sc [] _ (Run.nil _)
  obtain ⟨rfl, _⟩ := maximal_runs_agree (session_disciplined sc) hvs (allDone_stuck hdone) hr hs
  exact ⟨hdone, hchan, hhist, houts⟩

/-- every client is sent "End of session" as its last message (sessions over a non-empty board list) -/
theorem end_of_session_is_last (sc : Scenario) (h : sc.boards ≠ []) (p : Seat) :
    (sendsOn (Chan.s2c p) (sessionProg sc (.seat p))).getLast? = some MSG_END := by
  exact session_last_s2c sc h p

/-- main opens the log first, writes one record per configured board in order, and closes it last -/
theorem log_is_opened_written_closed (sc : Scenario) (h : sc.boards ≠ []) :
    emitsOf (sessionProg sc .main) =
      LogOp.open :: (sc.boards.map fun bd => LogOp.write (recordOf sc bd.1 bd.2)) ++ [LogOp.close] := by
  exact session_log sc h

/-- what "conforming" means for the `ready for …` messages the seat threads check (`PlayerThread._check_message`):
any text that equals the expected one up to letter case and up to the length of each white-space run is accepted —
in particular the expected text itself (the session model's clients send exactly it) -/
theorem ready_messages_pass_the_server_check (e r : List Char) (h : ReadyVariant e r) : checkMessage e r = true :=
  checkMessage_variant h

/-- **The seat thread as the code writes it.**  `seatReactive` (Model/SeatThread.lean) is `PlayerThread.run` / `_deal` /
`_bidding_phase` / `_playing_phase` written the way the Python is: its control flow is decided only by the messages it
takes from its own queue, with its own trick counter and its own seat-on-turn bookkeeping, and it forwards what it
receives.  Fed the messages main queues for it and the messages its client sends in a session, it performs exactly the
straight-line program the completion theorems above are about.  (`ScenarioPlayable`: a board that is played has 52 cards.) -/
theorem seat_thread_follows_its_queue (sc : Scenario) (h : sc.boards ≠ []) (hw : ScenarioPlayable sc) (p : Seat) :
    seatReactive p (teamsMsg sc.nsName sc.ewName)
        (sendsOn (Chan.m2t p) (sessionProg sc .main))
        (sendsOn (Chan.c2s p) (sessionProg sc (.client p)))
      = some (sessionProg sc (.seat p)) :=
  seatReactive_session sc h hw p

example : checkMessage "North ready for East's bid".toList "NORTH   ready\tfor east's BID".toList = true := by decide

end Bridge.C09
