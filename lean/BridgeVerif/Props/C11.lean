import BridgeVerif.Lemmas.Replica
import BridgeVerif.Lemmas.ClientThread
/-!
# C11 — All replicas of a board agree with the table manager

In-process half (a single-seat observer fed the public sequence of plays): Props/C11a.lean, re-exported below.
Protocol half: each network client, following a board from the messages it receives (Spec/Replica.lean:
`clientCalls`, `clientPlay`), holds the same auction and the same public play state as the table manager
(`serverCalls`, `serverPlay`), never rejects what the table manager accepted, and the bundled example client
(`WeakBid` + `RandomPlay`) is a conforming client — so it completes every session (C09).
-/
namespace Bridge.C11

/-- the table manager reads exactly the calls the seats decided on … -/
theorem server_reads_the_calls (b : BoardSetting) (d : Decisions) (ht : TextsConform b d) :
    serverCalls b.dealer 0 d.calls = some (d.calls.map (·.1)) :=
  serverCalls_conform b d ht

/-- … and so does every client, from its own decisions and the relays: at every point of the auction (every prefix
of the calls) the client's auction replica IS the table manager's — same history, same turn, same available
calls, same doubling state — and at the end both report the same contract with the same declarer -/
theorem client_auction_replica (b : BoardSetting) (d : Decisions) (ht : TextsConform b d) (p : Seat) (k : Nat) :
    ∃ cs, clientCalls p b.dealer 0 (d.calls.take k) = some cs ∧
          serverCalls b.dealer 0 (d.calls.take k) = some cs ∧
          auctionAfter b cs = auctionAfter b ((d.calls.take k).map (·.1)) :=
  clientCalls_conform b d ht p k

theorem client_contract_is_servers (b : BoardSetting) (d : Decisions) (ht : TextsConform b d) (p : Seat) :
    ∃ cs, clientCalls p b.dealer 0 d.calls = some cs ∧ (auctionAfter b cs).contract = contractOfCalls b (d.calls.map (·.1)) :=
  client_contract b d ht p

/-- the table manager plays exactly the cards the seats decided on: with conforming players it never raises and
ends in the state of the full-information game after those cards -/
theorem server_plays_the_cards (b : BoardSetting) (d : Decisions) (ht : TextsConform b d) (hp : ConformingPlay b d)
    (w0 : WithHands) (hw : WithHands.init (boardContract b d) b.deal = some w0) :
    serverPlay w0 d.cards = playsAccepted w0 (d.cards.map (·.1)) ∧ (serverPlay w0 d.cards).isSome = true :=
  serverPlay_conform b d ht hp w0 hw

/-- **the client's play replica**: for every seat (dummy included), after every prefix of the cards, the client has
not raised, and its replica is related to the table manager's game: same contract data, declarer, dummy, turn,
trick number, leaders, trick history and trick counts (`ObsRel.base` : the public `PState`s are EQUAL), its own
remaining hand is the true one, and the dummy hand it tracks is dummy's true remaining hand -/
theorem client_play_replica (b : BoardSetting) (d : Decisions) (ht : TextsConform b d) (hp : ConformingPlay b d)
    (decl : Seat) (hdecl : (boardContract b d).declarer = some decl) (p : Seat)
    (w0 : WithHands) (hw : WithHands.init (boardContract b d) b.deal = some w0)
    (o0 : Observed) (ho : Observed.init (boardContract b d) p (b.deal p) = some o0) (k : Nat) :
    ∃ w o, serverPlay w0 (d.cards.take k) = some w ∧
           clientPlay p decl (b.deal decl.partner) o0 0 (d.cards.take k) = some o ∧ ObsRel w o :=
  clientPlay_conform b d ht hp decl hdecl p w0 hw o0 ho k

/-- the bundled example client is a conforming client: whatever the deal (four 13-card hands) and whatever
`random.choice` returns, the decisions of four `WeakBid` + `RandomPlay` clients form a complete legal auction
(1♣ – pass – pass – pass), 52 accepted plays, and texts that mean what was decided -/
theorem bundled_clients_conform (b : BoardSetting) (choose : List Card → Card) (hc : ChoiceOK choose)
    (hdeal : PartialDeal b.deal) (h13 : ∀ p, (b.deal p).length = 13) :
    ConformingAuction b (bundledDecisions b choose) ∧ ConformingPlay b (bundledDecisions b choose) ∧
    TextsConform b (bundledDecisions b choose) :=
  bundled_conform b choose hc hdeal h13

/-- hence the bundled client completes every session the server completes: a session of four bundled clients over
any non-empty list of proper boards is a session of conforming clients, and every schedule of it runs to
completion (C09.session_always_completes applies to the scenario) -/
theorem bundled_client_completes_session (ns ew : Text) (bs : List BoardSetting) (choose : List Card → Card)
    (us : List Tid) (n' : Net Tid Chan Text LogOp)
    (hr : Run parties (Net.init (sessionProg ⟨ns, ew, bs.map fun b => (b, bundledDecisions b choose)⟩)) us n') :
    ∃ vs nf, Run parties n' vs nf ∧ AllDone nf ∧ (∀ c, nf.chan c = []) :=
  bundled_session_completes ns ew bs choose us n' hr

/-- **The bundled client as the code writes it.**  `clientReactive` (Model/ClientThread.lean) is `Client.run` / `_deal` /
`bidding_phase` / `playing_phase` written the way the Python is: it parses the Teams message, every board header, its
own cards, every relayed call and card, the lead prompts and dummy's cards, keeps its OWN auction and its OWN
`ObservedPlayingPhase`, decides from those replicas whose turn it is, and sends its systems' decisions as
`create_bid_message` / `card_str` texts.  Fed what the seat thread sends on its connection in a session with conforming
players (texts meaning what was decided, proper hands, team names without a quote), it never raises, never blocks, and
performs exactly the client program of the session model — for every seat, dummy and declarer included. -/
theorem bundled_client_follows_the_messages (sc : Scenario) (h : sc.boards ≠ []) (p : Seat)
    (hc : ∀ bd ∈ sc.boards, ConformingAuction bd.1 bd.2 ∧ ConformingPlay bd.1 bd.2 ∧ TextsConform bd.1 bd.2)
    (hb : BundledTexts sc p)
    (hd : ∀ bd ∈ sc.boards, PartialDeal bd.1.deal ∧ ∀ q, (bd.1.deal q).length = 13)
    (hn : NameOK sc.nsName ∧ NameOK sc.ewName) :
    clientReactive p (scenarioOwnCalls sc p) (scenarioOwnCards sc p)
        (sendsOn (Chan.s2c p) (sessionProg sc (.seat p)))
      = some (sessionProg sc (.client p)) :=
  clientReactive_session sc h p hc hb hd hn

end Bridge.C11
