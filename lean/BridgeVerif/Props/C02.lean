import BridgeVerif.Lemmas.Auction
/-!
# C02 — The auction proceeds clockwise from the dealer and ends exactly when it must
`EndedLaw h` : four passes open the auction, or three consecutive passes follow a bid, double or redouble.
-/
namespace Bridge.C02

/-- the turn rotates clockwise starting with the dealer -/
theorem turn_rotates (d : Seat) (c : Call) (h : List Call) :
    turn d [] = d ∧ turn d (c :: h) = (turn d h).left := ⟨rfl, rfl⟩

/-- the seat the model reports on turn is the Laws' turn while the auction is open, and nobody afterwards -/
theorem active_is_turn (d : Seat) (v : Vul) (s : AState) (h : List Call) (hr : Reach d v s h) :
    (¬ EndedLaw h → s.active = some (turn d h)) ∧ (EndedLaw h → s.active = none) := by
  have := hr.inv.act
  constructor
  · intro hn
    have : over h = false := by
      cases ho : over h with
      | false => rfl
      | true => exact absurd (ended_law_of_over d h hr.leg ho) hn
    simp [hr.inv.act, this, turn]
  · intro he
    simp [hr.inv.act, over_of_ended_law h he]

/-- each seat's personal call list is exactly its share of the common history -/
theorem per_seat_is_share (d : Seat) (v : Vul) (s : AState) (h : List Call) (hr : Reach d v s h)
    (p : Seat) : s.perSeat p = share d h p := hr.inv.ps p

/-- `share` is what it should be: the newest call belongs to the seat that was on turn, nobody else's list moves -/
theorem share_step (d : Seat) (c : Call) (h : List Call) (p : Seat) :
    share d (c :: h) p = if turn d h = p then c :: share d h p else share d h p := rfl

/-- the model reports "done" exactly when the Law says the auction has ended -/
theorem over_iff_ended_law (d : Seat) (v : Vul) (s : AState) (h : List Call) (hr : Reach d v s h) :
    s.hasDone = true ↔ EndedLaw h := by
  constructor
  · intro hd
    cases ho : over h with
    | true => exact ended_law_of_over d h hr.leg ho
    | false => simp [AState.hasDone, hr.inv.act, ho] at hd
  · intro he
    simp [AState.hasDone, hr.inv.act, over_of_ended_law h he]

/-- an accepted call finishes the auction iff the new history is ended by the Law — never earlier, never later -/
theorem finishes_iff_ended (d : Seat) (v : Vul) (s : AState) (h : List Call) (hr : Reach d v s h)
    (hn : ¬ EndedLaw h) (c : Call) (hl : legalLaw d h c = true) :
    ∃ s', Reach d v s' (c :: h) ∧
      ((EndedLaw (c :: h) ∧ takeBid s c = .ok (s', .finished)) ∨
       (¬ EndedLaw (c :: h) ∧ takeBid s c = .ok (s', .ongoing))) := by
  have ho : over h = false := by
    cases ho : over h with
    | false => rfl
    | true => exact absurd (ended_law_of_over d h hr.leg ho) hn
  rw [legalLaw_eq_legal d h hr.leg] at hl
  obtain ⟨s', e, hi'⟩ := (take_bid_refines d v s h hr.inv c).2.2 ho hl
  have hl' : Legal d (c :: h) := .cons hr.leg ho hl
  refine ⟨s', ⟨hi', hl'⟩, ?_⟩
  cases ho' : over (c :: h) with
  | true => left; exact ⟨ended_law_of_over d _ hl' ho', by simpa [ho'] using e⟩
  | false =>
    right
    refine ⟨fun he => ?_, by simpa [ho'] using e⟩
    rw [over_of_ended_law _ he] at ho'; cases ho'

/-- once the auction has ended every further call is refused with an error; `takeBid` returns no new state,
so nothing changes any more -/
theorem after_end_raises_and_unchanged (d : Seat) (v : Vul) (s : AState) (h : List Call)
    (hr : Reach d v s h) (he : EndedLaw h) (c : Call) : takeBid s c = .error () :=
  (take_bid_refines d v s h hr.inv c).1 (over_of_ended_law h he)

/-- ... and consequently a whole sequence of further calls leaves the state untouched -/
theorem after_end_run_unchanged (d : Seat) (v : Vul) (s : AState) (h : List Call)
    (hr : Reach d v s h) (he : EndedLaw h) (ops : List Call) : (runAuction s ops).1 = s := by
  induction ops with
  | nil => rfl
  | cons c cs ih =>
    simp only [runAuction, after_end_raises_and_unchanged d v s h hr he c]
    exact ih

/-- every auction terminates: no history the Laws allow is longer than 319 calls -/
theorem auction_terminates (d : Seat) (h : List Call) (hl : LegalLaw d h) : h.length ≤ 319 :=
  legal_length_le_319 d h ((legal_iff_legalLaw d h).2 hl)

/-! ### non-vacuity -/
/-- the longest auction: P P P then 35 × (bid P P X P P XX P P) then P — 319 calls, and it is legal -/
def longest : List Call :=
  [.pass, .pass, .pass] ++
  ((List.range 35).filterMap fun i =>
      if h : i < 35 then some [Call.bid ⟨i, h⟩, .pass, .pass, .dbl, .pass, .pass, .rdbl, .pass, .pass]
      else none).flatten ++ [.pass]

theorem bound_is_attained :
    LegalLaw .N (acceptedLaw .N [] longest) ∧ (acceptedLaw .N [] longest).length = 319 ∧
      endedB (acceptedLaw .N [] longest) = true := by
  refine ⟨?_, by decide +kernel, by decide +kernel⟩
  rw [← legal_iff_legalLaw, acceptedLaw_eq .N longest [] .nil]
  exact accepted_legal .N longest [] .nil

/-- `P P P 1C` is not ended, `1C P P X P P P` and `P P P P` are (histories newest first) -/
example : ¬ EndedLaw [.bid ⟨0, by omega⟩, .pass, .pass, .pass] := by
  rw [← endedB_iff]; decide
example : EndedLaw [.pass, .pass, .pass, .dbl, .pass, .pass, .bid ⟨0, by omega⟩] := by
  rw [← endedB_iff]; decide
example : EndedLaw [.pass, .pass, .pass, .pass] := by rw [← endedB_iff]; decide

end Bridge.C02
