import BridgeVerif.Props.C16
import BridgeVerif.Translated.Imps
/-!
# C16 — the same statements for the code AS TRANSLATED from the source on this run
(kept apart from Props/C16.lean so that the lemma files which reuse the property theorems do not depend on the generated
program; audited with the property)
-/
namespace Bridge.C16t
open Bridge.C16

/-! ## The same, for the code AS TRANSLATED from bridge_env/score.py on this run
(`Generated/PyCore.lean` executed by the MiniPy interpreter; symbolic execution, every integer) -/

open Bridge.Py Bridge.Generated.PyCore in
/-- THE TRANSLATED `point_difference_to_imps` returns the official scale for every integer -/
theorem translated_imps_is_scale (d : Int) :
    (Translated.fn n_point_difference_to_imps [.int d]).int? = some (impsSpec d) := by
  rw [Translated.point_difference_to_imps_translated, imps_is_scale]

open Bridge.Py Bridge.Generated.PyCore in
/-- THE TRANSLATED `score_to_imp` is the scale applied to the sum -/
theorem translated_score_to_imp_is_sum (a b : Int) :
    (Translated.fn n_score_to_imp [.int a, .int b]).int? = some (impsSpec (a + b)) := by
  rw [Translated.score_to_imp_translated, score_to_imp_is_sum]


end Bridge.C16t
