import BridgeVerif.Lemmas.PbnImport
import BridgeVerif.Props.C12
/-!
# C17 — Board-settings files are read back as the boards that were written, in order

JSON: `settingsText es` is what `JsonBoardSettingWriter` writes; `parseBoardSettings?` is
`JsonParser.parse_board_settings`.  PBN: `FileL` (Spec/PbnLayout.lean) describes the import layouts the property
quantifies over; `f.lines` are the lines the file object yields; `pbnBoardSettings?` is
`PbnParser.parse_board_settings`.
-/
namespace Bridge.C17

/-! ## JSON -/
/-- any list of boards (none included) is written as ONE JSON document `{"board_settings": [...]}` -/
theorem settings_document_is_json (es : List SettingEntry) (h : ∀ e ∈ es, e.WF) :
    jsonLoad (settingsText es) = some (settingsDoc es) := by
  have := jsonLoad_frame (jkey "board_settings") C12.tag_settings_plain (es.map settingJson) (by
    intro j hj
    obtain ⟨e, he, rfl⟩ := List.mem_map.1 hj
    exact settingJson_wf e (h e he))
  simpa [settingsText, settingsDoc, List.map_map, Function.comp_def] using this

/-- it is read back as the same boards in the same order — identifier, dealer, vulnerability, the four hands (as
sets, listed ascending), the double-dummy table included -/
theorem settings_round_trip (es : List SettingEntry) (h : ∀ e ∈ es, e.WF) :
    parseBoardSettings? (settingsText es) = some (es.map SettingEntry.readBack) ∧
    ∀ e ∈ es, e.readBack.boardId = e.boardId ∧ e.readBack.dealer = e.dealer ∧ e.readBack.vul = e.vul ∧
      e.readBack.dda = e.dda ∧ ∀ p, (e.readBack.deal p).Perm (e.deal p) := by
  have hm : (es.map settingJson).mapM settingOfJson? = some (es.map SettingEntry.readBack) :=
    C12.mapM_map_of_forall settingOfJson? settingJson SettingEntry.readBack es
      fun e he => settingOfJson_settingJson e (h e he)
  refine ⟨?_, fun e _ => ⟨rfl, rfl, rfl, rfl, fun p => sortAsc_perm (e.deal p)⟩⟩
  have hno : (settingsDoc es).get? (jkey "logs") = none := by
    simp [settingsDoc, Json.get?, jkey]
  simp [parseBoardSettings?, settings_document_is_json es h, hno]
  simp [settingsDoc, Json.get?, Json.arr?, hm]

/-- it conforms to the published board-settings schema (translated from the repository on every run) -/
theorem settings_validate (es : List SettingEntry) (h : ∀ e ∈ es, e.WF)
    (hc : ∀ e ∈ es, ∀ d, e.dda = some d → DdaComplete d) :
    ∃ doc, jsonLoad (settingsText es) = some doc ∧ validate Generated.settingSchema doc = true :=
  ⟨settingsDoc es, settings_document_is_json es h,
    validate_settingsDoc es fun e he d hd => ⟨hc e he d hd, (h e he).dda d hd⟩⟩

/-! ## PBN -/
/-- the text of an admissible file is cut into exactly the rendered lines, whether it is read through
`io.StringIO` or through `open()` (universal newlines: CR LF becomes LF) — and the LF form is admissible too -/
theorem pbn_lines_of_text (f : FileL) (hf : f.Admissible) :
    pyLines f.text = f.lines ∧
    pyLines (universalNewlines f.text) = ({ f with eol := ['\n'] } : FileL).lines ∧
    ({ f with eol := ['\n'] } : FileL).Admissible :=
  ⟨pyLines_text f hf, pyLines_universal f hf, admissible_lf f hf⟩

/-- every admissible file is read as one game per rendered game, in order, whatever the number of blank lines
before, between and after the games, the header lines, the extra tags and table rows; in each game a tag has the
value of its FIRST occurrence -/
theorem first_occurrence_wins (f : FileL) (hf : f.Admissible) :
    parseStream f.lines = f.games.map (fun g => firstWins g.tagList []) ∧
    ∀ g ∈ f.games, ∀ name, gameGet? (firstWins g.tagList []) name = g.firstTag? name :=
  ⟨parseStream_layout f hf, fun g _ name => gameGet_layout g name⟩

/-- **Main theorem (PBN).** Any list of boards rendered as an admissible import file — deal written from any first
seat, tags in any order, additional tags and rows, header lines, LF or CRLF, one or more blank lines between, any
number before and after the games, any accepted vulnerability spelling — is read as those boards, in order, with the
same deal, dealer, vulnerability and board id -/
theorem pbn_import_round_trip (f : FileL) (hf : f.Admissible) (bs : List SettingEntry)
    (hlen : f.games.length = bs.length)
    (hd : ∀ i (h₁ : i < f.games.length) (h₂ : i < bs.length), f.games[i].Describes bs[i])
    (hw : ∀ b ∈ bs, PartialDeal b.deal) :
    ∃ rs, pbnBoardSettings? (pyLines f.text) = some rs ∧ rs.length = bs.length ∧
      ∀ i (h₁ : i < rs.length) (h₂ : i < bs.length), SameBoard rs[i] bs[i] := by
  rw [pyLines_text f hf]
  exact pbnBoardSettings_layout_getElem f hf bs hlen hd hw

/-- the same through `open()` -/
theorem pbn_import_round_trip_universal (f : FileL) (hf : f.Admissible) (bs : List SettingEntry)
    (hlen : f.games.length = bs.length)
    (hd : ∀ i (h₁ : i < f.games.length) (h₂ : i < bs.length), f.games[i].Describes bs[i])
    (hw : ∀ b ∈ bs, PartialDeal b.deal) :
    ∃ rs, pbnBoardSettings? (pyLines (universalNewlines f.text)) = some rs ∧ rs.length = bs.length ∧
      ∀ i (h₁ : i < rs.length) (h₂ : i < bs.length), SameBoard rs[i] bs[i] := by
  rw [pyLines_universal f hf]
  exact pbnBoardSettings_layout_getElem _ (admissible_lf f hf) bs hlen hd hw

/-- the behaviour before the two repairs of the reader, kernel-evaluated on concrete files: a leading blank line
made `parse_board_settings` raise; a double space inside a value was collapsed -/
theorem old_reader_defects :
    (pbnBoardSettingsOld? ["\n".toList, "[Deal \"N:- - - -\"]\n".toList, "[Dealer \"N\"]\n".toList,
      "[Vulnerable \"None\"]\n".toList, "[Board \"1\"]\n".toList] = none) ∧
    (parseStreamOld ["[Board \"2  x\"]\n".toList] = [[("Board".toList, "2 x".toList)]]) :=
  ⟨old_parser_rejects_leading_blank_line.1, old_parser_changes_value.1⟩

/-! ### non-vacuity: a CRLF file with a header, a leading blank line, two games separated by two blank lines, tags
out of order with an inner space, an extra tag, a duplicate, a row — is admissible and describes its two boards -/
def exFile : FileL :=
  { header := ["% PBN 2.1".toList], leading := [" ".toList],
    games := [
      { items := [.tag "Board".toList "2  x".toList true false [],
                  .tag "Vulnerable".toList "Love".toList false true "  ".toList,
                  .row "1C Pass;x".toList,
                  .tag "Deal".toList "E:- - - -".toList false false [],
                  .tag "Dealer".toList "S".toList false false [],
                  .tag "Board".toList "other".toList false false []],
        seps := [[], "\t".toList] },
      { items := [.tag "Dealer".toList "N".toList false false [],
                  .tag "Deal".toList "N:- - - -".toList false false [],
                  .tag "Event".toList "".toList false false [],
                  .tag "Vulnerable".toList "All".toList false false [],
                  .tag "Board".toList "7".toList false false []],
        seps := [] }],
    eol := ['\r', '\n'] }
example : parseStream exFile.lines = exFile.games.map (fun g => firstWins g.tagList []) := by decide +kernel
example : (pbnBoardSettings? (pyLines exFile.text)).map (fun l => l.map fun s => (s.boardId, s.dealer, s.vul)) =
    some [("2  x".toList, .S, .none), ("7".toList, .N, .both)] := by decide +kernel

end Bridge.C17
