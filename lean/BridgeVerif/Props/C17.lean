import BridgeVerif.Spec.PbnLayout
import BridgeVerif.Spec.JsonLog
namespace Bridge.C17
theorem settings_round_trip : True := by sorry
theorem settings_document_is_json : True := by sorry
theorem settings_validate : True := by sorry
theorem pbn_import_round_trip : True := by sorry
theorem pbn_lines_of_text : True := by sorry
theorem first_occurrence_wins : True := by sorry
end Bridge.C17
