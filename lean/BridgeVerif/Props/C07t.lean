import BridgeVerif.Props.C07
import BridgeVerif.Translated.Score
import BridgeVerif.Translated.Contract
import BridgeVerif.Translated.CalcScore
/-!
# C07 — the same statements for the code AS TRANSLATED from the source on this run
(kept apart from Props/C07.lean so that the lemma files which reuse the property theorems do not depend on the generated
program; audited with the property)
-/
namespace Bridge.C07t
open Bridge.C07

/-! ## The same, for the code AS TRANSLATED from bridge_env/score.py on this run
(`Generated/PyCore.lean` executed by the MiniPy interpreter; kernel evaluation over the complete domain) -/

open Bridge.Py Bridge.Generated.PyCore in
/-- THE TRANSLATED `calc_bid_score` is the duplicate scoring law on its whole domain -/
theorem translated_calc_bid_score_is_law (b : Fin 35) (x xx vul : Bool) (t : Nat) (ht : t ≤ 13) :
    (Translated.fn n_calc_bid_score [Translated.encBid b, .bool x, .bool xx, .bool vul, .int t]).int?
      = some (dupScore (bidLevel b) (bidDenom b) (status x xx) vul t) :=
  Translated.calc_bid_score_translated_is_law b x xx vul t ht

open Bridge.Py Bridge.Generated.PyCore in
/-- THE TRANSLATED `calc_bid_score` refuses Pass, X and XX -/
theorem translated_calc_bid_score_rejects_non_bids : ∀ v : Fin 3, ∀ x xx vul : Bool, ∀ t : Fin 14,
    (Translated.fn n_calc_bid_score [.enum n_Bid (36 + v.val), .bool x, .bool xx, .bool vul, .int t.val]).exc?
      = some K.ValueError :=
  Translated.calc_bid_score_translated_rejects_non_bids

/-- THE TRANSLATED `Contract` (constructor, `is_vul`, `is_passed_out`, `level`, `trump`, texts) is the model of it on
every contract value — in particular `is_vul` is declarer's side's vulnerability and raises without a declarer exactly
when one side only is vulnerable -/
theorem translated_contract_is_model (c : Contract) : Translated.contractAgrees c = true :=
  Translated.contract_class_translated c


open Bridge.Py Bridge.Generated.PyCore in
/-- THE TRANSLATED public entry `calc_score(contract, taken_tricks)` — the one that derives the vulnerability from the
board's vulnerability and the declarer — is the duplicate scoring law from declarer's side, on every contract with a
declarer and 0..13 tricks (symbolic execution of `calc_score` and `Contract.is_vul`, the nested `calc_bid_score` by the
kernel-evaluated theorem lifted to every fuel) -/
theorem translated_calc_score_is_law (b : Fin 35) (x xx : Bool) (v : Vul) (d : Seat) (t : Nat) (ht : t ≤ 13) :
    (Translated.fn n_calc_score [Translated.encContract ⟨some b, x, xx, v, some d⟩, .int t]).int?
      = some (dupScore (bidLevel b) (bidDenom b) (status x xx) (sideVulnerable v d) t) :=
  Translated.calc_score_translated_is_law b x xx v d t ht

open Bridge.Py Bridge.Generated.PyCore in
/-- a passed-out contract scores 0 -/
theorem translated_calc_score_passed_out (x xx : Bool) (v : Vul) (d : Option Seat) (t : Nat) :
    (Translated.fn n_calc_score [Translated.encContract ⟨none, x, xx, v, d⟩, .int t]).int? = some 0 :=
  Translated.calc_score_translated_passed_out x xx v d t

end Bridge.C07t
