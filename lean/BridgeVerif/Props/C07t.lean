import BridgeVerif.Props.C07
import BridgeVerif.Translated.Score
import BridgeVerif.Translated.Contract
/-!
# C07 — the same statements for the code AS TRANSLATED from the source on this run
(kept apart from Props/C07.lean so that the lemma files which reuse the property theorems do not depend on the generated
program; audited with the property)
-/
namespace Bridge.C07t
open Bridge.C07

/-! ## The same, for the code AS TRANSLATED from bridge_env/score.py on this run
(`Generated/PyCore.lean` executed by the MiniPy interpreter; kernel evaluation over the complete domain) -/

open Bridge.Py Bridge.Generated.PyCore in
/-- THE TRANSLATED `calc_bid_score` is the duplicate scoring law on its whole domain -/
theorem translated_calc_bid_score_is_law (b : Fin 35) (x xx vul : Bool) (t : Nat) (ht : t ≤ 13) :
    (Translated.fn n_calc_bid_score [Translated.encBid b, .bool x, .bool xx, .bool vul, .int t]).int?
      = some (dupScore (bidLevel b) (bidDenom b) (status x xx) vul t) :=
  Translated.calc_bid_score_translated_is_law b x xx vul t ht

open Bridge.Py Bridge.Generated.PyCore in
/-- THE TRANSLATED `calc_bid_score` refuses Pass, X and XX -/
theorem translated_calc_bid_score_rejects_non_bids : ∀ v : Fin 3, ∀ x xx vul : Bool, ∀ t : Fin 14,
    (Translated.fn n_calc_bid_score [.enum n_Bid (36 + v.val), .bool x, .bool xx, .bool vul, .int t.val]).exc?
      = some K.ValueError :=
  Translated.calc_bid_score_translated_rejects_non_bids

/-- THE TRANSLATED `Contract` (constructor, `is_vul`, `is_passed_out`, `level`, `trump`, texts) is the model of it on
every contract value — in particular `is_vul` is declarer's side's vulnerability and raises without a declarer exactly
when one side only is vulnerable -/
theorem translated_contract_is_model (c : Contract) : Translated.contractAgrees c = true :=
  Translated.contract_class_translated c


end Bridge.C07t
