import BridgeVerif.Lemmas.SessionC10
/-!
# C10 — Each seat is told exactly what the protocol entitles it to, and nothing else

`seatEvents sc p` (Spec/SessionSpec.lean) is the declarative list of what seat `p` may be told; the theorems
say that, whatever the interleaving, the bytes the server sends on `p`'s connection are exactly the rendering of
that list, and spell out the entitlements.
-/
namespace Bridge.C10

/-- what the seat thread of `p` sends on the connection is the specified stream -/
theorem s2c_history_is_seat_stream (sc : Scenario) (p : Seat) :
    sendsOn (Chan.s2c p) (sessionProg sc (.seat p)) = seatStream sc p := by
  exact session_s2c sc p

/-- … in every schedule: in any state where nobody can move any more (and every run reaches one, C09), the
history of `p`'s connection is the specified stream; and at any earlier moment it is a prefix of it -/
theorem streams_independent_of_schedule (sc : Scenario) (us : List Tid) (n : Net Tid Chan Text LogOp)
    (hr : Run parties (Net.init (sessionProg sc)) us n) (p : Seat) :
    (∃ rest, n.hist (Chan.s2c p) ++ rest = seatStream sc p) ∧
    (Stuck parties n → n.hist (Chan.s2c p) = seatStream sc p) := by
  exact session_hist_prefix sc us n hr p

/-- a seat is shown its own thirteen cards once per board, straight after the board header, and the only other
hand it is ever shown is dummy's -/
theorem own_cards_only (p : Seat) (k : Nat) (last : Bool) (b : BoardSetting) (d : Decisions) :
    ∃ rest, boardEvents p k last b d = SEvent.header k b.dealer b.vul :: SEvent.ownCards (b.deal p) :: rest ∧
      (∀ h, SEvent.ownCards h ∉ rest) ∧
      (∀ h, SEvent.dummyCards h ∈ rest →
        ∃ decl, (boardContract b d).declarer = some decl ∧ h = b.deal decl.partner ∧ p ≠ decl.partner) := by
  obtain ⟨rest, h1, h2, _, h4⟩ := boardEvents_own_cards p k last b d
  exact ⟨rest, h1, h2, h4⟩

/-- every board starts with the configured number (its position in the list), dealer and vulnerability -/
theorem board_header_is_configured (p : Seat) (k : Nat) (last : Bool) (b : BoardSetting) (d : Decisions) :
    (boardEvents p k last b d).head? = some (SEvent.header k b.dealer b.vul) ∧
    (∀ n dl v, SEvent.header n dl v ∈ boardEvents p k last b d → n = k ∧ dl = b.dealer ∧ v = b.vul) := by
  obtain ⟨rest, h1, _, h3, _⟩ := boardEvents_own_cards p k last b d
  rw [h1]
  refine ⟨rfl, ?_⟩
  intro n dl v hm
  simp only [List.mem_cons, SEvent.header.injEq, reduceCtorEq, false_or] at hm
  rcases hm with hm | hm
  · exact hm
  · exact absurd hm (h3 n dl v)

/-- the relays of the auction on `p`'s connection are exactly the calls of the other three seats, each once, in
the order they were made -/
theorem relay_exactly_once_in_order (p dealer : Seat) (calls : List (Call × Text)) :
    callEvents p dealer 0 calls =
      ((calls.zipIdx).filter fun x => decide (dealer.rot x.2 ≠ p)).map
        fun x => SEvent.relayCall (dealer.rot x.2) (preprocessBid x.1.2) := by
  exact callEvents_eq_filter p dealer calls 0

/-- the card relays on `p`'s connection are exactly the cards that did not arrive on that connection (declarer
sends dummy's), each once, in the order played -/
theorem card_relay_exactly_once_in_order (p decl : Seat) (dh : List Card) (s0 : PState) (cards : List (Card × Text)) :
    (cardEvents p decl dh s0 0 cards).filterMap (fun e => match e with | .relayCard a t => some (a, t) | _ => none) =
      ((cards.zipIdx).filterMap fun x =>
        let a := (runPlay s0 ((cards.take x.2).map (·.1))).active
        if senderOf decl a = p then none else some (a, x.1.2)) := by
  exact cardEvents_relays p decl dh s0 0 cards

/-- dummy's cards are shown to the three other seats only: never to dummy, and to each of the others exactly once,
after the opening lead (after its relay, or for the leader after having been prompted and having sent it) and
before anything about the second card -/
theorem dummy_disclosed_between_lead_and_second_card (p decl : Seat) (dh : List Card) (s0 : PState)
    (c : Card) (text : Text) (rest : List (Card × Text)) :
    cardEvents p decl dh s0 0 ((c, text) :: rest) =
      (if s0.trick = [] ∧ senderOf decl s0.active = p then [SEvent.leadPrompt s0.active (decide (s0.active = decl.partner))] else []) ++
      (if senderOf decl s0.active = p then [] else [SEvent.relayCard s0.active text]) ++
      (if p ≠ decl.partner then [SEvent.dummyCards dh] else []) ++
      cardEvents p decl dh (playCard s0 c) 1 rest ∧
    (∀ s (j : Nat) cs h, 0 < j → SEvent.dummyCards h ∉ cardEvents p decl dh s j cs) := by
  exact ⟨cardEvents_first p decl dh s0 c text rest,
    fun s j cs h hj => cardEvents_no_dummy_later p decl dh s j cs h hj⟩

/-- a lead prompt goes only to the seat that must lead: the seat on lead, or declarer when dummy is on lead -/
theorem lead_prompt_only_to_leader (p decl : Seat) (dh : List Card) (s0 : PState) (cards : List (Card × Text)) :
    (cardEvents p decl dh s0 0 cards).filterMap
        (fun e => match e with | .leadPrompt a b => some (a, b) | _ => none) =
      ((cards.zipIdx).filterMap fun x =>
        let s := runPlay s0 ((cards.take x.2).map (·.1))
        if s.trick = [] ∧ senderOf decl s.active = p then some (s.active, decide (s.active = decl.partner)) else none) := by
  exact cardEvents_prompts p decl dh s0 0 cards

end Bridge.C10
