import BridgeVerif.Lemmas.Play
/-!
# C05 — Only the seat on turn can play, only a card it holds; cards are conserved
-/
namespace Bridge.C05

/-- a play by a seat that is not on turn is refused -/
theorem refused_out_of_turn (w : WithHands) (c : Card) (p : Seat) (h : p ≠ w.base.active) :
    w.play c p = .error .turn := by
  simp [WithHands.play, h]

/-- a play of a card the seat on turn does not hold is refused -/
theorem refused_not_held (w : WithHands) (c : Card) (p : Seat) (h : c ∉ w.hands p) :
    ∃ e, w.play c p = .error e := by
  exact play_error_of_not_ok w c p (fun hh => h hh.2)

/-- a play is accepted exactly when it comes from the seat on turn and the card is in that seat's hand;
then exactly that card leaves that hand (all other hands untouched) and joins the played cards -/
theorem accepted_iff (w : WithHands) (c : Card) (p : Seat) :
    (∃ w', w.play c p = .ok w') ↔ (p = w.base.active ∧ c ∈ w.hands p) := by
  constructor
  · rintro ⟨w', hw⟩
    obtain ⟨h1, h2, _⟩ := (play_ok_iff w c p w').1 hw
    exact ⟨h1, h2⟩
  · rintro ⟨h1, h2⟩
    exact ⟨_, (play_ok_iff w c p _).2 ⟨h1, h2, rfl⟩⟩

theorem accepted_effect (w w' : WithHands) (c : Card) (p : Seat) (h : w.play c p = .ok w') :
    w'.hands p = (w.hands p).erase c ∧ (∀ q, q ≠ p → w'.hands q = w.hands q) ∧
    w'.base = playCard w.base c ∧ c ∈ w'.base.used := by
  obtain ⟨_, _, rfl⟩ := (play_ok_iff w c p w').1 h
  refine ⟨by simp, fun q hq => by simp [hq], rfl, ?_⟩
  simp only [playCard_used]; exact mem_setAdd c _

/-- a refused play changes nothing: the result carries no state, and a sequence of offers continues from
the very same state -/
theorem refusal_changes_nothing (w : WithHands) (c : Card) (p : Seat) (e : PErr)
    (h : w.play c p = .error e) (ops : List (Card × Seat)) :
    runFull w ((c, p) :: ops) = runFull w ops := by
  simp [runFull, h]

/-- **Conservation.** Start from any deal (pairwise disjoint duplicate-free hands) and offer any sequence
of plays, legal or not: at all times the remaining hands together with the played cards are a permutation of
the original deal -/
theorem conservation (c : Contract) (hands : Seat → List Card) (w0 : WithHands)
    (h0 : WithHands.init c hands = some w0) (hd : IsDeal hands) (ops : List (Card × Seat)) :
    let w := runFull w0 ops
    (allCards w.hands ++ w.base.used).Perm (allCards hands) ∧ IsDeal w.hands := by
  intro w
  have hc : CInv (allCards hands) w := cinv_of_init h0 hd ops
  refine ⟨hc, ?_⟩
  have hn := cinv_nodup hd hc
  exact (List.nodup_append.1 hn).1

/-- no card is ever played twice: the played cards are duplicate-free and disjoint from every hand -/
theorem no_card_twice (c : Contract) (hands : Seat → List Card) (w0 : WithHands)
    (h0 : WithHands.init c hands = some w0) (hd : IsDeal hands) (ops : List (Card × Seat)) :
    let w := runFull w0 ops
    w.base.used.Nodup ∧ ∀ p, ∀ x ∈ w.hands p, x ∉ w.base.used := by
  intro w
  have hc : CInv (allCards hands) w := cinv_of_init h0 hd ops
  have hn := List.nodup_append.1 (cinv_nodup hd hc)
  refine ⟨hn.2.1, fun p x hx hu => hn.2.2 x (mem_allCards hx) x hu rfl⟩

/-- after 52 accepted plays of a 52-card deal every hand is empty (and play is over) -/
theorem after_52_all_empty (c : Contract) (hands : Seat → List Card) (w0 : WithHands)
    (h0 : WithHands.init c hands = some w0) (hd : IsDeal hands)
    (h52 : (allCards hands).length = 52) (ops : List (Card × Seat))
    (hu : (runFull w0 ops).base.used.length = 52) :
    ∀ p, (runFull w0 ops).hands p = [] := by
  have hc : CInv (allCards hands) (runFull w0 ops) := cinv_of_init h0 hd ops
  have hl := hc.length_eq
  rw [List.length_append, hu, h52] at hl
  have h0' : allCards (runFull w0 ops).hands = [] := List.eq_nil_of_length_eq_zero (by omega)
  intro p
  apply List.eq_nil_iff_forall_not_mem.2
  intro x hx
  have := mem_allCards hx
  rw [h0'] at this; cases this

/-- ObservedPlayingPhase: out of turn is refused -/
theorem observed_refused_out_of_turn (o : Observed) (c : Card) (p : Seat) (h : p ≠ o.base.active) :
    o.play c p = .error .turn := by
  simp [Observed.play, h]

/-- ObservedPlayingPhase: the observer's own seat, and dummy once its hand is known, can only play cards
they hold -/
theorem observed_refused_not_held (o : Observed) (c : Card) (p : Seat) :
    (p = o.me → c ∉ o.hand → ∃ e, o.play c p = .error e) ∧
    (p ≠ o.me → p = o.base.dummy → (∀ dh, o.dummyHand = some dh → c ∉ dh) → ∃ e, o.play c p = .error e) := by
  constructor
  · intro h1 h2
    cases hr : o.play c p with
    | error e => exact ⟨e, rfl⟩
    | ok o' =>
      obtain ⟨_, ⟨_, hc, _⟩ | ⟨hne, _⟩ | ⟨hne, _⟩⟩ := observed_play_ok o o' c p hr
      · exact absurd hc h2
      · exact absurd h1 hne
      · exact absurd h1 hne
  · intro h1 h2 h3
    cases hr : o.play c p with
    | error e => exact ⟨e, rfl⟩
    | ok o' =>
      obtain ⟨_, ⟨he, _⟩ | ⟨_, _, dh, hdh, hc, _⟩ | ⟨_, hne, _⟩⟩ := observed_play_ok o o' c p hr
      · exact absurd he h1
      · exact absurd hc (h3 dh hdh)
      · exact absurd h2 hne

/-- ObservedPlayingPhase: an accepted play moves exactly that card out of the known hand it came from -/
theorem observed_conservation (o o' : Observed) (c : Card) (p : Seat) (h : o.play c p = .ok o') :
    o'.base = playCard o.base c ∧ o'.me = o.me ∧
    (p = o.me → c ∈ o.hand ∧ o'.hand = o.hand.erase c ∧ o'.dummyHand = o.dummyHand) ∧
    (p ≠ o.me → o'.hand = o.hand) ∧
    (p ≠ o.me → p = o.base.dummy →
        ∃ dh, o.dummyHand = some dh ∧ c ∈ dh ∧ o'.dummyHand = some (dh.erase c)) ∧
    (p ≠ o.me → p ≠ o.base.dummy → o'.dummyHand = o.dummyHand) := by
  obtain ⟨_, ⟨he, hc, rfl⟩ | ⟨hne, hd, dh, hdh, hc, rfl⟩ | ⟨hne, hnd, rfl⟩⟩ := observed_play_ok o o' c p h
  · exact ⟨rfl, rfl, fun _ => ⟨hc, rfl, rfl⟩, fun h => absurd he h, fun h => absurd he h,
      fun h => absurd he h⟩
  · exact ⟨rfl, rfl, fun h => absurd h hne, fun _ => rfl, fun _ _ => ⟨dh, hdh, hc, rfl⟩,
      fun _ h => absurd hd h⟩
  · exact ⟨rfl, rfl, fun h => absurd h hne, fun _ => rfl, fun _ h => absurd h hnd, fun _ _ => rfl⟩

/-! ### non-vacuity: a 2-card-per-seat deal; West leads ♣2 (idx 0), North must hold what it plays -/
def exHands : Seat → List Card
  | .N => [⟨3, .C⟩, ⟨2, .D⟩] | .E => [⟨4, .C⟩, ⟨3, .D⟩] | .S => [⟨5, .C⟩, ⟨4, .D⟩] | .W => [⟨2, .C⟩, ⟨5, .D⟩]
example : IsDeal exHands := by unfold IsDeal; decide

end Bridge.C05
