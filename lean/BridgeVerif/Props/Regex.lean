import BridgeVerif.Lemmas.RegexPbnFacts
import BridgeVerif.Lemmas.RegexHandsFacts
import BridgeVerif.Generated.SourceConsts
import BridgeVerif.Generated.PyCore
/-!
# The pattern texts of the regex theorems ARE the texts of the source  (Appendix F: R1, R11)

`Lemmas/RegexPbnFacts.lean` and `Lemmas/RegexHandsFacts.lean` state what the regular-expression engine returns on five
pattern texts.  The theorems here tie those texts to the repository as it is NOW (both generated files are re-written
from the source on every run): they are the texts `harness/translate_consts.py` extracted (`Generated/SourceConsts.lean`)
and they are the very constants the translated program hands to the engine (`Generated/PyCorePbn.lean`: the class
constants of `PbnParser` are translated as properties; `Generated/PyCoreHands.lean`: module constants).
If a pattern is edited in the source, these theorems stop checking.
-/
namespace Bridge.Regex
open Bridge Bridge.Py Bridge.Generated.PyCore

theorem pbn_patterns_are_in_the_source :
    ("parser.py:PbnParser", "assign TAG_PATTERN", String.ofList RegexPbn.TAG_PATTERN) ∈ Generated.Source.patterns
    ∧ ("parser.py:PbnParser", "assign REPLACE_PATTERN", String.ofList RegexPbn.REPLACE_PATTERN) ∈ Generated.Source.patterns
    ∧ ("parser.py:PbnParser", "assign _VALUE_OR_SPACE_PATTERN", String.ofList RegexPbn.VALUE_OR_SPACE_PATTERN)
        ∈ Generated.Source.patterns := by decide

def HAND : List Char := "[2-9TJQKA\\.]{16}|-".toList

theorem hands_patterns_are_in_the_source :
    ("hands.py:<module>", "assign HAND_PATTERN", String.ofList RegexHands.HAND_PATTERN) ∈ Generated.Source.patterns
    ∧ ("hands.py:<module>", "assign HAND", String.ofList HAND) ∈ Generated.Source.patterns
    ∧ ("hands.py:<module>", "assign DEAL_PATTERN", "([NESW]):({HAND}) ({HAND}) ({HAND}) ({HAND})") ∈ Generated.Source.patterns
    -- the f-string with `{HAND}` substituted
    ∧ RegexHands.DEAL_PATTERN
        = "([NESW]):(".toList ++ HAND ++ ") (".toList ++ HAND ++ ") (".toList ++ HAND ++ ") (".toList ++ HAND ++ [')'] := by
  decide +kernel

/-- the translated `PbnParser` hands exactly these texts to the engine -/
theorem pbn_patterns_are_the_translated_constants :
    m_PbnParser_TAG_PATTERN.body = [.ret (.const (.str RegexPbn.TAG_PATTERN))]
    ∧ m_PbnParser_REPLACE_PATTERN.body = [.ret (.const (.str RegexPbn.REPLACE_PATTERN))]
    ∧ m_PbnParser__VALUE_OR_SPACE_PATTERN.body = [.ret (.const (.str RegexPbn.VALUE_OR_SPACE_PATTERN))] :=
  ⟨rfl, rfl, rfl⟩

/-- the translated `hands.py` hands exactly these texts to the engine -/
theorem hands_patterns_are_the_translated_constants :
    globalsHands.lookup n_HAND_PATTERN = some (.str RegexHands.HAND_PATTERN)
    ∧ globalsHands.lookup n_DEAL_PATTERN = some (.str RegexHands.DEAL_PATTERN) := by
  exact ⟨rfl, rfl⟩

end Bridge.Regex
