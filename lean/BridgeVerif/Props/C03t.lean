import BridgeVerif.Props.C03
import BridgeVerif.Translated.Auction
/-!
# C03 — the same statements for the code AS TRANSLATED from the source on this run
(kept apart from Props/C03.lean so that the lemma files which reuse the property theorems do not depend on the generated
program; audited with the property)
-/
namespace Bridge.C03t
open Bridge.C03

/-! ## For `BiddingPhase.contract()` AS TRANSLATED from the source on this run -/

/-- at every reachable state the translated `contract()` returns the encoding of the model's contract
(`None` before the end; the Laws' contract `specContract` after it) -/
theorem translated_contract_is_spec (d : Seat) (v : Vul) (s : AState) (h : List Call) (hr : Reach d v s h) :
    (Translated.P.runMethod Generated.PyCore.n_BiddingPhase Generated.PyCore.n_contract [Translated.encState s]).map (·.1)
      = .ok (Translated.encOpt Translated.encContract s.contract) ∧
    (EndedLaw h → s.contract = some (specContract d v h)) ∧ (¬ EndedLaw h → s.contract = none) := by
  refine ⟨?_, contract_is_spec d v s h hr, contract_none_before_end d v s h hr⟩
  apply Translated.contract_translated
  by_cases he : EndedLaw h
  · left; rw [contract_is_spec d v s h hr he]; rfl
  · right
    have ho : over h = false := by
      cases ho : over h with
      | false => rfl
      | true => exact absurd (ended_law_of_over d h hr.leg ho) he
    simp [hr.inv.act, ho]


end Bridge.C03t
