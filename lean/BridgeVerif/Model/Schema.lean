import BridgeVerif.Model.Json
/-!
# The subset of JSON Schema (draft 7) used by the two published schema files, and its validator  (C12, C17)

Keywords: `type` (one name or a list), `properties`, `required`, `items`, `$ref` (resolved by the translator,
`harness/translate_schema.py`, which fails on any other validating keyword).  Semantics as in the draft:
`properties`/`required` constrain objects only, `items` arrays only; an absent keyword constrains nothing.
-/
namespace Bridge

inductive JType | null | boolean | integer | number | string | array | object
  deriving DecidableEq, Repr

mutual
inductive Schema
  | mk (types : List JType) (props : SProps) (required : List (List Char)) (items : SItems)
inductive SProps
  | nil
  | cons (key : List Char) (s : Schema) (rest : SProps)
inductive SItems
  | none
  | some (s : Schema)
end

def JType.accepts : JType → Json → Bool
  | .null, .null => true
  | .boolean, .bool _ => true
  | .integer, .int _ => true
  | .number, .int _ => true
  | .string, .str _ => true
  | .array, .arr _ => true
  | .object, .obj _ => true
  | _, _ => false

def lookupKey (k : List Char) : List (List Char × Json) → Option Json
  | [] => none
  | (k', v) :: r => if k' == k then some v else lookupKey k r

mutual
def validate : Schema → Json → Bool
  | .mk types props required items, j =>
    (types.isEmpty || types.any fun t => t.accepts j) &&
    (match j with
     | .obj l => required.all (fun k => (lookupKey k l).isSome) && validateProps props l
     | .arr l => validateItems items l
     | _ => true)
def validateProps : SProps → List (List Char × Json) → Bool
  | .nil, _ => true
  | .cons k s rest, l =>
    (match lookupKey k l with
     | some v => validate s v
     | none => true) && validateProps rest l
def validateItems : SItems → List Json → Bool
  | .none, _ => true
  | .some _, [] => true
  | .some s, x :: r => validate s x && validateItems (.some s) r
end

end Bridge
