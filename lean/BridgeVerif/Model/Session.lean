import BridgeVerif.Spec.Net
import BridgeVerif.Model.Msg
import BridgeVerif.Model.Auction
import BridgeVerif.Model.Play
import BridgeVerif.Model.Score
import BridgeVerif.Model.Hands
/-!
# Model of a session of the threaded table manager (server.py `Server.run` / `PlayerThread.run`)
with four conforming clients (client.py), after admission.  (C08, C09, C10, C11, C13)

Nine sequential threads — main, one seat thread and one client per seat — and sixteen
single-writer/single-reader FIFO channels.  A thread's behaviour in a session with conforming clients is a
straight-line list of synchronisation actions determined by the boards and the players' decisions; it is
written here *phase by phase*, each phase following the corresponding loop body of the Python code.
-/
namespace Bridge

inductive Tid
  | main
  | seat (p : Seat)       -- `PlayerThread` serving seat p
  | client (p : Seat)     -- the program playing seat p
  deriving DecidableEq, Repr

inductive Chan
  | m2t (p : Seat)        -- `Server.sent_message_queues[p]`      main → seat thread
  | t2m (p : Seat)        -- `Server.received_message_queues[p]`  seat thread → main
  | c2s (p : Seat)        -- connection of seat p, client → server
  | s2c (p : Seat)        -- connection of seat p, server → client
  deriving DecidableEq, Repr

def Chan.wr : Chan → Tid
  | .m2t _ => .main | .t2m p => .seat p | .c2s p => .client p | .s2c p => .seat p
def Chan.rd : Chan → Tid
  | .m2t p => .seat p | .t2m _ => .main | .c2s p => .seat p | .s2c p => .client p

def Tid.all : List Tid :=
  [.main, .seat .N, .seat .E, .seat .S, .seat .W, .client .N, .client .E, .client .S, .client .W]
def Chan.all : List Chan :=
  Seat.all.flatMap fun p => [Chan.m2t p, .t2m p, .c2s p, .s2c p]
/-- the five parties of the barrier -/
def parties : List Tid := [.main, .seat .N, .seat .E, .seat .S, .seat .W]

/-! ## what is written to the log -/
structure BoardRecord where
  boardId : List Char
  nsName : List Char
  ewName : List Char
  dealer : Seat
  deal : Hands                      -- the ORIGINAL deal (the play consumes a copy)
  vul : Vul
  calls : List Call                 -- oldest first
  contract : Contract
  play : Option (List Trick)        -- oldest first; none for a passed-out board
  tricks : Option Nat               -- tricks won by declarer's side; none for a passed-out board
  scoreNS : Int
  scoreEW : Int
  dda : Option (Seat → Suit → Int)

/-- operations on the log writer -/
inductive LogOp
  | open
  | write (r : BoardRecord)
  | close

abbrev Text := List Char
abbrev SAct (Msg : Type) (Out : Type) := Act Chan Msg Out

/-! ## phases
Each constructor carries exactly the payloads (texts) that appear in the messages of that phase.
`phaseProg ph t` is the list of actions thread `t` performs during the phase. -/
inductive Phase (Msg Out : Type)
  /-- seating barrier, `Teams`, `ready to start`, first `Start of board`; main opens the log -/
  | seating (teams : Msg) (readyStart : Seat → Msg) (startOfBoard : Msg) (openLog : Out)
  /-- `Server.deal` / `PlayerThread._deal` / `Client._deal` -/
  | deal (header : Msg) (cards : Seat → Msg) (readyDeal readyCards : Seat → Msg)
  /-- one call by `a`: `name` = active player's formal name (queue), `bid` = the message `a` sends,
      `relay` = what main relays (alert removed), `ready q` = "q ready for a's bid" -/
  | call (a : Seat) (name bid relay : Msg) (ready : Seat → Msg)
  /-- end of the auction: NULL, then PASSED_OUT or NULL -/
  | auctionEnd (nul second : Msg)
  /-- start of play: declarer's formal name on every queue -/
  | playStart (declName : Msg)
  /-- one card. `a` = seat whose card it is, `d` = declarer, `lead` = first card of a trick,
      `opening` = first card of the board; `leaderName` (queue, when lead), `prompt` ("X to lead"),
      `card` = the message sent by the playing client, `ready q`, and for the opening lead
      `readyDummy q`, `dummyCards` -/
  | card (a d : Seat) (lead opening : Bool) (leaderName prompt card : Msg) (ready : Seat → Msg)
         (readyDummy : Seat → Msg) (dummyCards : Msg)
  /-- end of a board that is not the last: the record is written, NEXT_BOARD, `Start of board` -/
  | nextBoard (rec : Out) (next startOfBoard : Msg)
  /-- end of the last board: record, log closed, END_SESSION to every queue, `End of session` to every client -/
  | lastBoard (rec closeLog : Out) (endSession : Msg)

section
variable {Msg Out : Type}

def forSeats (f : Seat → List (SAct Msg Out)) : List (SAct Msg Out) := Seat.all.flatMap f

def sync : List (SAct Msg Out) := [.arrive, .depart]

/-- who sends the card of seat `a` when `d` declares: declarer plays dummy's cards -/
def cardPlayer (a d : Seat) : Seat := if a = d.partner then d else a

def phaseProg : Phase Msg Out → Tid → List (SAct Msg Out)
  | .seating teams readyStart sob openLog, t =>
    match t with
    | .main => sync ++ [.emit openLog]
    | .seat p => sync ++ [.send (.s2c p) teams, .recv (.c2s p), .send (.s2c p) sob]
    | .client p => [.recv (.s2c p), .send (.c2s p) (readyStart p), .recv (.s2c p)]
  | .deal header cards readyDeal readyCards, t =>
    match t with
    | .main => forSeats (fun p => [.send (.m2t p) header, .send (.m2t p) (cards p)]) ++ sync ++ sync
    | .seat p => [.recv (.c2s p)] ++ sync ++ [.recv (.m2t p), .send (.s2c p) header] ++
                 [.recv (.c2s p)] ++ sync ++ [.recv (.m2t p), .send (.s2c p) (cards p)]
    | .client p => [.send (.c2s p) (readyDeal p), .recv (.s2c p), .send (.c2s p) (readyCards p), .recv (.s2c p)]
  | .call a name bid relay ready, t =>
    match t with
    | .main => forSeats (fun p => [.send (.m2t p) name]) ++ [.recv (.t2m a)] ++
               forSeats (fun p => if p = a then [] else [.send (.m2t p) relay])
    | .seat p =>
      if p = a then [.recv (.m2t p), .recv (.c2s p), .send (.t2m p) bid]
      else [.recv (.m2t p), .recv (.c2s p), .recv (.m2t p), .send (.s2c p) relay]
    | .client p =>
      if p = a then [.send (.c2s p) bid] else [.send (.c2s p) (ready p), .recv (.s2c p)]
  | .auctionEnd nul second, t =>
    match t with
    | .main => forSeats (fun p => [.send (.m2t p) nul, .send (.m2t p) second])
    | .seat p => [.recv (.m2t p), .recv (.m2t p)]
    | .client _ => []
  | .playStart declName, t =>
    match t with
    | .main => forSeats (fun p => [.send (.m2t p) declName])
    | .seat p => [.recv (.m2t p)]
    | .client _ => []
  | .card a d lead opening leaderName prompt card ready readyDummy dummyCards, t =>
    let pl := cardPlayer a d
    let dummy := d.partner
    match t with
    | .main =>
      (if lead then forSeats (fun p => [.send (.m2t p) leaderName]) else []) ++
      [.recv (.t2m pl)] ++ forSeats (fun p => if p = pl then [] else [.send (.m2t p) card]) ++
      (if opening then forSeats (fun p => if p = dummy then [] else [.send (.m2t p) dummyCards]) else [])
    | .seat p =>
      (if lead then [.recv (.m2t p)] else []) ++
      (if p = pl then (if lead then [.send (.s2c p) prompt] else []) ++ [.recv (.c2s p), .send (.t2m p) card]
       else [.recv (.c2s p), .recv (.m2t p), .send (.s2c p) card]) ++
      (if opening ∧ p ≠ dummy then [.recv (.c2s p), .recv (.m2t p), .send (.s2c p) dummyCards] else [])
    | .client p =>
      (if p = pl then (if lead then [.recv (.s2c p)] else []) ++ [.send (.c2s p) card]
       else [.send (.c2s p) (ready p), .recv (.s2c p)]) ++
      (if opening ∧ p ≠ dummy then [.send (.c2s p) (readyDummy p), .recv (.s2c p)] else [])
  | .nextBoard rec next sob, t =>
    match t with
    | .main => [.emit rec] ++ forSeats (fun p => [.send (.m2t p) next])
    | .seat p => [.recv (.m2t p), .send (.s2c p) sob]
    | .client p => [.recv (.s2c p)]
  | .lastBoard rec closeLog endSession, t =>
    match t with
    | .main => [.emit rec, .emit closeLog] ++ forSeats (fun p => [.send (.m2t p) endSession])
    | .seat p => [.recv (.m2t p), .send (.s2c p) endSession]
    | .client p => [.recv (.s2c p)]

/-- the whole program of a thread: its phases in order -/
def progOfPhases (phs : List (Phase Msg Out)) (t : Tid) : List (SAct Msg Out) :=
  phs.flatMap fun ph => phaseProg ph t

end

/-! ## from boards and decisions to phases -/
structure BoardSetting where
  boardId : Text
  dealer : Seat
  vul : Vul
  deal : Hands
  dda : Option (Seat → Suit → Int) := none

/-- the decisions of the four players on one board, as they are sent:
calls oldest first with the message text; cards oldest first with the message text -/
structure Decisions where
  calls : List (Call × Text)
  cards : List (Card × Text)

structure Scenario where
  nsName : Text
  ewName : Text
  boards : List (BoardSetting × Decisions)

/-- the queue messages of `Server.Message` -/
def MSG_NULL : Text := "nothing happens".toList
def MSG_PASSED_OUT : Text := "passed out".toList
def MSG_END : Text := "End of session".toList
def MSG_NEXT : Text := "next board".toList
def MSG_START : Text := "Start of board".toList

def readyFor (q : Seat) (what : Text) : Text := q.formal ++ " ready for ".toList ++ what

/-- the contract main computes: the auction model fed with the calls -/
def contractOfCalls (b : BoardSetting) (calls : List Call) : Option Contract :=
  (runAuction (AState.init b.dealer b.vul) calls).1.contract

/-- the state of the full-information play model after the given cards, starting from a copy of the deal -/
def playAll (c : Contract) (deal : Hands) (cards : List Card) : Option WithHands :=
  (WithHands.init c deal).map fun w0 =>
    cards.foldl (fun w cd => match w.play cd w.base.active with | .ok w' => w' | .error _ => w) w0

def recordOf (sc : Scenario) (b : BoardSetting) (d : Decisions) : BoardRecord :=
  let calls := d.calls.map (·.1)
  let contract := (contractOfCalls b calls).getD ⟨none, false, false, b.vul, none⟩
  match contract.finalBid, contract.declarer with
  | some _, some decl =>
    let w := playAll contract b.deal (d.cards.map (·.1))
    let tricks : Nat := match w with
      | some w => (match decl.side with | .NS => w.base.takenNS | .EW => w.base.takenEW)
      | none => 0
    let score : Int := (calcScore contract tricks).getD 0
    let hist : List Trick := match w with | some w => w.base.history.reverse | none => []
    { boardId := b.boardId, nsName := sc.nsName, ewName := sc.ewName, dealer := b.dealer, deal := b.deal,
      vul := contract.vul, calls := calls, contract := contract, play := some hist, tricks := some tricks,
      scoreNS := if decl.side = .NS then score else -score,
      scoreEW := if decl.side = .EW then score else -score, dda := b.dda }
  | _, _ =>
    { boardId := b.boardId, nsName := sc.nsName, ewName := sc.ewName, dealer := b.dealer, deal := b.deal,
      vul := contract.vul, calls := calls, contract := contract, play := none, tricks := none,
      scoreNS := 0, scoreEW := 0, dda := b.dda }

/-- phases of the auction: call `j` is made by the seat `j` steps clockwise from the dealer -/
def callPhases (dealer : Seat) : Nat → List (Call × Text) → List (Phase Text LogOp)
  | _, [] => []
  | j, (_, text) :: rest =>
    let a := dealer.rot j
    Phase.call a a.formal text (preprocessBid text)
      (fun q => readyFor q (a.formal ++ "'s bid".toList)) :: callPhases dealer (j + 1) rest

/-- phases of the play; `s` is the public play state before the card -/
def cardPhases (d : Seat) (deal : Hands) : PState → Nat → List (Card × Text) → List (Phase Text LogOp)
  | _, _, [] => []
  | s, j, (c, text) :: rest =>
    let a := s.active
    let lead := decide (s.trick = [])
    let opening := decide (j = 0)
    let who : Text := if a = d.partner then "dummy".toList else a.formal
    let ph : Phase Text LogOp :=
      .card a d lead opening s.leader.formal
        (if a = d.partner then "Dummy to lead".toList else a.formal ++ " to lead".toList) text
        (fun q => readyFor q (who ++ "'s card to trick ".toList ++ natStr s.trickNum))
        (fun q => readyFor q "dummy".toList)
        (cardsMsg "Dummy".toList (deal d.partner))
    ph :: cardPhases d deal (playCard s c) (j + 1) rest

/-- all phases of one board, `k` = its 1-based number, `last` = it is the final board -/
def boardPhases (sc : Scenario) (k : Nat) (last : Bool) (b : BoardSetting) (d : Decisions) :
    List (Phase Text LogOp) :=
  let contract := (contractOfCalls b (d.calls.map (·.1))).getD ⟨none, false, false, b.vul, none⟩
  let rec_ := LogOp.write (recordOf sc b d)
  [Phase.deal (boardHeader k b.dealer b.vul) (fun p => cardsMsg p.formal (b.deal p))
      (fun p => readyFor p "deal".toList) (fun p => readyFor p "cards".toList)] ++
  callPhases b.dealer 0 d.calls ++
  [Phase.auctionEnd MSG_NULL (if contract.isPassedOut then MSG_PASSED_OUT else MSG_NULL)] ++
  (match PState.init contract, contract.declarer with
   | some s0, some decl => Phase.playStart decl.formal :: cardPhases decl b.deal s0 0 d.cards
   | _, _ => []) ++
  [if last then Phase.lastBoard rec_ LogOp.close MSG_END else Phase.nextBoard rec_ MSG_NEXT MSG_START]

def boardsPhases (sc : Scenario) : Nat → List (BoardSetting × Decisions) → List (Phase Text LogOp)
  | _, [] => []
  | k, [(b, d)] => boardPhases sc k true b d
  | k, (b, d) :: rest => boardPhases sc k false b d ++ boardsPhases sc (k + 1) rest

/-- all phases of a session (at least one board) -/
def sessionPhases (sc : Scenario) : List (Phase Text LogOp) :=
  Phase.seating (teamsMsg sc.nsName sc.ewName) (fun p => p.formal ++ " ready to start".toList) MSG_START
    LogOp.open :: boardsPhases sc 1 sc.boards

/-- the program of every thread in a session -/
def sessionProg (sc : Scenario) (t : Tid) : List (SAct Text LogOp) := progOfPhases (sessionPhases sc) t

end Bridge
