/-!
# Model of `MessageInterface.send_message` / `receive_message` (socket_interface.py) — C19 framing

The receiver is a step function over single bytes (`recv(1)`); `none` stands for `recv` returning `b''`,
i.e. the peer has closed the connection.  `rstep` is the reader as it is in /repo (after the `fix:` commit
that makes end-of-stream an error); `rstepOld` is the reader before that fix, kept as a counter-model.
-/
namespace Bridge

abbrev Byte := UInt8
def CR : Byte := 13
def LF : Byte := 10

/-- `send_message` : the UTF-8 bytes of the text followed by CR LF -/
def encodeMsg (m : List Byte) : List Byte := m ++ [CR, LF]

inductive RState
  | body (acc : List Byte)        -- inside the `while True` loop, `byte_message = acc`
  | afterCR (acc : List Byte)     -- a CR has been read, the next byte must be LF
  deriving DecidableEq, Repr

inductive RRes
  | cont (s : RState)             -- keep reading
  | done (msg : List Byte)        -- `break` : the message is complete
  | err                           -- an exception is raised
  deriving DecidableEq, Repr

/-- one `recv(1)` of the current reader -/
def rstep : RState → Option Byte → RRes
  | .body _, none => .err                                   -- peer closed: stop with an error
  | .body acc, some b => if b = CR then .cont (.afterCR acc) else .cont (.body (acc ++ [b]))
  | .afterCR _, none => .err                                -- b'' ≠ b'\n'
  | .afterCR acc, some b => if b = LF then .done acc else .err

/-- the reader before the fix: `b''` is appended and the loop goes on -/
def rstepOld : RState → Option Byte → RRes
  | .body acc, none => .cont (.body acc)
  | s, b => rstep s b

/-- outcome of one `receive_message()` call on a finite stream that ends with end-of-stream -/
inductive RecvOut
  | msg (m : List Byte) (rest : List Byte)
  | error (rest : List Byte)
  deriving DecidableEq, Repr

def recvOne : RState → List Byte → RecvOut
  | s, [] => match rstep s none with
    | .done m => .msg m []
    | _ => .error []            -- `rstep _ none` is always `.err`
  | s, b :: bs =>
    match rstep s (some b) with
    | .cont s' => recvOne s' bs
    | .done m => .msg m bs
    | .err => .error bs

/-- call `receive_message()` again and again until it raises: the messages received, in order -/
def recvAll : Nat → List Byte → List (List Byte)
  | 0, _ => []
  | fuel + 1, bs =>
    match recvOne (.body []) bs with
    | .msg m rest => m :: recvAll fuel rest
    | .error _ => []

end Bridge
