import BridgeVerif.Core
/-!
# Model of the notations (card.py, bid.py, player.py, vul.py, suit.py, pair.py, contract.py) — C15
Text is `List Char`.  `none` = the Python function raises.  Faithful on ASCII input
(`int()` of a non-ASCII digit is outside the modelled domain).
-/
namespace Bridge

/-! ### ranks -/
/-- `Card.rank_int_to_str` (2 ≤ rank ≤ 14) -/
def rankChar? (r : Nat) : Option Char :=
  match r with
  | 2 => some '2' | 3 => some '3' | 4 => some '4' | 5 => some '5' | 6 => some '6' | 7 => some '7'
  | 8 => some '8' | 9 => some '9' | 10 => some 'T' | 11 => some 'J' | 12 => some 'Q' | 13 => some 'K'
  | 14 => some 'A' | _ => none

def digitVal? (c : Char) : Option Nat :=
  if '0' ≤ c ∧ c ≤ '9' then some (c.toNat - '0'.toNat) else none

/-- `Card.rank_str_to_int` on one character: T J Q K A, else `int(ch)` -/
def rankOfChar? (c : Char) : Option Nat :=
  match c with
  | 'T' => some 10 | 'J' => some 11 | 'Q' => some 12 | 'K' => some 13 | 'A' => some 14
  | c => digitVal? c

/-! ### suits -/
/-- `Suit[name]` -/
def suitOfName? (s : List Char) : Option Suit :=
  match s with
  | ['C'] => some .C | ['D'] => some .D | ['H'] => some .H | ['S'] => some .S
  | ['N', 'T'] => some .NT | _ => none

/-! ### cards -/
/-- `Card(rank, suit)` with the `__post_init__` validation -/
def mkCard? (rank : Nat) (suit : Suit) : Option Card :=
  if rank < 2 ∨ 14 < rank then none else if suit = .NT then none else some ⟨rank, suit⟩

/-- `str(card)` -/
def cardStr (c : Card) : List Char := c.suit.name ++ [(rankChar? c.rank).getD '?']

/-- `Card.str_to_card` -/
def strToCard? (x : List Char) : Option Card :=
  match x with
  | [a, b] =>
    match suitOfName? [a], rankOfChar? b with
    | some s, some r => mkCard? r s
    | _, _ => none
  | _ => none

/-- `Card.int_to_card` on a Python int -/
def intToCard? (x : Int) : Option Card :=
  if x < 0 ∨ 51 < x then none else Card.ofIdx? x.toNat

/-! ### calls (`Bid`) -/
def levelChar (i : Fin 35) : Char := Char.ofNat ('0'.toNat + bidLevel i)

/-- `str(bid)` -/
def callStr : Call → List Char
  | .pass => "Pass".toList
  | .dbl => ['X']
  | .rdbl => ['X', 'X']
  | .bid i => levelChar i :: (bidDenom i).name

/-- the enum member *name* (`C1`, `NT3`, `Pass`, `X`, `XX`) -/
def callName : Call → List Char
  | .pass => "Pass".toList
  | .dbl => ['X']
  | .rdbl => ['X', 'X']
  | .bid i => (bidDenom i).name ++ [levelChar i]

/-- `Bid[name]` -/
def callOfName? (n : List Char) : Option Call := Call.all.find? fun c => callName c == n

/-- `Bid.str_to_bid` : `Pass`/`X`/`XX` directly, otherwise `Bid[s[1:] + s[0]]` (IndexError on "") -/
def strToCall? (s : List Char) : Option Call :=
  if s = "Pass".toList ∨ s = ['X'] ∨ s = ['X', 'X'] then callOfName? s
  else match s with
    | [] => none
    | a :: r => callOfName? (r ++ [a])

/-- `Bid.int_to_bid` -/
def intToCall? (x : Int) : Option Call := if x < 0 ∨ 37 < x then none else Call.ofIdx? x.toNat

/-- `Bid.level` / `Bid.suit` (None for Pass, X, XX) -/
def callLevel? : Call → Option Nat | .bid i => some (bidLevel i) | _ => none
def callSuit? : Call → Option Suit | .bid i => some (bidDenom i) | _ => none

/-- `Bid.level_suit_to_bid(level, suit)` = `Bid((level-1)*5 + suit.value)` with the range test on level -/
def levelSuitToCall? (level : Int) (s : Suit) : Option Call :=
  if level < 0 ∨ 7 < level then none
  else
    let v : Int := (level - 1) * 5 + s.value
    if 1 ≤ v ∧ v ≤ 38 then Call.ofIdx? (v - 1).toNat else none

/-! ### seats, sides, vulnerability -/
/-- `Player[name]` -/
def seatOfName? (s : List Char) : Option Seat :=
  match s with
  | ['N'] => some .N | ['E'] => some .E | ['S'] => some .S | ['W'] => some .W | _ => none

/-- `Player.convert_formal_name` -/
def seatOfFormal? (s : List Char) : Option Seat :=
  if s = "North".toList then some .N else if s = "East".toList then some .E
  else if s = "South".toList then some .S else if s = "West".toList then some .W else none

def sideName : Side → List Char | .NS => ['N', 'S'] | .EW => ['E', 'W']

/-- `str(vul)` -/
def vulStr : Vul → List Char
  | .none => "None".toList | .ns => "NS".toList | .ew => "EW".toList | .both => "Both".toList
/-- `Vul.pbn_format()` -/
def vulPbn : Vul → List Char
  | .none => "None".toList | .ns => "NS".toList | .ew => "EW".toList | .both => "All".toList
/-- `Vul.str_to_vul` -/
def strToVul? (s : List Char) : Option Vul :=
  if s = "None".toList ∨ s = "Love".toList ∨ s = ['-'] then some .none
  else if s = "Both".toList ∨ s = "All".toList then some .both
  else if s = "NS".toList then some .ns else if s = "EW".toList then some .ew
  else if s = "NONE".toList then some .none else if s = "BOTH".toList then some .both   -- `Vul[name]`
  else none

/-! ### contracts -/
/-- `str(contract)` -/
def contractStr (c : Contract) : List Char :=
  match c.finalBid with
  | none => "Passed_out".toList
  | some b => callStr (.bid b) ++ (if c.xx then ['X', 'X'] else if c.x then ['X'] else [])

/-- strip one trailing `X` -/
def stripX (s : List Char) : Option (List Char) :=
  match s.reverse with
  | 'X' :: r => some r.reverse
  | _ => none

/-- `Contract.str_to_contract(text, vul, declarer)`; `none` = raises
(`'Passed_out'` with a declarer trips the assertion; an empty text raises IndexError) -/
def strToContract? (s : List Char) (v : Vul) (d : Option Seat) : Option Contract :=
  if s = "Passed_out".toList then
    match d with
    | none => some ⟨none, false, false, v, none⟩
    | some _ => none
  else if s = [] then none
  else
    let (x, xx, body) :=
      match stripX s with
      | none => (false, false, s)
      | some s1 =>
        if s1 = [] then (true, false, s1)     -- Python: s1[-1] raises IndexError; handled below
        else match stripX s1 with
          | none => (true, false, s1)
          | some s2 => (true, true, s2)
    if body = [] ∧ x then none
    else
      match strToCall? body with
      | some (.bid b) => some ⟨some b, x, xx, v, d⟩
      | some .pass => some ⟨none, x, xx, v, d⟩            -- Contract(Bid.Pass, …) is a passed-out contract
      | _ => none                                          -- X / XX as final bid: ValueError

end Bridge
