import BridgeVerif.Model.Notation
/-!
# Model of hands.py and of the JSON deal conversion (writer.convert_deal / parser.hands_parser) — C14
A hand is a `List Card` read as a set.  `none` = the Python function raises.
-/
namespace Bridge

abbrev Hands := Seat → List Card

/-! ### sorting (`sorted(...)` by card index) -/
def insertDesc (c : Card) : List Card → List Card
  | [] => [c]
  | d :: r => if d.idx ≤ c.idx then c :: d :: r else d :: insertDesc c r
/-- `sorted(list(hand), reverse=True)` -/
def sortDesc (l : List Card) : List Card := l.foldr insertDesc []

def insertAsc (c : Card) : List Card → List Card
  | [] => [c]
  | d :: r => if c.idx ≤ d.idx then c :: d :: r else d :: insertAsc c r
/-- `sorted(hand)` -/
def sortAsc (l : List Card) : List Card := l.foldr insertAsc []

/-- remove duplicates (building a Python `set` from a sequence) keeping first occurrences -/
def dedup (l : List Card) : List Card := l.foldr (fun c acc => if c ∈ acc then acc else c :: acc) []

/-! ### PBN deal string -/
def pbnSuits : List Suit := [.S, .H, .D, .C]

/-- `Hands._convert_hand_to_pbn` : `-` for an empty hand, assertion on 13 cards otherwise -/
def handToPbn? (hand : List Card) : Option (List Char) :=
  if hand.length = 0 then some ['-']
  else if hand.length ≠ 13 then none
  else
    let sorted := sortDesc hand
    let groups := pbnSuits.map fun su =>
      (sorted.filter fun c => decide (c.suit = su)).map fun c => (rankChar? c.rank).getD '?'
    some (List.intercalate ['.'] groups)

/-- the four seats in rotation starting with `first` -/
def seatsFrom (first : Seat) : List Seat := [first, first.left, first.left.left, first.left.left.left]

/-- `Hands.to_pbn(dealer)` -/
def toPbn? (h : Hands) (first : Seat) : Option (List Char) :=
  match (seatsFrom first).mapM fun p => handToPbn? (h p) with
  | some [a, b, c, d] => some (first.name ++ [':'] ++ a ++ [' '] ++ b ++ [' '] ++ c ++ [' '] ++ d)
  | _ => none

def isRankChar (c : Char) : Bool :=
  c == '2' || c == '3' || c == '4' || c == '5' || c == '6' || c == '7' || c == '8' || c == '9' ||
  c == 'T' || c == 'J' || c == 'Q' || c == 'K' || c == 'A'
/-- the class `[2-9TJQKA\.]` of `HAND` -/
def isHandChar (c : Char) : Bool := isRankChar c || c == '.'

/-- backtracking matcher for `HAND_PATTERN` = `(R*).(R*).(R*).(R*)` with `.` = any character, `re.match`
semantics (greedy, leftmost; prefix match).  `matchGroups k s` matches `k` more "group + any char" pairs
followed by a final greedy group. -/
def tryLen (cont : List Char → Option (List (List Char))) (s : List Char) : Nat → Option (List (List Char))
  | 0 =>
    match s with
    | [] => none
    | _ :: rest => (cont rest).map fun gs => [] :: gs
  | n + 1 =>
    match s.drop (n + 1) with
    | [] => tryLen cont s n
    | _ :: rest =>
      match cont rest with
      | some gs => some (s.take (n + 1) :: gs)
      | none => tryLen cont s n

def matchGroups : Nat → List Char → Option (List (List Char))
  | 0, s => some [s.takeWhile isRankChar]
  | k + 1, s => tryLen (matchGroups k) s (s.takeWhile isRankChar).length

/-- `Hands._hand_parser` on one hand field (already known to match `HAND`) -/
def handParser? (f : List Char) : Option (List Card) :=
  if f = ['-'] then some []
  else
    match matchGroups 3 f with
    | some [gs, gh, gd, gc] =>
      let mk (su : Suit) (g : List Char) : List Card :=
        g.filterMap fun ch => (rankOfChar? ch).bind fun r => mkCard? r su
      some (dedup (mk .S gs ++ mk .H gh ++ mk .D gd ++ mk .C gc))
    | _ => none

/-- one `HAND` at the head of `s` : 16 class characters, or `-`; returns (field, rest) -/
def takeHandField? (s : List Char) : Option (List Char × List Char) :=
  if (s.take 16).length = 16 ∧ (s.take 16).all isHandChar then some (s.take 16, s.drop 16)
  else match s with
    | '-' :: r => some (['-'], r)
    | _ => none

/-- `Hands.convert_pbn` : `re.match(DEAL_PATTERN, s)` (prefix match, trailing text ignored) -/
def convertPbn? (s : List Char) : Option Hands :=
  match s with
  | f :: ':' :: r0 =>
    match seatOfName? [f] with
    | none => none
    | some first =>
      match takeHandField? r0 with
      | some (h0, ' ' :: r1) =>
        match takeHandField? r1 with
        | some (h1, ' ' :: r2) =>
          match takeHandField? r2 with
          | some (h2, ' ' :: r3) =>
            match takeHandField? r3 with
            | some (h3, _) =>
              match handParser? h0, handParser? h1, handParser? h2, handParser? h3 with
              | some c0, some c1, some c2, some c3 =>
                some fun p =>
                  if p = first then c0 else if p = first.left then c1
                  else if p = first.left.left then c2 else c3
              | _, _, _, _ => none
            | none => none
          | _ => none
        | _ => none
      | _ => none
  | _ => none

/-! ### 52-slot binary vectors -/
/-- `to_binary()[p]` / `to_np_binary()[p]` as a list of 52 zeros and ones -/
def toBinary (h : Hands) (p : Seat) : List Nat :=
  (List.range 52).map fun i => if (h p).any fun c => c.idx == i then 1 else 0

/-- `convert_binary` : slot i goes to the first of N, E, S, W whose vector has a 1 there -/
def convertBinary (b : Seat → List Nat) : Hands := fun p =>
  (List.range 52).filterMap fun i =>
    let owner : Option Seat :=
      if (b .N).getD i 0 = 1 then some .N else if (b .E).getD i 0 = 1 then some .E
      else if (b .S).getD i 0 = 1 then some .S else if (b .W).getD i 0 = 1 then some .W else none
    if owner = some p then Card.ofIdx? i else none

/-- `convert_np_binary` : each seat independently, `np.where(v == 1)` -/
def convertNpBinary (b : Seat → List Nat) : Hands := fun p =>
  (List.range 52).filterMap fun i => if (b p).getD i 0 = 1 then Card.ofIdx? i else none

/-! ### JSON card lists -/
/-- `convert_deal(deal)[p]` : `[str(card) for card in sorted(deal[p])]` -/
def dealToJson (h : Hands) (p : Seat) : List (List Char) := (sortAsc (h p)).map cardStr

/-- `hands_parser` for one seat : `{Card.str_to_card(x) for x in list}` -/
def handOfJson? (l : List (List Char)) : Option (List Card) := (l.mapM strToCard?).map dedup

/-! ### random dealer -/
/-- the list `generate_random_hands` shuffles: rank-major over the four suits -/
def freshPack : List Card :=
  (List.range 13).flatMap fun r => Suit.all4.map fun s => (⟨r + 2, s⟩ : Card)

/-- the deal cut from a (shuffled) 52-card list -/
def dealOfList (l : List Card) : Hands := fun p =>
  match p with
  | .N => (l.take 13)
  | .E => (l.drop 13).take 13
  | .S => (l.drop 26).take 13
  | .W => (l.drop 39).take 13

end Bridge
