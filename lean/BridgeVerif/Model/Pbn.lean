import BridgeVerif.Model.Json
import BridgeVerif.Model.JsonLog
import BridgeVerif.Model.Notation
import BridgeVerif.Model.Hands
/-!
# Model of the PBN reader and writer (data_handler/pbn_handler/parser.py, writer.py) — C17, C18

Reader: `PbnParser.parse_stream` (game splitting on semi-empty lines, `%` lines, `extract_content` with its
comment handling), `parse_board` (join, white-space collapse, `re.findall(TAG_PATTERN)`, first occurrence
wins), `parse_all`, `parse_board_settings`.  Writer: `write_line` (255-column wrapping), `write_tag_pair`,
`write_board_result`.  `none` = the Python function raises.  A fresh `PbnParser` per file.
-/
namespace Bridge

/-! ## lines -/
/-- the lines a text-mode file object yields (`for line in fp`): split AFTER each `'\n'`
(a `'\r\n'` file read through `io.StringIO(text)` keeps its `'\r'`; through `open()` it is translated to `'\n'`
before this function applies) -/
def pyLinesAux : List Char → List Char → List (List Char)
  | [], [] => []
  | [], cur => [cur.reverse]
  | c :: r, cur => if c = '\n' then (c :: cur).reverse :: pyLinesAux r [] else pyLinesAux r (c :: cur)
def pyLines (s : Str) : List Str := pyLinesAux s []

/-- universal-newline translation of `open(path)` : `'\r\n'` and a lone `'\r'` become `'\n'` -/
def universalNewlines : List Char → List Char
  | [] => []
  | '\r' :: '\n' :: r => '\n' :: universalNewlines r
  | '\r' :: r => '\n' :: universalNewlines r
  | c :: r => c :: universalNewlines r

/-- `[ \t\r\n]` -/
def isPbnWs (c : Char) : Bool := c == ' ' || c == '\t' || c == '\r' || c == '\n'
/-- `re.fullmatch(r'[ \t\r\n]+', line)` -/
def semiEmpty (l : Str) : Bool := !l.isEmpty && l.all isPbnWs

/-! ## TAG_PATTERN = `\[[ ]?([A-Z][a-zA-Z]+) "([^"]*)"[ ]?\]` -/
def isUpper (c : Char) : Bool := decide ('A' ≤ c ∧ c ≤ 'Z')
def isLetter (c : Char) : Bool := decide ('A' ≤ c ∧ c ≤ 'Z') || decide ('a' ≤ c ∧ c ≤ 'z')

/-- the pattern anchored at the head of `s` : (tag name, value, rest after the match) -/
def matchTagAt (s : Str) : Option (Str × Str × Str) :=
  match s with
  | '[' :: r0 =>
    let r1 := match r0 with | ' ' :: r => r | _ => r0          -- `[ ]?` (a space can never start the name)
    match r1 with
    | c :: r2 =>
      if isUpper c then
        let more := r2.takeWhile isLetter
        let r3 := r2.drop more.length
        if more.isEmpty then none                               -- `[a-zA-Z]+`
        else match r3 with
          | ' ' :: '"' :: r4 =>
            let val := r4.takeWhile (· ≠ '"')
            match r4.drop val.length with
            | '"' :: r5 =>
              let r6 := match r5 with | ' ' :: ']' :: _ => r5.drop 1 | _ => r5   -- `[ ]?` before `\]`
              match r6 with
              | ']' :: r7 => some (c :: more, val, r7)
              | _ => none
            | _ => none
          | _ => none
      else none
    | [] => none
  | _ => none

/-- `re.findall(TAG_PATTERN, s)` : leftmost matches, scanning on after each match -/
def findTags : Nat → Str → List (Str × Str)
  | 0, _ => []
  | _, [] => []
  | fuel + 1, c :: r =>
    match matchTagAt (c :: r) with
    | some (n, v, rest) => (n, v) :: findTags fuel rest
    | none => findTags fuel r

/-- `re.search(TAG_PATTERN, s)` : (start, end) of the first match -/
def searchTag : Nat → Str → Nat → Option (Nat × Nat)
  | 0, _, _ => none
  | _, [], _ => none
  | fuel + 1, c :: r, pos =>
    match matchTagAt (c :: r) with
    | some (_, _, rest) => some (pos, pos + ((c :: r).length - rest.length))
    | none => searchTag fuel r (pos + 1)

/-! ## `extract_content` -/
/-- `s.find(pat)` for a two-character pattern: index of the first occurrence -/
def find2 (a b : Char) : Str → Nat → Option Nat
  | x :: y :: r, i => if x = a ∧ y = b then some i else find2 a b (y :: r) (i + 1)
  | _, _ => none

/-- `s.split('}', 1)` when `'}' in s` -/
def splitAtChar (ch : Char) : Str → Option (Str × Str)
  | [] => none
  | c :: r => if c = ch then some ([], r) else (splitAtChar ch r).map fun (a, b) => (c :: a, b)

structure PbnSt where
  inComment : Bool := false
  buffer : List Str := []          -- `tag_pair_buffer`, newest first

def PbnSt.push (st : PbnSt) (s : Str) : PbnSt := { st with buffer := s :: st.buffer }

/-- `PbnParser.extract_content` (comment lists are not observable through the parsing API and are dropped) -/
def extractContent : Nat → PbnSt → Str → PbnSt
  | 0, st, _ => st
  | fuel + 1, st, s =>
    if s.isEmpty then st
    else if st.inComment then
      match splitAtChar '}' s with
      | some (_, rem) => extractContent fuel { st with inComment := false } rem
      | none => st
    else
      let x := find2 ';' ' ' s 0
      let y := find2 '{' ' ' s 0
      -- Python: find() = -1 when absent
      let xi : Int := match x with | some i => i | none => -1
      let yi : Int := match y with | some i => i | none => -1
      if (0 < xi ∧ xi < yi) ∨ (yi < 0 ∧ 0 < xi) then
        let st1 :=
          match searchTag (s.length + 1) s 0 with
          | some (a, b) =>
            if (a : Int) < xi ∧ xi < (b : Int) then extractContent fuel (st.push (s.take b)) (s.drop b) else st
          | none => st
        st1.push (s.take xi.toNat)
      else if (xi > yi ∧ yi > 0) ∨ (yi > 0 ∧ 0 > xi) then
        extractContent fuel { (st.push (s.take yi.toNat)) with inComment := true } (s.drop (yi.toNat + 2))
      else st.push s

/-! ## `parse_board` -/
/-- the white-space collapse of `parse_board` : every run of `[ \t\r\n]` OUTSIDE a quoted value becomes one space;
a quoted value (`"…"` up to the next quote) is copied unchanged; an unterminated quote is an ordinary character -/
def collapseWs : Nat → Str → Str
  | 0, s => s
  | _, [] => []
  | fuel + 1, c :: r =>
    if c = '"' then
      let val := r.takeWhile (· ≠ '"')
      match r.drop val.length with
      | '"' :: rest => '"' :: val ++ '"' :: collapseWs fuel rest
      | _ => '"' :: collapseWs fuel r
    else if isPbnWs c then ' ' :: collapseWs fuel (r.dropWhile isPbnWs)
    else c :: collapseWs fuel r

/-- the collapse before the repair of D5: `re.sub(r'[ \t\r\n]+', ' ', s)` everywhere, also inside values -/
def collapseWsOld : Nat → Str → Str
  | 0, s => s
  | _, [] => []
  | fuel + 1, c :: r =>
    if isPbnWs c then ' ' :: collapseWsOld fuel (r.dropWhile isPbnWs) else c :: collapseWsOld fuel r

/-- `game_mem` : first occurrence of a tag name wins, insertion order kept -/
def firstWins : List (Str × Str) → List (Str × Str) → List (Str × Str)
  | [], acc => acc.reverse
  | (k, v) :: r, acc => if acc.any (fun kv => kv.1 == k) then firstWins r acc else firstWins r ((k, v) :: acc)

/-- `parse_board()` on the buffered pieces (oldest first) -/
def parseBoard (pieces : List Str) : List (Str × Str) :=
  let s := pieces.flatten
  let s := collapseWs (s.length + 1) s
  firstWins (findTags (s.length + 1) s) []

def parseBoardOld (pieces : List Str) : List (Str × Str) :=
  let s := pieces.flatten
  let s := collapseWsOld (s.length + 1) s
  firstWins (findTags (s.length + 1) s) []

/-! ## `parse_stream` / `parse_all` -/
abbrev Game := List (Str × Str)

/-- one line of `parse_stream`; `games` newest first -/
def streamStep (acc : PbnSt × List Game) (line : Str) : PbnSt × List Game :=
  let (st, games) := acc
  if semiEmpty line && !st.inComment then
    -- a (semi-)empty line ends the game in progress, if there is one
    if st.buffer.isEmpty then (st, games)
    else ({ st with buffer := [] }, parseBoard st.buffer.reverse :: games)
  else if line.head? = some '%' && !st.inComment then (st, games)
  else (extractContent (line.length + 1) st line, games)

/-- `list(PbnParser().parse_stream(lines))` = `parse_all` -/
def parseStream (lines : List Str) : List Game :=
  let (st, games) := lines.foldl streamStep ({}, [])
  (if st.buffer.isEmpty then games else parseBoard st.buffer.reverse :: games).reverse

/-- before the repair of D8: EVERY semi-empty line yields a game, also an empty one -/
def streamStepOld (acc : PbnSt × List Game) (line : Str) : PbnSt × List Game :=
  let (st, games) := acc
  if semiEmpty line && !st.inComment then ({ st with buffer := [] }, parseBoardOld st.buffer.reverse :: games)
  else if line.head? = some '%' && !st.inComment then (st, games)
  else (extractContent (line.length + 1) st line, games)
def parseStreamOld (lines : List Str) : List Game :=
  let (st, games) := lines.foldl streamStepOld ({}, [])
  (if st.buffer.isEmpty then games else parseBoardOld st.buffer.reverse :: games).reverse

def parseAllText (text : Str) : List Game := parseStream (pyLines text)

def gameGet? (g : Game) (k : Str) : Option Str := (g.find? fun kv => kv.1 == k).map (·.2)

/-- `parse_board_settings` : Deal, Dealer, Vulnerable, Board of every game -/
def settingOfGame? (g : Game) : Option SettingEntry := do
  let deal ← (gameGet? g "Deal".toList).bind convertPbn?
  let dealer ← (gameGet? g "Dealer".toList).bind seatOfName?
  let vul ← (gameGet? g "Vulnerable".toList).bind strToVul?
  let id ← gameGet? g "Board".toList
  pure { boardId := id, dealer := dealer, deal := deal, vul := vul, dda := none }

def pbnBoardSettings? (lines : List Str) : Option (List SettingEntry) := (parseStream lines).mapM settingOfGame?
def pbnBoardSettingsOld? (lines : List Str) : Option (List SettingEntry) := (parseStreamOld lines).mapM settingOfGame?

/-! ## writer -/
def MAX_LINE_CHARS : Nat := 255

/-- the strings `write_line(s)` passes to `writer.write`, in order (`s ≠ ""`; `""` raises IndexError) -/
def writeLineAux : Nat → Str → List Str
  | 0, s => [s]
  | fuel + 1, s =>
    if s.length > MAX_LINE_CHARS then (s.take (MAX_LINE_CHARS - 1) ++ ['\n']) :: writeLineAux fuel (s.drop (MAX_LINE_CHARS - 1))
    else [s]
def writeLine? (s : Str) : Option (List Str) :=
  match s.getLast? with
  | none => none
  | some c =>
    let s' := if c = '\n' then s else s ++ ['\n']
    some (writeLineAux s'.length s')

def tagLine (tag content : Str) : Str := '[' :: tag ++ ' ' :: '"' :: content ++ ['"', ']']
/-- `write_tag_pair` (`assert tag[0].isupper()`; tags here are the fixed mandatory names) -/
def writeTagPair (tag content : Str) : List Str := (writeLine? (tagLine tag content)).getD []

structure PbnResult where
  event : Str
  site : Str
  year : Nat
  month : Nat
  day : Nat
  boardNum : Int
  west : Str
  north : Str
  east : Str
  south : Str
  dealer : Seat
  deal : Hands
  scoring : Scoring
  contract : Contract
  tricks : Option Int

def pad2 (n : Nat) : Str := if n < 10 then '0' :: natRepr n else natRepr n
/-- `date.strftime('%Y.%m.%d')` with glibc: the year is NOT zero-padded -/
def dateStr (y m d : Nat) : Str := natRepr y ++ ['.'] ++ pad2 m ++ ['.'] ++ pad2 d

/-- the fifteen mandatory tag pairs, in order; `none` = an assertion fails -/
def resultTags? (r : PbnResult) : Option (List (Str × Str)) :=
  if r.boardNum ≤ 0 then none
  else match toPbn? r.deal r.dealer with
    | none => none
    | some dealText =>
      let po := r.contract.isPassedOut
      if po && r.tricks.isSome then none
      else if !po && r.tricks.isNone then none
      else some [
        ("Event".toList, r.event), ("Site".toList, r.site), ("Date".toList, dateStr r.year r.month r.day),
        ("Board".toList, intRepr r.boardNum), ("West".toList, r.west), ("North".toList, r.north),
        ("East".toList, r.east), ("South".toList, r.south), ("Dealer".toList, r.dealer.name),
        ("Vulnerable".toList, vulPbn r.contract.vul), ("Deal".toList, dealText),
        ("Scoring".toList, r.scoring.value),
        ("Declarer".toList, if po then [] else seatOptStr r.contract.declarer),
        ("Contract".toList, if po then "Pass".toList else contractStr r.contract),
        ("Result".toList, match r.tricks with | some n => if po then [] else intRepr n | none => [])]

/-- everything `write_board_result` writes: the fifteen tag lines, then the empty line that ends the game -/
def writeBoardResult? (r : PbnResult) : Option (List Str) :=
  (resultTags? r).map fun tags => (tags.flatMap fun (t, c) => writeTagPair t c) ++ [['\n']]

/-- before the repair of D4: no empty line after the game -/
def writeBoardResultOld? (r : PbnResult) : Option (List Str) :=
  (resultTags? r).map fun tags => tags.flatMap fun (t, c) => writeTagPair t c

/-- `write_header` -/
def writeHeader : List Str := ["% PBN 2.1\n".toList, "% EXPORT\n".toList]

end Bridge
