import BridgeVerif.Core
import BridgeVerif.Generated.ScoreTables
/-!
# Model of score.py  (C07, C16)

`calcBidScore` mirrors `calc_bid_score` statement by statement with the literal tables;
`pointDifferenceToImps` mirrors the `while imps < 24` loop as a structural scan.
-/
namespace Bridge

/-! The constants and tables are NOT copied here: they are the values translated from bridge_env/score.py on every run
(Generated/ScoreTables.lean, harness/translate_score.py). -/
open Generated.Score in
def MINOR : Int := Generated.Score.MINOR
def MAJOR : Int := Generated.Score.MAJOR
def NTB : Int := Generated.Score.NTB
def MAKE : Int := Generated.Score.MAKE
def MAKE_X : Int := Generated.Score.MAKE_X
def MAKE_XX : Int := Generated.Score.MAKE_XX
def GAME : Int := Generated.Score.GAME
def GAME_VUL : Int := Generated.Score.GAME_VUL
def SMALL_SLAM : Int := Generated.Score.SMALL_SLAM
def SMALL_SLAM_VUL : Int := Generated.Score.SMALL_SLAM_VUL
def GRAND_SLAM : Int := Generated.Score.GRAND_SLAM
def GRAND_SLAM_VUL : Int := Generated.Score.GRAND_SLAM_VUL
def OVERTRICK_X : Int := Generated.Score.OVERTRICK_X
def OVERTRICK_X_VUL : Int := Generated.Score.OVERTRICK_X_VUL
def OVERTRICK_XX : Int := Generated.Score.OVERTRICK_XX
def OVERTRICK_XX_VUL : Int := Generated.Score.OVERTRICK_XX_VUL

def DOWN : List Int := Generated.Score.DOWN
def DOWN_VUL : List Int := Generated.Score.DOWN_VUL
def DOWN_X : List Int := Generated.Score.DOWN_X
def DOWN_X_VUL : List Int := Generated.Score.DOWN_X_VUL
def DOWN_XX : List Int := Generated.Score.DOWN_XX
def DOWN_XX_VUL : List Int := Generated.Score.DOWN_XX_VUL

def IMPS_LIST : List Int := Generated.Score.IMPS_LIST

/-- `calc_bid_score(bid, x, xx, vul, taken_trick_num)` for a real bid.
A Python tuple index out of range cannot occur for `tricks ≤ 13` (down_n ≤ 13);
the model uses `getD 0` and the theorem is stated for `tricks ≤ 13`. -/
def calcBidScore (b : Fin 35) (x xx vul : Bool) (tricks : Nat) : Int :=
  let level := bidLevel b
  let suit := bidDenom b
  if level + 6 > tricks then
    let downN := level + 6 - tricks
    if xx then (if vul then DOWN_XX_VUL else DOWN_XX).getD (downN - 1) 0
    else if x then (if vul then DOWN_X_VUL else DOWN_X).getD (downN - 1) 0
    else (if vul then DOWN_VUL else DOWN).getD (downN - 1) 0
  else
    let over : Int := ((tricks - level - 6 : Nat) : Int)
    let base : Int × Int :=
      if suit.isMinor then (MINOR * level, MINOR)
      else if suit.isMajor then (MAJOR * level, MAJOR)
      else (MAJOR * level + NTB, MAJOR)
    let score0 := base.1
    let score1 := if xx then score0 * 4 else if x then score0 * 2 else score0
    let score2 :=
      if score1 ≥ 100 then
        let s := score1 + (if vul then GAME_VUL else GAME)
        if level ≥ 6 then
          let s := s + (if vul then SMALL_SLAM_VUL else SMALL_SLAM)
          if level = 7 then s + (if vul then GRAND_SLAM_VUL else GRAND_SLAM) else s
        else s
      else score1
    let score3 := score2 + MAKE
    let r : Int × Int :=
      if x || xx then
        let s := score3 + MAKE_X
        if xx then (s + MAKE_XX, if vul then OVERTRICK_XX_VUL else OVERTRICK_XX)
        else (s, if vul then OVERTRICK_X_VUL else OVERTRICK_X)
      else (score3, base.2)
    r.1 + r.2 * over

/-- `calc_score(contract, taken_tricks)`; `none` = raises (declarer missing when needed). -/
def calcScore (c : Contract) (tricks : Nat) : Option Int :=
  match c.finalBid with
  | none => some 0
  | some b =>
    match c.isVul with
    | none => none
    | some v => some (calcBidScore b c.x c.xx v tricks)

/-- the `while imps < 24` scan: first index whose threshold exceeds `a`, else the length -/
def impScan (a : Int) : List Int → Nat → Nat
  | [], n => n
  | t :: ts, n => if a < t then n else impScan a ts (n + 1)

/-- `point_difference_to_imps` -/
def pointDifferenceToImps (d : Int) : Int :=
  let n : Int := impScan d.natAbs IMPS_LIST 0
  if d ≥ 0 then n else -n

/-- `score_to_imp(first, second)` -/
def scoreToImp (a b : Int) : Int := pointDifferenceToImps (a + b)

end Bridge
