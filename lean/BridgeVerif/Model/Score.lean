import BridgeVerif.Core
/-!
# Model of score.py  (C07, C16)

`calcBidScore` mirrors `calc_bid_score` statement by statement with the literal tables;
`pointDifferenceToImps` mirrors the `while imps < 24` loop as a structural scan.
-/
namespace Bridge

def MINOR : Int := 20
def MAJOR : Int := 30
def NTB : Int := 10
def MAKE : Int := 50
def MAKE_X : Int := 50
def MAKE_XX : Int := 50
def GAME : Int := 250
def GAME_VUL : Int := 450
def SMALL_SLAM : Int := 500
def SMALL_SLAM_VUL : Int := 750
def GRAND_SLAM : Int := 500
def GRAND_SLAM_VUL : Int := 750
def OVERTRICK_X : Int := 100
def OVERTRICK_X_VUL : Int := 200
def OVERTRICK_XX : Int := 200
def OVERTRICK_XX_VUL : Int := 400

def DOWN : List Int := [-50, -100, -150, -200, -250, -300, -350, -400, -450, -500, -550, -600, -650]
def DOWN_VUL : List Int :=
  [-100, -200, -300, -400, -500, -600, -700, -800, -900, -1000, -1100, -1200, -1300]
def DOWN_X : List Int :=
  [-100, -300, -500, -800, -1100, -1400, -1700, -2000, -2300, -2600, -2900, -3200, -3500]
def DOWN_X_VUL : List Int :=
  [-200, -500, -800, -1100, -1400, -1700, -2000, -2300, -2600, -2900, -3200, -3500, -3800]
def DOWN_XX : List Int :=
  [-200, -600, -1000, -1600, -2200, -2800, -3400, -4000, -4600, -5200, -5800, -6400, -7000]
def DOWN_XX_VUL : List Int :=
  [-400, -1000, -1600, -2200, -2800, -3400, -4000, -4600, -5200, -5800, -6400, -7000, -7600]

def IMPS_LIST : List Int :=
  [20, 50, 90, 130, 170, 220, 270, 320, 370, 430, 500, 600, 750, 900, 1100,
   1300, 1500, 1750, 2000, 2250, 2500, 3000, 3500, 4000]

/-- `calc_bid_score(bid, x, xx, vul, taken_trick_num)` for a real bid.
A Python tuple index out of range cannot occur for `tricks ≤ 13` (down_n ≤ 13);
the model uses `getD 0` and the theorem is stated for `tricks ≤ 13`. -/
def calcBidScore (b : Fin 35) (x xx vul : Bool) (tricks : Nat) : Int :=
  let level := bidLevel b
  let suit := bidDenom b
  if level + 6 > tricks then
    let downN := level + 6 - tricks
    if xx then (if vul then DOWN_XX_VUL else DOWN_XX).getD (downN - 1) 0
    else if x then (if vul then DOWN_X_VUL else DOWN_X).getD (downN - 1) 0
    else (if vul then DOWN_VUL else DOWN).getD (downN - 1) 0
  else
    let over : Int := ((tricks - level - 6 : Nat) : Int)
    let base : Int × Int :=
      if suit.isMinor then (MINOR * level, MINOR)
      else if suit.isMajor then (MAJOR * level, MAJOR)
      else (MAJOR * level + NTB, MAJOR)
    let score0 := base.1
    let score1 := if xx then score0 * 4 else if x then score0 * 2 else score0
    let score2 :=
      if score1 ≥ 100 then
        let s := score1 + (if vul then GAME_VUL else GAME)
        if level ≥ 6 then
          let s := s + (if vul then SMALL_SLAM_VUL else SMALL_SLAM)
          if level = 7 then s + (if vul then GRAND_SLAM_VUL else GRAND_SLAM) else s
        else s
      else score1
    let score3 := score2 + MAKE
    let r : Int × Int :=
      if x || xx then
        let s := score3 + MAKE_X
        if xx then (s + MAKE_XX, if vul then OVERTRICK_XX_VUL else OVERTRICK_XX)
        else (s, if vul then OVERTRICK_X_VUL else OVERTRICK_X)
      else (score3, base.2)
    r.1 + r.2 * over

/-- `calc_score(contract, taken_tricks)`; `none` = raises (declarer missing when needed). -/
def calcScore (c : Contract) (tricks : Nat) : Option Int :=
  match c.finalBid with
  | none => some 0
  | some b =>
    match c.isVul with
    | none => none
    | some v => some (calcBidScore b c.x c.xx v tricks)

/-- the `while imps < 24` scan: first index whose threshold exceeds `a`, else the length -/
def impScan (a : Int) : List Int → Nat → Nat
  | [], n => n
  | t :: ts, n => if a < t then n else impScan a ts (n + 1)

/-- `point_difference_to_imps` -/
def pointDifferenceToImps (d : Int) : Int :=
  let n : Int := impScan d.natAbs IMPS_LIST 0
  if d ≥ 0 then n else -n

/-- `score_to_imp(first, second)` -/
def scoreToImp (a b : Int) : Int := pointDifferenceToImps (a + b)

end Bridge
