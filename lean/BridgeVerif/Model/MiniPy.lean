/-!
# MiniPy — a small, total, executable semantics for the Python subset the pure core of bridge_env is written in

The repository's pure core (`suit.py`, `pair.py`, `vul.py`, `player.py`, `bid.py`, `card.py`, `contract.py`, `score.py`,
`bidding_phase.py`, `playing_phase.py`) is TRANSLATED on every run (harness/translate_py.py) into a value of type
`Program` (Generated/PyCore.lean): the translator only re-writes the Python abstract syntax tree constructor by
constructor; what the syntax MEANS is defined here, once, by the interpreter `eval` / `exec` / `callFn`.

* values are immutable (`Val`); an assignment through a path (`self.x[i] = v`, `self.h.append(c)`) is a functional
  update of the variable at the root of the path — aliasing between two variables is therefore NOT modelled (the
  correspondence check runs the real objects and is what sees aliasing);
* every function is given fuel, so the interpreter is total and the kernel can evaluate it (`decide +kernel`);
* `Err.exc c` is a Python exception of class `c` propagating out; `Err.stuck n` means the program left the modelled
  subset (never a claim about Python); `Err.fuel` means the fuel ran out.

Identifiers are natural numbers (the translator interns them; Generated/PyCore.lean carries the table).
A few identifiers have a meaning to the interpreter itself and are fixed here (`Py.K.*`).
-/
namespace Bridge.Py

abbrev Id := Nat

/-! identifiers the interpreter itself knows -/
namespace K
abbrev value : Id := 1
abbrev name : Id := 2
abbrev str__ : Id := 3          -- __str__
abbrev int__ : Id := 4          -- __int__
abbrev lt__ : Id := 5
abbrev le__ : Id := 6
abbrev gt__ : Id := 7
abbrev ge__ : Id := 8
abbrev postInit : Id := 9       -- __post_init__
abbrev init : Id := 10          -- __init__
abbrev class__ : Id := 11       -- __class__
abbrev self : Id := 12
abbrev getitem__ : Id := 13     -- __getitem__
abbrev ValueError : Id := 20
abbrev Exception : Id := 21
abbrev AssertionError : Id := 22
abbrev KeyError : Id := 23
abbrev IndexError : Id := 24
abbrev NotImplementedError : Id := 25
abbrev TypeError : Id := 26
abbrev AttributeError : Id := 27
abbrev ZeroDivisionError : Id := 28
end K

inductive Val where
  | int (n : Int)
  | bool (b : Bool)
  | none
  | str (s : List Char)
  | tuple (xs : List Val)                       -- tuple / list / set (in insertion order) / numpy vector
  | enum (cls : Id) (value : Int)               -- a member of an Enum class
  | obj (cls : Id) (fields : List (Id × Val))   -- an instance with attributes
  | dict (kvs : List (Val × Val))
  | cls (c : Id)                                -- a class object
deriving Repr, Inhabited

mutual
/-- Python `==` on the modelled values (`True == 1`; objects compare attribute-wise, as dataclasses do) -/
def Val.beq : Val → Val → Bool
  | .int a, .int b => a == b
  | .bool a, .bool b => a == b
  | .int a, .bool b => a == (if b then 1 else 0)
  | .bool a, .int b => b == (if a then 1 else 0)
  | .none, .none => true
  | .str a, .str b => a == b
  | .tuple a, .tuple b => beqL a b
  | .enum c a, .enum d b => c == d && a == b
  | .obj c a, .obj d b => c == d && beqF a b
  | .dict a, .dict b => beqD a b
  | .cls a, .cls b => a == b
  | _, _ => false
def beqL : List Val → List Val → Bool
  | [], [] => true
  | a :: as, b :: bs => Val.beq a b && beqL as bs
  | _, _ => false
def beqF : List (Id × Val) → List (Id × Val) → Bool
  | [], [] => true
  | (k, a) :: as, (l, b) :: bs => k == l && Val.beq a b && beqF as bs
  | _, _ => false
def beqD : List (Val × Val) → List (Val × Val) → Bool
  | [], [] => true
  | (k, a) :: as, (l, b) :: bs => Val.beq k l && Val.beq a b && beqD as bs
  | _, _ => false
end

inductive BinOp | add | sub | mul | fdiv | mod
deriving Repr, DecidableEq
inductive CmpOp | eq | ne | lt | le | gt | ge | is | isNot | inn | notIn
deriving Repr, DecidableEq
inductive Builtin
  | abs | len | int | str | tuple | range | enumerate | npOnes | isinstance | set
deriving Repr, DecidableEq
inductive MutOp | append | add | remove
deriving Repr, DecidableEq

inductive Expr where
  | const (v : Val)
  | var (x : Id)
  | attr (e : Expr) (a : Id)
  | call (f : Id) (args : List Expr)                           -- a module-level function of the translated program
  | builtin (b : Builtin) (args : List Expr)
  | new (c : Id) (args : List Expr)                            -- `C(args)` : Enum by value / instance construction
  | byName (c : Id) (e : Expr)                                 -- `C[e]` : Enum by name
  | meth (recv : Expr) (m : Id) (args : List Expr)             -- `recv.m(args)` : dispatch on the class of the receiver
  | static (c : Id) (m : Id) (args : List Expr)                -- `C.m(args)` / `cls.m(args)` / `super().m(args)` with explicit self
  | binop (op : BinOp) (a b : Expr)
  | cmp (op : CmpOp) (a b : Expr)
  | not (e : Expr)
  | and (a b : Expr)
  | or (a b : Expr)
  | neg (e : Expr)
  | ifexp (c t e : Expr)
  | index (e i : Expr)
  | slice (e : Expr) (lo hi : Option Expr)
  | tuple (es : List Expr)
  | fstr (es : List Expr)                                      -- f-string: `str()` of every part, concatenated
  | dictOf (kvs : List (Expr × Expr))
  | comp (x : Id) (iter : Expr) (cond : Option Expr) (e : Expr)          -- [e for x in iter if cond] (also set comprehension)
  | dictComp (x : Id) (iter : Expr) (k v : Expr)
deriving Repr, Inhabited

inductive Target where
  | var (x : Id)
  | attr (t : Target) (a : Id)
  | index (t : Target) (i : Expr)
deriving Repr, Inhabited

def Target.toExpr : Target → Expr
  | .var x => .var x
  | .attr t a => .attr t.toExpr a
  | .index t i => .index t.toExpr i

inductive Stmt where
  | assign (t : Target) (e : Expr)
  | unpack (ts : List Target) (e : Expr)
  | sliceFill (t : Target) (lo hi : Option Expr) (e : Expr)    -- numpy `a[lo:hi] = scalar`
  | mut (t : Target) (op : MutOp) (e : Expr)                   -- `t.append(e)` / `t.add(e)` / `t.remove(e)`
  | callMut (t : Target) (m : Id) (args : List Expr)           -- `t.m(args)` as a statement: the receiver is written back
  | callMutStatic (c : Id) (m : Id) (args : List Expr)         -- `super().m(args)` as a statement: `self` is written back
  | expr (e : Expr)
  | ite (c : Expr) (t e : List Stmt)
  | while (c : Expr) (body : List Stmt)
  | for (xs : List Id) (iter : Expr) (body : List Stmt)        -- one variable, or a tuple of variables
  | ret (e : Expr)
  | raise (exc : Id)
  | assert (e : Expr)
  | brk
  | cont
  | pass
deriving Repr, Inhabited

structure FuncDef where
  params : List Id
  defaults : List (Id × Val) := []
  body : List Stmt
deriving Repr, Inhabited

structure ClassDef where
  name : List Char
  base : Option Id := none
  members : List (List Char × Int) := []      -- Enum members, in definition order
  fields : List (Id × Option Val) := []       -- dataclass fields in order, with constant defaults
  isEnum : Bool := false
  isDataclass : Bool := false
deriving Repr, Inhabited

structure Program where
  classes : List (Id × ClassDef)
  funcs : List (Id × Id × FuncDef)            -- (class id, or 0 for the module level; name; definition)
  globals : List (Id × Val)
deriving Repr, Inhabited

inductive Err where
  | exc (c : Id)
  | stuck (code : Nat)
  | fuel
deriving Repr, DecidableEq, Inhabited

abbrev R := Except Err

inductive Flow where
  | next | ret (v : Val) | brk | cont
deriving Repr, Inhabited

abbrev Env := List (Id × Val)

def lookup : Env → Id → Option Val
  | [], _ => none
  | (k, v) :: r, x => if k = x then some v else lookup r x

def update : Env → Id → Val → Env
  | [], x, v => [(x, v)]
  | (k, w) :: r, x, v => if k = x then (k, v) :: r else (k, w) :: update r x v

def lookupD : List (Val × Val) → Val → Option Val
  | [], _ => none
  | (k, v) :: r, x => if k.beq x then some v else lookupD r x

def updateD : List (Val × Val) → Val → Val → List (Val × Val)
  | [], x, v => [(x, v)]
  | (k, w) :: r, x, v => if k.beq x then (k, v) :: r else (k, w) :: updateD r x v

def Program.cls? (P : Program) (c : Id) : Option ClassDef :=
  (P.classes.find? (·.1 == c)).map (·.2)

def findFunc : List (Id × Id × FuncDef) → Id → Id → Option FuncDef
  | [], _, _ => none
  | (c, m, fd) :: r, c', m' => if c = c' ∧ m = m' then some fd else findFunc r c' m'

/-- method resolution along the (single-inheritance) base chain; `depth` bounds the chain -/
def Program.method? (P : Program) : Nat → Id → Id → Option (Id × FuncDef)
  | 0, _, _ => none
  | d + 1, c, m =>
    match findFunc P.funcs c m with
    | some fd => some (c, fd)
    | none =>
      match P.cls? c with
      | some cd => match cd.base with
        | some b => P.method? d b m
        | none => none
      | none => none

def Program.isSubclass (P : Program) : Nat → Id → Id → Bool
  | 0, _, _ => false
  | d + 1, c, c' =>
    c == c' || (match P.cls? c with
      | some cd => match cd.base with
        | some b => P.isSubclass d b c'
        | none => false
      | none => false)

def truthy : Val → Bool
  | .int n => n != 0
  | .bool b => b
  | .none => false
  | .str s => !s.isEmpty
  | .tuple xs => !xs.isEmpty
  | .dict kvs => !kvs.isEmpty
  | _ => true

def asInt? : Val → Option Int
  | .int n => some n
  | .bool b => some (if b then 1 else 0)
  | _ => none

def classOf? : Val → Option Id
  | .enum c _ => some c
  | .obj c _ => some c
  | _ => none

def natDigits : Nat → Nat → List Char
  | 0, _ => ['0']
  | fuel + 1, n => if n < 10 then [Char.ofNat (48 + n)] else natDigits fuel (n / 10) ++ [Char.ofNat (48 + n % 10)]

def intStr (n : Int) : List Char :=
  if n < 0 then '-' :: natDigits 40 n.natAbs else natDigits 40 n.natAbs

def parseNat? : List Char → Option Nat
  | [] => none
  | cs => cs.foldl (fun acc c => acc.bind fun a => if c.isDigit then some (a * 10 + (c.toNat - 48)) else none) (some 0)

/-- Python `int(s)` for the plain decimal texts the core uses (optional sign, digits); anything else raises ValueError -/
def parseInt? : List Char → Option Int
  | '-' :: cs => (parseNat? cs).map fun n => -(n : Int)
  | '+' :: cs => (parseNat? cs).map fun n => (n : Int)
  | cs => (parseNat? cs).map fun n => (n : Int)

def normIndex (len : Nat) (i : Int) : Option Nat :=
  if 0 ≤ i then (if i.toNat < len then some i.toNat else none)
  else if i.natAbs ≤ len then some (len - i.natAbs) else none

/-- slice bound: clamp to `[0, len]` -/
def clampIndex (len : Nat) (i : Int) : Nat :=
  if 0 ≤ i then min i.toNat len else len - min i.natAbs len

def sliceList {α} (xs : List α) (lo hi : Option Int) : List α :=
  let n := xs.length
  let l := match lo with | some i => clampIndex n i | none => 0
  let h := match hi with | some i => clampIndex n i | none => n
  (xs.drop l).take (h - l)

def memberName? (cd : ClassDef) (v : Int) : Option (List Char) :=
  (cd.members.find? (·.2 == v)).map (·.1)
def memberValue? (cd : ClassDef) (n : List Char) : Option Int :=
  (cd.members.find? (·.1 == n)).map (·.2)

def binopVal (op : BinOp) (a b : Val) : R Val :=
  match op, a, b with
  | .add, .str x, .str y => pure (.str (x ++ y))
  | .add, .tuple x, .tuple y => pure (.tuple (x ++ y))
  | _, _, _ =>
    match asInt? a, asInt? b with
    | some x, some y =>
      match op with
      | .add => pure (.int (x + y))
      | .sub => pure (.int (x - y))
      | .mul => pure (.int (x * y))
      | .fdiv => if y = 0 then throw (.exc K.ZeroDivisionError) else pure (.int (x.fdiv y))
      | .mod => if y = 0 then throw (.exc K.ZeroDivisionError) else pure (.int (x.fmod y))
    | _, _ => throw (.exc K.TypeError)

def setField : List (Id × Val) → Id → Val → List (Id × Val) := update

def replaceAt : List Val → Nat → Val → List Val
  | [], _, _ => []
  | _ :: r, 0, v => v :: r
  | x :: r, n + 1, v => x :: replaceAt r n v

def removeFirst : List Val → Val → Option (List Val)
  | [], _ => none
  | x :: r, v => if x.beq v then some r else (removeFirst r v).map (x :: ·)

def containsVal (xs : List Val) (v : Val) : Bool := xs.any (·.beq v)

def bindParams : List Id → List (Id × Val) → List Val → Option Env
  | [], _, [] => some []
  | [], _, _ :: _ => none
  | p :: ps, ds, a :: as => (bindParams ps ds as).map ((p, a) :: ·)
  | p :: ps, ds, [] =>
    match lookup ds p with
    | some d => (bindParams ps ds []).map ((p, d) :: ·)
    | none => none

def fillSlice (xs : List Val) (lo hi : Option Int) (v : Val) : List Val :=
  let n := xs.length
  let l := match lo with | some i => clampIndex n i | none => 0
  let h := match hi with | some i => clampIndex n i | none => n
  xs.mapIdx fun i x => if l ≤ i ∧ i < h then v else x

def iterItems (P : Program) : Val → Option (List Val)
  | .tuple xs => some xs
  | .str s => some (s.map fun c => .str [c])
  | .dict kvs => some (kvs.map (·.1))
  | .cls c => match P.cls? c with
    | some cd => if cd.isEnum then some (cd.members.map fun m => .enum c m.2) else none
    | none => none
  | _ => none

/-- how deep a chain of base classes may be -/
abbrev classDepth : Nat := 6

mutual

/-- call a function with the given arguments; returns the result and the final value of its first parameter (`self`) -/
def callFn (P : Program) : Nat → FuncDef → List Val → R (Val × Val)
  | 0, _, _ => throw .fuel
  | f + 1, fd, args =>
    match bindParams fd.params fd.defaults args with
    | none => throw (.exc K.TypeError)
    | some env => do
      let (env', fl) ← exec P f env fd.body
      let self' := match fd.params with
        | p :: _ => (lookup env' p).getD .none
        | [] => .none
      match fl with
      | .ret v => pure (v, self')
      | _ => pure (.none, self')

/-- `v.a` -/
def getAttr (P : Program) : Nat → Val → Id → R Val
  | 0, _, _ => throw .fuel
  | f + 1, v, a =>
    match v with
    | .none => throw (.exc K.AttributeError)
    | .enum c n =>
      if a = K.value then pure (.int n)
      else if a = K.class__ then pure (.cls c)
      else if a = K.name then
        match P.cls? c with
        | some cd => match memberName? cd n with
          | some s => pure (.str s)
          | none => throw (.stuck 1)
        | none => throw (.stuck 2)
      else match P.method? classDepth c a with
        | some (_, fd) => do let (r, _) ← callFn P f fd [v]; pure r       -- a property
        | none => throw (.exc K.AttributeError)
    | .obj c fs =>
      if a = K.class__ then pure (.cls c) else
      match lookup fs a with
      | some x => pure x
      | none => match P.method? classDepth c a with
        | some (_, fd) => do let (r, _) ← callFn P f fd [v]; pure r
        | none => throw (.exc K.AttributeError)
    | .cls c =>
      -- `cls.N` inside a classmethod: an Enum member by name is resolved by the translator; nothing else is modelled
      if a = K.name then
        match P.cls? c with
        | some cd => pure (.str cd.name)
        | none => throw (.stuck 3)
      else throw (.stuck 4)
    | _ => throw (.stuck 5)

/-- `str(v)` -/
def strOf (P : Program) : Nat → Val → R (List Char)
  | 0, _ => throw .fuel
  | f + 1, v =>
    match v with
    | .str s => pure s
    | .int n => pure (intStr n)
    | .bool b => pure (if b then "True".toList else "False".toList)
    | .none => pure "None".toList
    | .enum c _ | .obj c _ =>
      match P.method? classDepth c K.str__ with
      | some (_, fd) => do
        let (r, _) ← callFn P f fd [v]
        match r with
        | .str s => pure s
        | _ => throw (.exc K.TypeError)
      | none => throw (.stuck 6)                  -- default `repr`s are not modelled
    | _ => throw (.stuck 7)

/-- ordering comparison -/
def compareVals (P : Program) : Nat → CmpOp → Val → Val → R Bool
  | 0, _, _, _ => throw .fuel
  | f + 1, op, a, b =>
    match asInt? a, asInt? b with
    | some x, some y =>
      match op with
      | .lt => pure (decide (x < y)) | .le => pure (decide (x ≤ y))
      | .gt => pure (decide (x > y)) | .ge => pure (decide (x ≥ y))
      | _ => throw (.stuck 8)
    | _, _ =>
      match a with
      | .obj c _ =>
        let m := match op with | .lt => K.lt__ | .le => K.le__ | .gt => K.gt__ | _ => K.ge__
        match P.method? classDepth c m with
        | some (_, fd) => do let (r, _) ← callFn P f fd [a, b]; pure (truthy r)
        | none => throw (.exc K.TypeError)
      | _ => throw (.exc K.TypeError)

def evalArgs (P : Program) : Nat → Env → List Expr → R (List Val)
  | 0, _, _ => throw .fuel
  | _ + 1, _, [] => pure []
  | f + 1, env, e :: es => do
    let v ← eval P f env e
    let vs ← evalArgs P f env es
    pure (v :: vs)

def evalOpt (P : Program) : Nat → Env → Option Expr → R (Option Int)
  | 0, _, _ => throw .fuel
  | _ + 1, _, none => pure none
  | f + 1, env, some e => do
    match asInt? (← eval P f env e) with
    | some i => pure (some i)
    | none => throw (.exc K.TypeError)

/-- instance construction `C(args)` -/
def construct (P : Program) : Nat → Id → List Val → R Val
  | 0, _, _ => throw .fuel
  | f + 1, c, args =>
    match P.cls? c with
    | none => throw (.stuck 9)
    | some cd =>
      if cd.isEnum then
        match args with
        | [v] => match asInt? v with
          | some n => if (memberName? cd n).isSome then pure (.enum c n) else throw (.exc K.ValueError)
          | none => throw (.exc K.ValueError)
        | _ => throw (.exc K.TypeError)
      else if cd.isDataclass then
        -- positional arguments in field order, then the defaults
        match bindParams (cd.fields.map (·.1)) (cd.fields.filterMap fun (k, d) => d.map (k, ·)) args with
        | none => throw (.exc K.TypeError)
        | some fs =>
          let o := Val.obj c fs
          match P.method? classDepth c K.postInit with
          | some (_, fd) => do let (_, o') ← callFn P f fd [o]; pure o'
          | none => pure o
      else
        match P.method? classDepth c K.init with
        | some (_, fd) => do let (_, o') ← callFn P f fd (Val.obj c [] :: args); pure o'
        | none => pure (.obj c [])

def eval (P : Program) : Nat → Env → Expr → R Val
  | 0, _, _ => throw .fuel
  | f + 1, env, e =>
    match e with
    | .const v => pure v
    | .var x =>
      match lookup env x with
      | some v => pure v
      | none => match lookup P.globals x with
        | some v => pure v
        | none => throw (.stuck 10)
    | .attr e a => do getAttr P f (← eval P f env e) a
    | .call fn args => do
      match findFunc P.funcs 0 fn with
      | some fd => do let (r, _) ← callFn P f fd (← evalArgs P f env args); pure r
      | none => throw (.stuck 11)
    | .new c args => do construct P f c (← evalArgs P f env args)
    | .byName c e => do
      match P.cls? c, (← eval P f env e) with
      | some cd, .str s => match memberValue? cd s with
        | some n => pure (.enum c n)
        | none => throw (.exc K.KeyError)
      | _, _ => throw (.exc K.KeyError)
    | .meth recv m args => do
      let r ← eval P f env recv
      match r with
      | .none => throw (.exc K.AttributeError)
      | _ =>
        match classOf? r with
        | none => throw (.stuck 12)
        | some c =>
          match P.method? classDepth c m with
          | some (_, fd) => do let (v, _) ← callFn P f fd (r :: (← evalArgs P f env args)); pure v
          | none => throw (.exc K.AttributeError)
    | .static c m args => do
      match P.method? classDepth c m with
      | some (_, fd) => do let (v, _) ← callFn P f fd (← evalArgs P f env args); pure v
      | none => throw (.exc K.AttributeError)
    | .binop op a b => do binopVal op (← eval P f env a) (← eval P f env b)
    | .cmp op a b => do
      let x ← eval P f env a
      let y ← eval P f env b
      match op with
      | .eq => pure (.bool (x.beq y))
      | .ne => pure (.bool (!x.beq y))
      | .is => pure (.bool (x.beq y))          -- the translator admits `is` only against None / Enum members / classes
      | .isNot => pure (.bool (!x.beq y))
      | .inn | .notIn =>
        let neg := op == .notIn
        match y with
        | .tuple ys => pure (.bool (containsVal ys x != neg))
        | .dict kvs => pure (.bool ((lookupD kvs x).isSome != neg))
        | _ => throw (.exc K.TypeError)
      | _ => do pure (.bool (← compareVals P f op x y))
    | .not e => do pure (.bool (!truthy (← eval P f env e)))
    | .and a b => do
      let x ← eval P f env a
      if truthy x then eval P f env b else pure x
    | .or a b => do
      let x ← eval P f env a
      if truthy x then pure x else eval P f env b
    | .neg e => do
      match asInt? (← eval P f env e) with
      | some n => pure (.int (-n))
      | none => throw (.exc K.TypeError)
    | .ifexp c t e => do
      if truthy (← eval P f env c) then eval P f env t else eval P f env e
    | .index e i => do
      let x ← eval P f env e
      let iv ← eval P f env i
      match x with
      | .tuple xs =>
        match asInt? iv with
        | some n => match normIndex xs.length n with
          | some k => pure (xs.getD k .none)
          | none => throw (.exc K.IndexError)
        | none => throw (.exc K.TypeError)
      | .str s =>
        match asInt? iv with
        | some n => match normIndex s.length n with
          | some k => pure (.str [s.getD k ' '])
          | none => throw (.exc K.IndexError)
        | none => throw (.exc K.TypeError)
      | .dict kvs =>
        match lookupD kvs iv with
        | some v => pure v
        | none => throw (.exc K.KeyError)
      | .obj c _ =>
        match P.method? classDepth c K.getitem__ with
        | some (_, fd) => do let (v, _) ← callFn P f fd [x, iv]; pure v
        | none => throw (.exc K.TypeError)
      | _ => throw (.exc K.TypeError)
    | .slice e lo hi => do
      let x ← eval P f env e
      let l ← evalOpt P f env lo
      let h ← evalOpt P f env hi
      match x with
      | .tuple xs => pure (.tuple (sliceList xs l h))
      | .str s => pure (.str (sliceList s l h))
      | _ => throw (.exc K.TypeError)
    | .tuple es => do pure (.tuple (← evalArgs P f env es))
    | .fstr es => do
      let vs ← evalArgs P f env es
      let ss ← strAll P f vs
      pure (.str ss)
    | .dictOf kvs => do
      let ks ← evalArgs P f env (kvs.map (·.1))
      let vs ← evalArgs P f env (kvs.map (·.2))
      pure (.dict ((ks.zip vs).foldl (fun acc (k, v) => updateD acc k v) []))
    | .comp x iter cond body => do
      match iterItems P (← eval P f env iter) with
      | none => throw (.exc K.TypeError)
      | some items => do pure (.tuple (← compItems P f env x items cond body))
    | .dictComp x iter k v => do
      match iterItems P (← eval P f env iter) with
      | none => throw (.exc K.TypeError)
      | some items => do pure (.dict (← dictCompItems P f env x items k v))
    | .builtin b args => do
      let vs ← evalArgs P f env args
      match b, vs with
      | .abs, [v] => match asInt? v with
        | some n => pure (.int (Int.ofNat n.natAbs))
        | none => throw (.exc K.TypeError)
      | .len, [.tuple xs] => pure (.int (Int.ofNat xs.length))
      | .len, [.str s] => pure (.int (Int.ofNat s.length))
      | .len, [.dict kvs] => pure (.int (Int.ofNat kvs.length))
      | .len, [_] => throw (.exc K.TypeError)
      | .int, [.str s] => match parseInt? s with
        | some n => pure (.int n)
        | none => throw (.exc K.ValueError)
      | .int, [.obj c fs] =>
        match P.method? classDepth c K.int__ with
        | some (_, fd) => do let (r, _) ← callFn P f fd [.obj c fs]; pure r
        | none => throw (.exc K.TypeError)
      | .int, [v] => match asInt? v with
        | some n => pure (.int n)
        | none => throw (.exc K.TypeError)
      | .str, [v] => do pure (.str (← strOf P f v))
      | .tuple, [] => pure (.tuple [])
      | .tuple, [v] => match iterItems P v with
        | some xs => pure (.tuple xs)
        | none => throw (.exc K.TypeError)
      | .set, [] => pure (.tuple [])
      | .set, [v] => match iterItems P v with
        | some xs => pure (.tuple (xs.foldl (fun acc x => if containsVal acc x then acc else acc ++ [x]) []))
        | none => throw (.exc K.TypeError)
      | .range, [v] => match asInt? v with
        | some n => pure (.tuple ((List.range n.toNat).map fun i => .int (Int.ofNat i)))
        | none => throw (.exc K.TypeError)
      | .enumerate, [v] => match iterItems P v with
        | some xs => pure (.tuple (xs.mapIdx fun i x => .tuple [.int (Int.ofNat i), x]))
        | none => throw (.exc K.TypeError)
      | .npOnes, [v] => match asInt? v with
        | some n => pure (.tuple (List.replicate n.toNat (.int 1)))
        | none => throw (.exc K.TypeError)
      | .isinstance, [v, .cls c] =>
        match classOf? v with
        | some c' => pure (.bool (P.isSubclass classDepth c' c))
        | none => pure (.bool false)
      | _, _ => throw (.stuck 13)

def strAll (P : Program) : Nat → List Val → R (List Char)
  | 0, _ => throw .fuel
  | _ + 1, [] => pure []
  | f + 1, v :: vs => do
    let s ← strOf P f v
    let r ← strAll P f vs
    pure (s ++ r)

def compItems (P : Program) : Nat → Env → Id → List Val → Option Expr → Expr → R (List Val)
  | 0, _, _, _, _, _ => throw .fuel
  | _ + 1, _, _, [], _, _ => pure []
  | f + 1, env, x, it :: items, cond, body => do
    let env' := update env x it
    let keep ← match cond with
      | some c => do pure (truthy (← eval P f env' c))
      | none => pure true
    let rest ← compItems P f env x items cond body
    if keep then do
      let v ← eval P f env' body
      pure (v :: rest)
    else pure rest

def dictCompItems (P : Program) : Nat → Env → Id → List Val → Expr → Expr → R (List (Val × Val))
  | 0, _, _, _, _, _ => throw .fuel
  | _ + 1, _, _, [], _, _ => pure []
  | f + 1, env, x, it :: items, k, v => do
    let env' := update env x it
    let kv ← eval P f env' k
    let vv ← eval P f env' v
    let rest ← dictCompItems P f env x items k v
    pure ((kv, vv) :: rest)

/-- write `v` at the path `t` -/
def assignTo (P : Program) : Nat → Env → Target → Val → R Env
  | 0, _, _, _ => throw .fuel
  | f + 1, env, t, v =>
    match t with
    | .var x => pure (update env x v)
    | .attr t' a => do
      match (← eval P f env t'.toExpr) with
      | .obj c fs => assignTo P f env t' (.obj c (setField fs a v))
      | _ => throw (.exc K.AttributeError)
    | .index t' i => do
      let old ← eval P f env t'.toExpr
      let iv ← eval P f env i
      match old with
      | .tuple xs =>
        match asInt? iv with
        | some n => match normIndex xs.length n with
          | some k => assignTo P f env t' (.tuple (replaceAt xs k v))
          | none => throw (.exc K.IndexError)
        | none => throw (.exc K.TypeError)
      | .dict kvs => assignTo P f env t' (.dict (updateD kvs iv v))
      | _ => throw (.exc K.TypeError)

def assignAll (P : Program) : Nat → Env → List Target → List Val → R Env
  | 0, _, _, _ => throw .fuel
  | _ + 1, env, [], [] => pure env
  | f + 1, env, t :: ts, v :: vs => do
    let env' ← assignTo P f env t v
    assignAll P f env' ts vs
  | _ + 1, _, _, _ => throw (.exc K.ValueError)

def execStmt (P : Program) : Nat → Env → Stmt → R (Env × Flow)
  | 0, _, _ => throw .fuel
  | f + 1, env, s =>
    match s with
    | .assign t e => do
      let v ← eval P f env e
      pure (← assignTo P f env t v, .next)
    | .unpack ts e => do
      match (← eval P f env e) with
      | .tuple vs => do pure (← assignAll P f env ts vs, .next)
      | _ => throw (.exc K.TypeError)
    | .sliceFill t lo hi e => do
      let v ← eval P f env e
      let l ← evalOpt P f env lo
      let h ← evalOpt P f env hi
      match (← eval P f env t.toExpr) with
      | .tuple xs => do pure (← assignTo P f env t (.tuple (fillSlice xs l h v)), .next)
      | _ => throw (.exc K.TypeError)
    | .mut t op e => do
      let v ← eval P f env e
      match (← eval P f env t.toExpr) with
      | .tuple xs =>
        match op with
        | .append => do pure (← assignTo P f env t (.tuple (xs ++ [v])), .next)
        | .add => do pure (← assignTo P f env t (.tuple (if containsVal xs v then xs else xs ++ [v])), .next)
        | .remove =>
          match removeFirst xs v with
          | some ys => do pure (← assignTo P f env t (.tuple ys), .next)
          | none => throw (.exc K.KeyError)
      | .none => throw (.exc K.AttributeError)
      | _ => throw (.exc K.TypeError)
    | .callMut t m args => do
      let r ← eval P f env t.toExpr
      match r with
      | .none => throw (.exc K.AttributeError)
      | _ =>
        match classOf? r with
        | none => throw (.stuck 14)
        | some c =>
          match P.method? classDepth c m with
          | some (_, fd) => do
            let (_, r') ← callFn P f fd (r :: (← evalArgs P f env args))
            pure (← assignTo P f env t r', .next)
          | none => throw (.exc K.AttributeError)
    | .callMutStatic c m args => do
      match P.method? classDepth c m with
      | some (_, fd) => do
        let vs ← evalArgs P f env args
        let (_, r') ← callFn P f fd vs
        pure (update env K.self r', .next)
      | none => throw (.exc K.AttributeError)
    | .expr e => do let _ ← eval P f env e; pure (env, .next)
    | .ite c t e => do
      if truthy (← eval P f env c) then exec P f env t else exec P f env e
    | .while c body => execWhile P f env c body
    | .for xs iter body => do
      match iterItems P (← eval P f env iter) with
      | some items => execFor P f env xs items body
      | none => throw (.exc K.TypeError)
    | .ret e => do pure (env, .ret (← eval P f env e))
    | .raise c => throw (.exc c)
    | .assert e => do
      if truthy (← eval P f env e) then pure (env, .next) else throw (.exc K.AssertionError)
    | .brk => pure (env, .brk)
    | .cont => pure (env, .cont)
    | .pass => pure (env, .next)

def exec (P : Program) : Nat → Env → List Stmt → R (Env × Flow)
  | 0, _, _ => throw .fuel
  | _ + 1, env, [] => pure (env, .next)
  | f + 1, env, s :: ss => do
    let (env', fl) ← execStmt P f env s
    match fl with
    | .next => exec P f env' ss
    | _ => pure (env', fl)

def execWhile (P : Program) : Nat → Env → Expr → List Stmt → R (Env × Flow)
  | 0, _, _, _ => throw .fuel
  | f + 1, env, c, body => do
    if truthy (← eval P f env c) then do
      let (env', fl) ← exec P f env body
      match fl with
      | .brk => pure (env', .next)
      | .ret v => pure (env', .ret v)
      | _ => execWhile P f env' c body
    else pure (env, .next)

def execFor (P : Program) : Nat → Env → List Id → List Val → List Stmt → R (Env × Flow)
  | 0, _, _, _, _ => throw .fuel
  | _ + 1, env, _, [], _ => pure (env, .next)
  | f + 1, env, xs, it :: items, body => do
    let env1 ← match xs, it with
      | [x], v => pure (update env x v)
      | xs, .tuple vs =>
        if xs.length = vs.length then pure ((xs.zip vs).foldl (fun e (x, v) => update e x v) env)
        else throw (.exc K.ValueError)
      | _, _ => throw (.exc K.TypeError)
    let (env', fl) ← exec P f env1 body
    match fl with
    | .brk => pure (env', .next)
    | .ret v => pure (env', .ret v)
    | _ => execFor P f env' xs items body

end

/-- the fuel every top-level call is given (far above what any function of the core needs) -/
abbrev topFuel : Nat := 100000

/-- run a module-level function -/
def Program.runFn (P : Program) (fn : Id) (args : List Val) : R Val :=
  match findFunc P.funcs 0 fn with
  | some fd => (callFn P topFuel fd args).map (·.1)
  | none => throw (.stuck 20)

/-- run a method (or property) of class `c` on `self :: args`; returns the result and the updated `self` -/
def Program.runMethod (P : Program) (c m : Id) (args : List Val) : R (Val × Val) :=
  match P.method? classDepth c m with
  | some (_, fd) => callFn P topFuel fd args
  | none => throw (.stuck 21)

def Program.runNew (P : Program) (c : Id) (args : List Val) : R Val := construct P topFuel c args

def R.int? : R Val → Option Int
  | .ok (.int n) => some n
  | _ => none
def R.bool? : R Val → Option Bool
  | .ok (.bool b) => some b
  | _ => none
def R.str? : R Val → Option (List Char)
  | .ok (.str s) => some s
  | _ => none
def R.enum? : R Val → Option (Id × Int)
  | .ok (.enum c n) => some (c, n)
  | _ => none
def R.isNone : R Val → Bool
  | .ok .none => true
  | _ => false
def R.exc? {α} : R α → Option Id
  | .error (.exc c) => some c
  | _ => none

end Bridge.Py
