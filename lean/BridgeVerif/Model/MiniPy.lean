import BridgeVerif.Model.Json
import BridgeVerif.Model.Regex
/-!
# MiniPy — a small, total, executable semantics for the Python subset the pure core of bridge_env is written in

The repository's pure core (`suit.py`, `pair.py`, `vul.py`, `player.py`, `bid.py`, `card.py`, `contract.py`, `score.py`,
`bidding_phase.py`, `playing_phase.py`) is TRANSLATED on every run (harness/translate_py.py) into a value of type
`Program` (Generated/PyCore.lean): the translator only re-writes the Python abstract syntax tree constructor by
constructor; what the syntax MEANS is defined here, once, by the interpreter `eval` / `exec` / `callFn`.

* values are immutable (`Val`); an assignment through a path (`self.x[i] = v`, `self.h.append(c)`) is a functional
  update of the variable at the root of the path — aliasing between two variables is therefore NOT modelled (the
  correspondence check runs the real objects and is what sees aliasing);
* every function is given fuel, so the interpreter is total and the kernel can evaluate it (`decide +kernel`);
* `Err.exc c` is a Python exception of class `c` propagating out; `Err.stuck n` means the program left the modelled
  subset (never a claim about Python); `Err.fuel` means the fuel ran out.

Identifiers are natural numbers (the translator interns them; Generated/PyCore.lean carries the table).
A few identifiers have a meaning to the interpreter itself and are fixed here (`Py.K.*`).
-/
namespace Bridge.Py

abbrev Id := Nat

/-! identifiers the interpreter itself knows -/
namespace K
abbrev value : Id := 1
abbrev name : Id := 2
abbrev str__ : Id := 3          -- __str__
abbrev int__ : Id := 4          -- __int__
abbrev lt__ : Id := 5
abbrev le__ : Id := 6
abbrev gt__ : Id := 7
abbrev ge__ : Id := 8
abbrev postInit : Id := 9       -- __post_init__
abbrev init : Id := 10          -- __init__
abbrev class__ : Id := 11       -- __class__
abbrev self : Id := 12
abbrev getitem__ : Id := 13     -- __getitem__
abbrev ValueError : Id := 20
abbrev Exception : Id := 21
abbrev AssertionError : Id := 22
abbrev KeyError : Id := 23
abbrev IndexError : Id := 24
abbrev NotImplementedError : Id := 25
abbrev TypeError : Id := 26
abbrev AttributeError : Id := 27
abbrev ZeroDivisionError : Id := 28
end K

inductive Val where
  | int (n : Int)
  | bool (b : Bool)
  | none
  | str (s : List Char)
  | tuple (xs : List Val)                       -- tuple / list / set (in insertion order) / numpy vector
  | enum (cls : Id) (value : Int)               -- a member of an Enum class
  | obj (cls : Id) (fields : List (Id × Val))   -- an instance with attributes
  | dict (kvs : List (Val × Val))
  | cls (c : Id)                                -- a class object
deriving Repr, Inhabited

mutual
/-- Python `==` on the modelled values (`True == 1`; objects compare attribute-wise, as dataclasses do) -/
def Val.beq : Val → Val → Bool
  | .int a, .int b => a == b
  | .bool a, .bool b => a == b
  | .int a, .bool b => a == (if b then 1 else 0)
  | .bool a, .int b => b == (if a then 1 else 0)
  | .none, .none => true
  | .str a, .str b => a == b
  | .tuple a, .tuple b => beqL a b
  | .enum c a, .enum d b => c == d && a == b
  | .obj c a, .obj d b => c == d && beqF a b
  | .dict a, .dict b => beqD a b
  | .cls a, .cls b => a == b
  | _, _ => false
def beqL : List Val → List Val → Bool
  | [], [] => true
  | a :: as, b :: bs => Val.beq a b && beqL as bs
  | _, _ => false
def beqF : List (Id × Val) → List (Id × Val) → Bool
  | [], [] => true
  | (k, a) :: as, (l, b) :: bs => k == l && Val.beq a b && beqF as bs
  | _, _ => false
def beqD : List (Val × Val) → List (Val × Val) → Bool
  | [], [] => true
  | (k, a) :: as, (l, b) :: bs => Val.beq k l && Val.beq a b && beqD as bs
  | _, _ => false
end

mutual
/-- a Python value as `json.dumps` sees it (`None` for values the encoder refuses / the library never passes) -/
def valToJson : Val → Option Json
  | .int n => some (.int n)
  | .bool b => some (.bool b)
  | .none => some .null
  | .str s => some (.str s)
  | .tuple xs => (valsToJson xs).map .arr
  | .dict kvs => (kvsToJson kvs).map .obj
  | _ => none
def valsToJson : List Val → Option (List Json)
  | [] => some []
  | v :: vs => match valToJson v, valsToJson vs with
    | some j, some js => some (j :: js)
    | _, _ => none
def kvsToJson : List (Val × Val) → Option (List (List Char × Json))
  | [] => some []
  | (.str k, v) :: r => match valToJson v, kvsToJson r with
    | some j, some js => some ((k, j) :: js)
    | _, _ => none
  | _ :: _ => none
end

mutual
/-- what `json.loads` builds: objects are `dict`s with string keys, arrays are lists -/
def jsonToVal : Json → Val
  | .null => .none
  | .bool b => .bool b
  | .int i => .int i
  | .str s => .str s
  | .arr l => .tuple (jsonsToVals l)
  | .obj l => .dict (membersToKvs l)
def jsonsToVals : List Json → List Val
  | [] => []
  | j :: js => jsonToVal j :: jsonsToVals js
def membersToKvs : List (List Char × Json) → List (Val × Val)
  | [] => []
  | (k, j) :: r => (.str k, jsonToVal j) :: membersToKvs r
end

inductive BinOp | add | sub | mul | fdiv | mod
deriving Repr, DecidableEq
inductive CmpOp | eq | ne | lt | le | gt | ge | is | isNot | inn | notIn
deriving Repr, DecidableEq
inductive Builtin
  | abs | len | int | str | tuple | range | enumerate | npOnes | isinstance | set
  | sorted | sortedDesc | join | items
  | reMatch | reFullmatch | reSearch | reSub | reFindall      -- the `re` functions (Model/Regex.lean), optional IGNORECASE
  | capitalize | lower | upper | replace | split | zip        -- `s.lower()`, `s.upper()`, `s.replace(a, b)`, `s.split(sep)`, `zip(a, b)`
  | isupper                                     -- `s.isupper()` (ASCII letters; the core applies it to one character)
  | jsonDumps | jsonLoads                       -- `json.dumps(v, indent=None)` / `json.loads(text)` (Model/Json.lean)
  | all | any                                   -- `all(xs)` / `any(xs)` over a list already evaluated
  | find | splitOnce | lstrip                   -- `s.find(sub)`, `s.split(sep, 1)`, `s.lstrip()` (ASCII white space)
  | reSearchSpan | reSubPieces                  -- `re.search` whose match object also knows its span; the pieces of `re.sub(pat, fn, s)`
deriving Repr, DecidableEq
inductive MutOp | append | add | remove
deriving Repr, DecidableEq

inductive Expr where
  | const (v : Val)
  | var (x : Id)
  | attr (e : Expr) (a : Id)
  | call (f : Id) (args : List Expr)                           -- a module-level function of the translated program
  | builtin (b : Builtin) (args : List Expr)
  | new (c : Id) (args : List Expr)                            -- `C(args)` : Enum by value / instance construction
  | byName (c : Id) (e : Expr)                                 -- `C[e]` : Enum by name
  | meth (recv : Expr) (m : Id) (args : List Expr)             -- `recv.m(args)` : dispatch on the class of the receiver
  | static (c : Id) (m : Id) (args : List Expr)                -- `C.m(args)` / `cls.m(args)` / `super().m(args)` with explicit self
  | binop (op : BinOp) (a b : Expr)
  | cmp (op : CmpOp) (a b : Expr)
  | not (e : Expr)
  | and (a b : Expr)
  | or (a b : Expr)
  | neg (e : Expr)
  | ifexp (c t e : Expr)
  | index (e i : Expr)
  | slice (e : Expr) (lo hi : Option Expr)
  | tuple (es : List Expr)
  | fstr (es : List Expr)                                      -- f-string: `str()` of every part, concatenated
  | dictOf (kvs : List (Expr × Expr))
  | comp (x : Id) (iter : Expr) (cond : Option Expr) (e : Expr)          -- [e for x in iter if cond] (also set comprehension)
  | dictComp (x : Id) (iter : Expr) (k v : Expr)
  | compT (xs : List Id) (iter : Expr) (cond : Option Expr) (e : Expr)   -- `[e for a, b in iter if cond]`
  | dictCompT (xs : List Id) (iter : Expr) (k v : Expr)                  -- `{k: v for a, b in iter}`
deriving Repr, Inhabited

inductive Target where
  | var (x : Id)
  | attr (t : Target) (a : Id)
  | index (t : Target) (i : Expr)
deriving Repr, Inhabited

def Target.toExpr : Target → Expr
  | .var x => .var x
  | .attr t a => .attr t.toExpr a
  | .index t i => .index t.toExpr i

inductive Stmt where
  | assign (t : Target) (e : Expr)
  | unpack (ts : List Target) (e : Expr)
  | sliceFill (t : Target) (lo hi : Option Expr) (e : Expr)    -- numpy `a[lo:hi] = scalar`
  | mut (t : Target) (op : MutOp) (e : Expr)                   -- `t.append(e)` / `t.add(e)` / `t.remove(e)`
  | callMut (t : Target) (m : Id) (args : List Expr)           -- `t.m(args)` as a statement: the receiver is written back
  | callMutStatic (c : Id) (m : Id) (args : List Expr)         -- `super().m(args)` as a statement: `self` is written back
  | callMutRet (x : Target) (t : Target) (m : Id) (args : List Expr)   -- `x = t.m(args)`: the receiver is written back, THEN the result is assigned
  | expr (e : Expr)
  | ite (c : Expr) (t e : List Stmt)
  | while (c : Expr) (body : List Stmt)
  | for (xs : List Id) (iter : Expr) (body : List Stmt)        -- one variable, or a tuple of variables
  | ret (e : Expr)
  | raise (exc : Id)
  | assert (e : Expr)
  | brk
  | cont
  | pass
deriving Repr, Inhabited

structure FuncDef where
  params : List Id
  defaults : List (Id × Val) := []
  body : List Stmt
deriving Repr, Inhabited

structure ClassDef where
  name : List Char
  base : Option Id := none
  members : List (List Char × Int) := []      -- Enum members, in definition order
  fields : List (Id × Option Val) := []       -- dataclass fields in order, with constant defaults
  isEnum : Bool := false
  isDataclass : Bool := false
  methods : List (Id × FuncDef) := []          -- methods, properties, class and static methods defined in the class
deriving Repr, Inhabited

structure Program where
  classes : List (Id × ClassDef)
  funcs : List (Id × FuncDef)                 -- module-level functions
  globals : List (Id × Val)
deriving Repr, Inhabited

inductive Err where
  | exc (c : Id)
  | stuck (code : Nat)
  | fuel
deriving Repr, DecidableEq, Inhabited

abbrev R := Except Err

inductive Flow where
  | next | ret (v : Val) | brk | cont
deriving Repr, Inhabited

abbrev Env := List (Id × Val)

def lookup : Env → Id → Option Val
  | [], _ => none
  | (k, v) :: r, x => if k = x then some v else lookup r x

def update : Env → Id → Val → Env
  | [], x, v => [(x, v)]
  | (k, w) :: r, x, v => if k = x then (k, v) :: r else (k, w) :: update r x v

def lookupD : List (Val × Val) → Val → Option Val
  | [], _ => none
  | (k, v) :: r, x => if k.beq x then some v else lookupD r x

def updateD : List (Val × Val) → Val → Val → List (Val × Val)
  | [], x, v => [(x, v)]
  | (k, w) :: r, x, v => if k.beq x then (k, v) :: r else (k, w) :: updateD r x v


def findFunc : List (Id × FuncDef) → Id → Option FuncDef
  | [], _ => none
  | (m, fd) :: r, m' => if m = m' then some fd else findFunc r m'

def findClass : List (Id × ClassDef) → Id → Option ClassDef
  | [], _ => none
  | (c, cd) :: r, c' => if c = c' then some cd else findClass r c'

def Program.cls? (P : Program) (c : Id) : Option ClassDef := findClass P.classes c

/-- method resolution along the (single-inheritance) base chain; `depth` bounds the chain -/
def Program.method? (P : Program) : Nat → Id → Id → Option (Id × FuncDef)
  | 0, _, _ => none
  | d + 1, c, m =>
    match P.cls? c with
    | none => none
    | some cd =>
      match findFunc cd.methods m with
      | some fd => some (c, fd)
      | none => match cd.base with
        | some b => P.method? d b m
        | none => none

def Program.isSubclass (P : Program) : Nat → Id → Id → Bool
  | 0, _, _ => false
  | d + 1, c, c' =>
    c == c' || (match P.cls? c with
      | some cd => match cd.base with
        | some b => P.isSubclass d b c'
        | none => false
      | none => false)

def truthy : Val → Bool
  | .int n => n != 0
  | .bool b => b
  | .none => false
  | .str s => !s.isEmpty
  | .tuple xs => !xs.isEmpty
  | .dict kvs => !kvs.isEmpty
  | _ => true

def asInt? : Val → Option Int
  | .int n => some n
  | .bool b => some (if b then 1 else 0)
  | _ => none

def classOf? : Val → Option Id
  | .enum c _ => some c
  | .obj c _ => some c
  | _ => none

def natDigits : Nat → Nat → List Char
  | 0, _ => ['0']
  | fuel + 1, n => if n < 10 then [Char.ofNat (48 + n)] else natDigits fuel (n / 10) ++ [Char.ofNat (48 + n % 10)]

/-- `str(n)` for every integer (the fuel `|n| + 1` exceeds the number of digits) -/
def intStr (n : Int) : List Char :=
  if n < 0 then '-' :: natDigits (n.natAbs + 1) n.natAbs else natDigits (n.natAbs + 1) n.natAbs

def parseNat? : List Char → Option Nat
  | [] => none
  | cs => cs.foldl (fun acc c => acc.bind fun a => if c.isDigit then some (a * 10 + (c.toNat - 48)) else none) (some 0)

/-- Python `int(s)` for the plain decimal texts the core uses (optional sign, digits); anything else raises ValueError -/
def parseInt? : List Char → Option Int
  | '-' :: cs => (parseNat? cs).map fun n => -(n : Int)
  | '+' :: cs => (parseNat? cs).map fun n => (n : Int)
  | cs => (parseNat? cs).map fun n => (n : Int)

def normIndex (len : Nat) (i : Int) : Option Nat :=
  if 0 ≤ i then (if i.toNat < len then some i.toNat else none)
  else if i.natAbs ≤ len then some (len - i.natAbs) else none

/-- slice bound: clamp to `[0, len]` -/
def clampIndex (len : Nat) (i : Int) : Nat :=
  if 0 ≤ i then min i.toNat len else len - min i.natAbs len

def sliceList {α} (xs : List α) (lo hi : Option Int) : List α :=
  let n := xs.length
  let l := match lo with | some i => clampIndex n i | none => 0
  let h := match hi with | some i => clampIndex n i | none => n
  (xs.drop l).take (h - l)

def memberName? (cd : ClassDef) (v : Int) : Option (List Char) :=
  (cd.members.find? (·.2 == v)).map (·.1)
def memberValue? (cd : ClassDef) (n : List Char) : Option Int :=
  (cd.members.find? (·.1 == n)).map (·.2)

def binopVal (op : BinOp) (a b : Val) : R Val :=
  match op, a, b with
  | .add, .str x, .str y => pure (.str (x ++ y))
  | .add, .tuple x, .tuple y => pure (.tuple (x ++ y))
  | .mul, .tuple x, .int n => pure (.tuple ((List.replicate n.toNat x).flatten))        -- `[0] * 52`
  | _, _, _ =>
    match asInt? a, asInt? b with
    | some x, some y =>
      match op with
      | .add => pure (.int (x + y))
      | .sub => pure (.int (x - y))
      | .mul => pure (.int (x * y))
      | .fdiv => if y = 0 then throw (.exc K.ZeroDivisionError) else pure (.int (x.fdiv y))
      | .mod => if y = 0 then throw (.exc K.ZeroDivisionError) else pure (.int (x.fmod y))
    | _, _ => throw (.exc K.TypeError)

def setField : List (Id × Val) → Id → Val → List (Id × Val) := update

def replaceAt : List Val → Nat → Val → List Val
  | [], _, _ => []
  | _ :: r, 0, v => v :: r
  | x :: r, n + 1, v => x :: replaceAt r n v

def removeFirst : List Val → Val → Option (List Val)
  | [], _ => none
  | x :: r, v => if x.beq v then some r else (removeFirst r v).map (x :: ·)

def containsVal (xs : List Val) (v : Val) : Bool := xs.any (·.beq v)

def bindParams : List Id → List (Id × Val) → List Val → Option Env
  | [], _, [] => some []
  | [], _, _ :: _ => none
  | p :: ps, ds, a :: as => (bindParams ps ds as).map ((p, a) :: ·)
  | p :: ps, ds, [] =>
    match lookup ds p with
    | some d => (bindParams ps ds []).map ((p, d) :: ·)
    | none => none

def fillSlice (xs : List Val) (lo hi : Option Int) (v : Val) : List Val :=
  let n := xs.length
  let l := match lo with | some i => clampIndex n i | none => 0
  let h := match hi with | some i => clampIndex n i | none => n
  xs.mapIdx fun i x => if l ≤ i ∧ i < h then v else x

def iterItems (P : Program) : Val → Option (List Val)
  | .tuple xs => some xs
  | .str s => some (s.map fun c => .str [c])
  | .dict kvs => some (kvs.map (·.1))
  | .cls c => match P.cls? c with
    | some cd => if cd.isEnum then some (cd.members.map fun m => .enum c m.2) else none
    | none => none
  | _ => none

/-- how deep a chain of base classes may be -/
abbrev classDepth : Nat := 6


/-! ## The interpreter

Written with OPEN recursion: every function below takes the interpreter "one level of fuel down" as a record of
call-backs (`Rec`); `mkRec` ties the knot by structural recursion on the fuel.  (A `mutual` block over the fuel means
the same thing, but its compiled form is one enormous term that the kernel has to instantiate at every step; this
form keeps each unfolding small, which is what makes `decide +kernel` over whole domains affordable.) -/

structure Rec where
  eval : Env → Expr → R Val
  exec : Env → List Stmt → R (Env × Flow)
  call : FuncDef → List Val → R (Val × Val)
  loop : Env → Expr → List Stmt → R (Env × Flow)

def mapR {α β} (f : α → R β) : List α → R (List β)
  | [] => pure []
  | a :: as => do
    let b ← f a
    let bs ← mapR f as
    pure (b :: bs)

/-- call a function with the given arguments; returns the result and the final value of its first parameter (`self`) -/
def callF (r : Rec) (fd : FuncDef) (args : List Val) : R (Val × Val) :=
  match bindParams fd.params fd.defaults args with
  | none => throw (.exc K.TypeError)
  | some env => do
    let (env', fl) ← r.exec env fd.body
    let self' := match fd.params with
      | p :: _ => (lookup env' p).getD .none
      | [] => .none
    match fl with
    | .ret v => pure (v, self')
    | _ => pure (.none, self')

/-- call method `m` of class `c` (found along the base chain) -/
def callMethod (r : Rec) (P : Program) (c m : Id) (args : List Val) (missing : Err) : R (Val × Val) :=
  match P.method? classDepth c m with
  | some (_, fd) => r.call fd args
  | none => throw missing

/-- `v.a` -/
def getAttrF (r : Rec) (P : Program) (v : Val) (a : Id) : R Val :=
  match v with
  | .none => throw (.exc K.AttributeError)
  | .enum c n =>
    if a = K.value then pure (.int n)
    else if a = K.class__ then pure (.cls c)
    else if a = K.name then
      match P.cls? c with
      | some cd => match memberName? cd n with
        | some s => pure (.str s)
        | none => throw (.stuck 1)
      | none => throw (.stuck 2)
    else do let (x, _) ← callMethod r P c a [v] (.exc K.AttributeError); pure x       -- a property
  | .obj c fs =>
    if a = K.class__ then pure (.cls c) else
    match lookup fs a with
    | some x => pure x
    | none => do let (x, _) ← callMethod r P c a [v] (.exc K.AttributeError); pure x
  | .cls c =>
    if a = K.name then
      match P.cls? c with
      | some cd => pure (.str cd.name)
      | none => throw (.stuck 3)
    else throw (.stuck 4)
  | _ => throw (.stuck 5)

/-- `str(v)` -/
def strOfF (r : Rec) (P : Program) (v : Val) : R (List Char) :=
  match v with
  | .str s => pure s
  | .int n => pure (intStr n)
  | .bool b => pure (if b then "True".toList else "False".toList)
  | .none => pure "None".toList
  | .enum c _ | .obj c _ => do
    let (x, _) ← callMethod r P c K.str__ [v] (.stuck 6)          -- default `repr`s are not modelled
    match x with
    | .str s => pure s
    | _ => throw (.exc K.TypeError)
  | _ => throw (.stuck 7)

/-- ordering comparison -/
def compareF (r : Rec) (P : Program) (op : CmpOp) (a b : Val) : R Bool :=
  match asInt? a, asInt? b with
  | some x, some y =>
    match op with
    | .lt => pure (decide (x < y)) | .le => pure (decide (x ≤ y))
    | .gt => pure (decide (x > y)) | .ge => pure (decide (x ≥ y))
    | _ => throw (.stuck 8)
  | _, _ =>
    match a with
    | .obj c _ =>
      let m := match op with | .lt => K.lt__ | .le => K.le__ | .gt => K.gt__ | _ => K.ge__
      do let (x, _) ← callMethod r P c m [a, b] (.exc K.TypeError); pure (truthy x)
    | _ => throw (.exc K.TypeError)

def optIntF (r : Rec) (env : Env) : Option Expr → R (Option Int)
  | none => pure none
  | some e => do
    match asInt? (← r.eval env e) with
    | some i => pure (some i)
    | none => throw (.exc K.TypeError)

/-- instance construction `C(args)` -/
def constructF (r : Rec) (P : Program) (c : Id) (args : List Val) : R Val :=
  match P.cls? c with
  | none => throw (.stuck 9)
  | some cd =>
    if cd.isEnum then
      match args with
      | [v] => match asInt? v with
        | some n => if (memberName? cd n).isSome then pure (.enum c n) else throw (.exc K.ValueError)
        | none => throw (.exc K.ValueError)
      | _ => throw (.exc K.TypeError)
    else if cd.isDataclass then
      -- positional arguments in field order, then the defaults
      match bindParams (cd.fields.map (·.1)) (cd.fields.filterMap fun (k, d) => d.map (k, ·)) args with
      | none => throw (.exc K.TypeError)
      | some fs =>
        let o := Val.obj c fs
        match P.method? classDepth c K.postInit with
        | some (_, fd) => do let (_, o') ← r.call fd [o]; pure o'
        | none => pure o
    else
      match P.method? classDepth c K.init with
      | some (_, fd) => do let (_, o') ← r.call fd (Val.obj c [] :: args); pure o'
      | none => pure (.obj c [])

def indexF (r : Rec) (P : Program) (x iv : Val) : R Val :=
  match x with
  | .tuple xs =>
    match asInt? iv with
    | some n => match normIndex xs.length n with
      | some k => pure (xs.getD k .none)
      | none => throw (.exc K.IndexError)
    | none => throw (.exc K.TypeError)
  | .str s =>
    match asInt? iv with
    | some n => match normIndex s.length n with
      | some k => pure (.str [s.getD k ' '])
      | none => throw (.exc K.IndexError)
    | none => throw (.exc K.TypeError)
  | .dict kvs =>
    match lookupD kvs iv with
    | some v => pure v
    | none => throw (.exc K.KeyError)
  | .obj c _ => do let (v, _) ← callMethod r P c K.getitem__ [x, iv] (.exc K.TypeError); pure v
  | _ => throw (.exc K.TypeError)

/-- insert `x` into an ascending list (`<` decided by `compareF`, i.e. integers or the class's `__lt__`) -/
def insertSortedF (r : Rec) (P : Program) (x : Val) : List Val → R (List Val)
  | [] => pure [x]
  | y :: ys => do
    if (← compareF r P .lt x y) then pure (x :: y :: ys)
    else do pure (y :: (← insertSortedF r P x ys))

/-- `sorted(xs)` (stable insertion sort; the core only sorts distinct cards) -/
def sortF (r : Rec) (P : Program) : List Val → R (List Val)
  | [] => pure []
  | x :: xs => do insertSortedF r P x (← sortF r P xs)

/-- ASCII `str.lower()` / `str.upper()` (the core applies them to protocol texts; non-ASCII letters are left alone —
outside the modelled domain) -/
def lowerC (c : Char) : Char := if 'A' ≤ c ∧ c ≤ 'Z' then Char.ofNat (c.toNat + 32) else c
def upperC (c : Char) : Char := if 'a' ≤ c ∧ c ≤ 'z' then Char.ofNat (c.toNat - 32) else c

def isPrefixC : List Char → List Char → Bool
  | [], _ => true
  | _ :: _, [] => false
  | a :: as, b :: bs => a == b && isPrefixC as bs

/-- `a in s` for strings -/
def isInfixC (a : List Char) : List Char → Bool
  | [] => a.isEmpty
  | c :: r => isPrefixC a (c :: r) || isInfixC a r

/-- `s.find(sub)`: index of the first occurrence, scanning from `i` -/
def findFrom (sub : List Char) : Nat → List Char → Option Nat
  | i, [] => if sub.isEmpty then some i else none
  | i, c :: r => if isPrefixC sub (c :: r) then some i else findFrom sub (i + 1) r

/-- ASCII white space as `str.lstrip()` / `str.isspace()` see it (the six ASCII characters; other Unicode white space is
outside the modelled domain) -/
def isSpaceC (c : Char) : Bool := c == ' ' || c == '\t' || c == '\n' || c == '\r' || c == Char.ofNat 11 || c == Char.ofNat 12

/-- `s.replace(a, b)` for non-empty `a`: left to right, non-overlapping -/
def replaceAll (a b : List Char) : Nat → List Char → List Char
  | 0, s => s
  | _ + 1, [] => []
  | f + 1, c :: r =>
    if isPrefixC a (c :: r) then b ++ replaceAll a b f ((c :: r).drop a.length)
    else c :: replaceAll a b f r

/-- `s.split(sep)` for non-empty `sep` -/
def splitOn (sep : List Char) : Nat → List Char → List Char → List (List Char)
  | 0, acc, s => [acc.reverse ++ s]
  | _ + 1, acc, [] => [acc.reverse]
  | f + 1, acc, c :: r =>
    if isPrefixC sep (c :: r) then acc.reverse :: splitOn sep f [] ((c :: r).drop sep.length)
    else splitOn sep f (c :: acc) r

/-- the match object of `re.match` & co. as the translated program sees it: an instance of the synthetic class `_Match`
(given by the translator as a class value) whose `texts` are the group texts, group 0 first (`None` = did not take part) -/
def matchVal (cls : Id) (textsField : Id) (s : List Char) (m : Re.MatchObj) : Val :=
  let g0 : Val := match m.groupText s 0 with | some (some t) => .str t | _ => .none
  let gs : List Val := (List.range m.groups.length).map fun i =>
    match m.groupText s (i + 1) with | some (some t) => .str t | _ => .none
  .obj cls [(textsField, .tuple (g0 :: gs))]

def strsOf : List Val → Option (List (List Char))
  | [] => some []
  | .str s :: r => (strsOf r).map (s :: ·)
  | _ => none

def builtinF (r : Rec) (P : Program) (b : Builtin) (vs : List Val) : R Val :=
  match b, vs with
  | .abs, [v] => match asInt? v with
    | some n => pure (.int (Int.ofNat n.natAbs))
    | none => throw (.exc K.TypeError)
  | .len, [.tuple xs] => pure (.int (Int.ofNat xs.length))
  | .len, [.str s] => pure (.int (Int.ofNat s.length))
  | .len, [.dict kvs] => pure (.int (Int.ofNat kvs.length))
  | .len, [_] => throw (.exc K.TypeError)
  | .int, [.str s] => match parseInt? s with
    | some n => pure (.int n)
    | none => throw (.exc K.ValueError)
  | .int, [.obj c fs] => do let (x, _) ← callMethod r P c K.int__ [.obj c fs] (.exc K.TypeError); pure x
  | .int, [v] => match asInt? v with
    | some n => pure (.int n)
    | none => throw (.exc K.TypeError)
  | .str, [v] => do pure (.str (← strOfF r P v))
  | .tuple, [] => pure (.tuple [])
  | .tuple, [v] => match iterItems P v with
    | some xs => pure (.tuple xs)
    | none => throw (.exc K.TypeError)
  | .set, [] => pure (.tuple [])
  | .set, [v] => match iterItems P v with
    | some xs => pure (.tuple (xs.foldl (fun acc x => if containsVal acc x then acc else acc ++ [x]) []))
    | none => throw (.exc K.TypeError)
  | .range, [v] => match asInt? v with
    | some n => pure (.tuple ((List.range n.toNat).map fun i => .int (Int.ofNat i)))
    | none => throw (.exc K.TypeError)
  | .range, [a, b] => match asInt? a, asInt? b with
    | some lo, some hi => pure (.tuple ((List.range (hi - lo).toNat).map fun i => .int (lo + Int.ofNat i)))
    | _, _ => throw (.exc K.TypeError)
  | .enumerate, [v] => match iterItems P v with
    | some xs => pure (.tuple (xs.mapIdx fun i x => .tuple [.int (Int.ofNat i), x]))
    | none => throw (.exc K.TypeError)
  | .npOnes, [v] => match asInt? v with
    | some n => pure (.tuple (List.replicate n.toNat (.int 1)))
    | none => throw (.exc K.TypeError)
  | .sorted, [v] => match iterItems P v with
    | some xs => do pure (.tuple (← sortF r P xs))
    | none => throw (.exc K.TypeError)
  | .sortedDesc, [v] => match iterItems P v with
    | some xs => do pure (.tuple (← sortF r P xs).reverse)
    | none => throw (.exc K.TypeError)
  | .join, [.str sep, v] => match (iterItems P v).bind strsOf with
    | some ss => pure (.str (List.intercalate sep ss))
    | none => throw (.exc K.TypeError)
  | .items, [.dict kvs] => pure (.tuple (kvs.map fun (k, v) => .tuple [k, v]))
  -- re.match / fullmatch / search (pattern, string, IGNORECASE?, the `_Match` class, the id of its `texts` attribute)
  | .reMatch, [.str pat, .str s, .bool ic, .cls mc, .int tf] =>
    match Re.pyMatch ic pat s with
    | none => throw (.stuck 16)                        -- pattern outside the modelled subset
    | some none => pure .none
    | some (some m) => pure (matchVal mc tf.toNat s m)
  | .reFullmatch, [.str pat, .str s, .bool ic, .cls mc, .int tf] =>
    match Re.pyFullmatch ic pat s with
    | none => throw (.stuck 16)
    | some none => pure .none
    | some (some m) => pure (matchVal mc tf.toNat s m)
  | .reSearch, [.str pat, .str s, .bool ic, .cls mc, .int tf] =>
    match Re.pySearch ic pat s with
    | none => throw (.stuck 16)
    | some none => pure .none
    | some (some m) => pure (matchVal mc tf.toNat s m)
  | .reSub, [.str pat, .str repl, .str s, .bool ic] =>
    match Re.pySub ic pat repl s with
    | none => throw (.stuck 16)
    | some t => pure (.str t)
  | .reFindall, [.str pat, .str s, .bool ic] =>
    match Re.pyFindall ic pat s with
    | none => throw (.stuck 16)
    | some rows => pure (.tuple (rows.map fun row => match row with
        | [t] => .str t
        | ts => .tuple (ts.map .str)))
  | .capitalize, [.str s] => pure (.str (match s with | [] => [] | c :: r => upperC c :: r.map lowerC))
  | .lower, [.str s] => pure (.str (s.map lowerC))
  | .upper, [.str s] => pure (.str (s.map upperC))
  | .replace, [.str s, .str a, .str b] =>
    if a.isEmpty then throw (.stuck 15) else pure (.str (replaceAll a b (s.length + 1) s))
  | .split, [.str s, .str sep] =>
    if sep.isEmpty then throw (.exc K.ValueError) else pure (.tuple ((splitOn sep (s.length + 1) [] s).map .str))
  | .zip, [a, b] => match iterItems P a, iterItems P b with
    | some xs, some ys => pure (.tuple ((xs.zip ys).map fun (x, y) => .tuple [x, y]))
    | _, _ => throw (.exc K.TypeError)
  | .isupper, [.str s] =>
    -- str.isupper(): at least one cased character and no lower-case one (ASCII model)
    pure (.bool (s.any (fun c => decide ('A' ≤ c ∧ c ≤ 'Z')) && !s.any (fun c => decide ('a' ≤ c ∧ c ≤ 'z'))))
  | .jsonDumps, [v] => match valToJson v with
    | some j => pure (.str (pyDumps j))
    | none => throw (.exc K.TypeError)
  | .jsonLoads, [.str t] => match jsonLoad t with
    | some j => pure (jsonToVal j)
    | none => throw (.exc K.ValueError)                    -- json.JSONDecodeError is a ValueError
  | .find, [.str s, .str sub] => match findFrom sub 0 s with
    | some i => pure (.int (Int.ofNat i))
    | none => pure (.int (-1))
  | .splitOnce, [.str s, .str sep] =>
    if sep.isEmpty then throw (.exc K.ValueError) else
    match findFrom sep 0 s with
    | some i => pure (.tuple [.str (s.take i), .str (s.drop (i + sep.length))])
    | none => pure (.tuple [.str s])
  | .lstrip, [.str s] => pure (.str (s.dropWhile isSpaceC))
  -- re.search with the span of the match: the match object gets the further attribute `sf` = (start, end)
  | .reSearchSpan, [.str pat, .str s, .bool ic, .cls mc, .int tf, .int sf] =>
    match Re.pySearch ic pat s with
    | none => throw (.stuck 16)
    | some none => pure .none
    | some (some m) => match matchVal mc tf.toNat s m with
      | .obj c fs => pure (.obj c (fs ++ [(sf.toNat, .tuple [.int (Int.ofNat m.span.1), .int (Int.ofNat m.span.2)])]))
      | v => pure v
  -- re.sub(pat, fn, s): the unmatched stretches (texts) and the matches (match objects), left to right; the caller
  -- applies `fn` to the match objects and joins
  | .reSubPieces, [.str pat, .str s, .bool ic, .cls mc, .int tf] =>
    match Re.pyFinditer ic pat s with
    | none => throw (.stuck 16)
    | some ms =>
      let rec go : Nat → List Re.MatchObj → List Val
        | i, [] => [.str (s.drop i)]
        | i, m :: r => .str ((s.drop i).take (m.span.1 - i)) :: matchVal mc tf.toNat s m :: go m.span.2 r
      pure (.tuple (go 0 ms))
  | .all, [v] => match iterItems P v with
    | some xs => pure (.bool (xs.all truthy))
    | none => throw (.exc K.TypeError)
  | .any, [v] => match iterItems P v with
    | some xs => pure (.bool (xs.any truthy))
    | none => throw (.exc K.TypeError)
  | .isinstance, [v, .cls c] =>
    match classOf? v with
    | some c' => pure (.bool (P.isSubclass classDepth c' c))
    | none => pure (.bool false)
  | _, _ => throw (.stuck 13)

def cmpF (r : Rec) (P : Program) (op : CmpOp) (x y : Val) : R Val :=
  match op with
  | .eq => pure (.bool (x.beq y))
  | .ne => pure (.bool (!x.beq y))
  | .is => pure (.bool (x.beq y))          -- the translator admits `is` only against None / Enum members / classes
  | .isNot => pure (.bool (!x.beq y))
  | .inn | .notIn =>
    let neg := op == .notIn
    match y with
    | .tuple ys => pure (.bool (containsVal ys x != neg))
    | .dict kvs => pure (.bool ((lookupD kvs x).isSome != neg))
    | .str t => match x with
      | .str s => pure (.bool (isInfixC s t != neg))          -- substring test
      | _ => throw (.exc K.TypeError)
    | _ => throw (.exc K.TypeError)
  | _ => do pure (.bool (← compareF r P op x y))

def compF (r : Rec) (env : Env) (x : Id) (cond : Option Expr) (body : Expr) : List Val → R (List Val)
  | [] => pure []
  | it :: items => do
    let env' := update env x it
    let keep ← match cond with
      | some c => do pure (truthy (← r.eval env' c))
      | none => pure true
    let rest ← compF r env x cond body items
    if keep then do
      let v ← r.eval env' body
      pure (v :: rest)
    else pure rest

def dictCompF (r : Rec) (env : Env) (x : Id) (k v : Expr) : List Val → R (List (Val × Val))
  | [] => pure []
  | it :: items => do
    let env' := update env x it
    let kv ← r.eval env' k
    let vv ← r.eval env' v
    let rest ← dictCompF r env x k v items
    pure ((kv, vv) :: rest)

/-- bind the variables of a `for a, b in …` target to one item -/
def bindTargets (env : Env) (xs : List Id) (it : Val) : R Env :=
  match xs, it with
  | [x], v => pure (update env x v)
  | xs, .tuple vs =>
    if xs.length = vs.length then pure ((xs.zip vs).foldl (fun e (x, v) => update e x v) env)
    else throw (.exc K.ValueError)
  | _, _ => throw (.exc K.TypeError)

def compTF (r : Rec) (env : Env) (xs : List Id) (cond : Option Expr) (body : Expr) : List Val → R (List Val)
  | [] => pure []
  | it :: items => do
    let env' ← bindTargets env xs it
    let keep ← match cond with
      | some c => do pure (truthy (← r.eval env' c))
      | none => pure true
    let rest ← compTF r env xs cond body items
    if keep then do
      let v ← r.eval env' body
      pure (v :: rest)
    else pure rest

def dictCompTF (r : Rec) (env : Env) (xs : List Id) (k v : Expr) : List Val → R (List (Val × Val))
  | [] => pure []
  | it :: items => do
    let env' ← bindTargets env xs it
    let kv ← r.eval env' k
    let vv ← r.eval env' v
    let rest ← dictCompTF r env xs k v items
    pure ((kv, vv) :: rest)

def methF (r : Rec) (P : Program) (recv : Val) (m : Id) (args : List Val) : R (Val × Val) :=
  match recv with
  | .none => throw (.exc K.AttributeError)
  | _ =>
    match classOf? recv with
    | none => throw (.stuck 12)
    | some c => callMethod r P c m (recv :: args) (.exc K.AttributeError)

def evalF (r : Rec) (P : Program) (env : Env) (e : Expr) : R Val :=
  match e with
  | .const v => pure v
  | .var x =>
    match lookup env x with
    | some v => pure v
    | none => match lookup P.globals x with
      | some v => pure v
      | none => throw (.stuck 10)
  | .attr e a => do getAttrF r P (← r.eval env e) a
  | .call fn args =>
    match findFunc P.funcs fn with
    | some fd => do let (x, _) ← r.call fd (← mapR (r.eval env) args); pure x
    | none => throw (.stuck 11)
  | .new c args => do constructF r P c (← mapR (r.eval env) args)
  | .byName c e => do
    match P.cls? c, (← r.eval env e) with
    | some cd, .str s => match memberValue? cd s with
      | some n => pure (.enum c n)
      | none => throw (.exc K.KeyError)
    | _, _ => throw (.exc K.KeyError)
  | .meth recv m args => do
    let x ← r.eval env recv
    let (v, _) ← methF r P x m (← mapR (r.eval env) args)
    pure v
  | .static c m args => do
    let (v, _) ← callMethod r P c m (← mapR (r.eval env) args) (.exc K.AttributeError)
    pure v
  | .binop op a b => do binopVal op (← r.eval env a) (← r.eval env b)
  | .cmp op a b => do cmpF r P op (← r.eval env a) (← r.eval env b)
  | .not e => do pure (.bool (!truthy (← r.eval env e)))
  | .and a b => do
    let x ← r.eval env a
    if truthy x then r.eval env b else pure x
  | .or a b => do
    let x ← r.eval env a
    if truthy x then pure x else r.eval env b
  | .neg e => do
    match asInt? (← r.eval env e) with
    | some n => pure (.int (-n))
    | none => throw (.exc K.TypeError)
  | .ifexp c t e => do
    if truthy (← r.eval env c) then r.eval env t else r.eval env e
  | .index e i => do indexF r P (← r.eval env e) (← r.eval env i)
  | .slice e lo hi => do
    let x ← r.eval env e
    let l ← optIntF r env lo
    let h ← optIntF r env hi
    match x with
    | .tuple xs => pure (.tuple (sliceList xs l h))
    | .str s => pure (.str (sliceList s l h))
    | _ => throw (.exc K.TypeError)
  | .tuple es => do pure (.tuple (← mapR (r.eval env) es))
  | .fstr es => do
    let vs ← mapR (r.eval env) es
    let ss ← mapR (strOfF r P) vs
    pure (.str ss.flatten)
  | .dictOf kvs => do
    let ks ← mapR (r.eval env) (kvs.map (·.1))
    let vs ← mapR (r.eval env) (kvs.map (·.2))
    pure (.dict ((ks.zip vs).foldl (fun acc (k, v) => updateD acc k v) []))
  | .comp x iter cond body => do
    match iterItems P (← r.eval env iter) with
    | none => throw (.exc K.TypeError)
    | some items => do pure (.tuple (← compF r env x cond body items))
  | .dictComp x iter k v => do
    match iterItems P (← r.eval env iter) with
    | none => throw (.exc K.TypeError)
    | some items => do pure (.dict (← dictCompF r env x k v items))
  | .builtin b args => do builtinF r P b (← mapR (r.eval env) args)
  | .compT xs iter cond body => do
    match iterItems P (← r.eval env iter) with
    | none => throw (.exc K.TypeError)
    | some items => do pure (.tuple (← compTF r env xs cond body items))
  | .dictCompT xs iter k v => do
    match iterItems P (← r.eval env iter) with
    | none => throw (.exc K.TypeError)
    | some items => do pure (.dict ((← dictCompTF r env xs k v items).foldl (fun acc (k, v) => updateD acc k v) []))

/-- write `v` at the path `t` -/
def assignToF (r : Rec) (env : Env) : Target → Val → R Env
  | .var x, v => pure (update env x v)
  | .attr t' a, v => do
    match (← r.eval env t'.toExpr) with
    | .obj c fs => assignToF r env t' (.obj c (setField fs a v))
    | _ => throw (.exc K.AttributeError)
  | .index t' i, v => do
    let old ← r.eval env t'.toExpr
    let iv ← r.eval env i
    match old with
    | .tuple xs =>
      match asInt? iv with
      | some n => match normIndex xs.length n with
        | some k => assignToF r env t' (.tuple (replaceAt xs k v))
        | none => throw (.exc K.IndexError)
      | none => throw (.exc K.TypeError)
    | .dict kvs => assignToF r env t' (.dict (updateD kvs iv v))
    | _ => throw (.exc K.TypeError)

def assignAllF (r : Rec) : Env → List Target → List Val → R Env
  | env, [], [] => pure env
  | env, t :: ts, v :: vs => do
    let env' ← assignToF r env t v
    assignAllF r env' ts vs
  | _, _, _ => throw (.exc K.ValueError)

def forF (r : Rec) (xs : List Id) (body : List Stmt) : Env → List Val → R (Env × Flow)
  | env, [] => pure (env, .next)
  | env, it :: items => do
    let env1 ← match xs, it with
      | [x], v => pure (update env x v)
      | xs, .tuple vs =>
        if xs.length = vs.length then pure ((xs.zip vs).foldl (fun e (x, v) => update e x v) env)
        else throw (.exc K.ValueError)
      | _, _ => throw (.exc K.TypeError)
    let (env', fl) ← r.exec env1 body
    match fl with
    | .brk => pure (env', .next)
    | .ret v => pure (env', .ret v)
    | _ => forF r xs body env' items

def mutF (op : MutOp) (xs : List Val) (v : Val) : R (List Val) :=
  match op with
  | .append => pure (xs ++ [v])
  | .add => pure (if containsVal xs v then xs else xs ++ [v])
  | .remove =>
    match removeFirst xs v with
    | some ys => pure ys
    | none => throw (.exc K.KeyError)

def execStmtF (r : Rec) (P : Program) (env : Env) (s : Stmt) : R (Env × Flow) :=
  match s with
  | .assign t e => do
    let v ← r.eval env e
    pure (← assignToF r env t v, .next)
  | .unpack ts e => do
    match (← r.eval env e) with
    | .tuple vs => do pure (← assignAllF r env ts vs, .next)
    | _ => throw (.exc K.TypeError)
  | .sliceFill t lo hi e => do
    let v ← r.eval env e
    let l ← optIntF r env lo
    let h ← optIntF r env hi
    match (← r.eval env t.toExpr) with
    | .tuple xs => do pure (← assignToF r env t (.tuple (fillSlice xs l h v)), .next)
    | _ => throw (.exc K.TypeError)
  | .mut t op e => do
    let v ← r.eval env e
    match (← r.eval env t.toExpr) with
    | .tuple xs => do pure (← assignToF r env t (.tuple (← mutF op xs v)), .next)
    | .none => throw (.exc K.AttributeError)
    | _ => throw (.exc K.TypeError)
  | .callMut t m args => do
    let x ← r.eval env t.toExpr
    let (_, x') ← methF r P x m (← mapR (r.eval env) args)
    pure (← assignToF r env t x', .next)
  | .callMutStatic c m args => do
    let (_, x') ← callMethod r P c m (← mapR (r.eval env) args) (.exc K.AttributeError)
    pure (update env K.self x', .next)
  | .callMutRet x t m args => do
    let recv ← r.eval env t.toExpr
    let (v, recv') ← methF r P recv m (← mapR (r.eval env) args)
    let env1 ← assignToF r env t recv'
    pure (← assignToF r env1 x v, .next)
  | .expr e => do let _ ← r.eval env e; pure (env, .next)
  | .ite c t e => do
    if truthy (← r.eval env c) then r.exec env t else r.exec env e
  | .while c body => r.loop env c body
  | .for xs iter body => do
    match iterItems P (← r.eval env iter) with
    | some items => forF r xs body env items
    | none => throw (.exc K.TypeError)
  | .ret e => do pure (env, .ret (← r.eval env e))
  | .raise c => throw (.exc c)
  | .assert e => do
    if truthy (← r.eval env e) then pure (env, .next) else throw (.exc K.AssertionError)
  | .brk => pure (env, .brk)
  | .cont => pure (env, .cont)
  | .pass => pure (env, .next)

def execF (r : Rec) (P : Program) : Env → List Stmt → R (Env × Flow)
  | env, [] => pure (env, .next)
  | env, s :: ss => do
    let (env', fl) ← execStmtF r P env s
    match fl with
    | .next => execF r P env' ss
    | _ => pure (env', fl)

def loopF (r : Rec) (env : Env) (c : Expr) (body : List Stmt) : R (Env × Flow) := do
  if truthy (← r.eval env c) then do
    let (env', fl) ← r.exec env body
    match fl with
    | .brk => pure (env', .next)
    | .ret v => pure (env', .ret v)
    | _ => r.loop env' c body
  else pure (env, .next)

/-- the interpreter with `fuel` levels left: a level is spent at every sub-expression, nested block, call and loop turn -/
def mkRec (P : Program) : Nat → Rec
  | 0 =>
    { eval := fun _ _ => throw .fuel, exec := fun _ _ => throw .fuel, call := fun _ _ => throw .fuel,
      loop := fun _ _ _ => throw .fuel }
  | f + 1 =>
    { eval := fun env e => evalF (mkRec P f) P env e,
      exec := fun env ss => execF (mkRec P f) P env ss,
      call := fun fd args => callF (mkRec P f) fd args,
      loop := fun env c body => loopF (mkRec P f) env c body }

def eval (P : Program) (fuel : Nat) (env : Env) (e : Expr) : R Val := (mkRec P fuel).eval env e
def exec (P : Program) (fuel : Nat) (env : Env) (ss : List Stmt) : R (Env × Flow) := (mkRec P fuel).exec env ss
def callFn (P : Program) (fuel : Nat) (fd : FuncDef) (args : List Val) : R (Val × Val) := (mkRec P fuel).call fd args
def construct (P : Program) (fuel : Nat) (c : Id) (args : List Val) : R Val := constructF (mkRec P fuel) P c args

/-- the fuel every top-level call is given: far above what any function of the core needs (a level is spent per nesting
level and per `while` turn, none per statement or per `for` element), and by `mkRec_mono` (Lemmas/MiniPyFuel.lean) any
larger value gives the same outcomes -/
abbrev topFuel : Nat := 1000

/-- run a module-level function -/
def Program.runFn (P : Program) (fn : Id) (args : List Val) : R Val :=
  match findFunc P.funcs fn with
  | some fd => (callFn P topFuel fd args).map (·.1)
  | none => throw (.stuck 20)

/-- run a method (or property) of class `c` on `self :: args`; returns the result and the updated `self` -/
def Program.runMethod (P : Program) (c m : Id) (args : List Val) : R (Val × Val) :=
  match P.method? classDepth c m with
  | some (_, fd) => callFn P topFuel fd args
  | none => throw (.stuck 21)

def Program.runNew (P : Program) (c : Id) (args : List Val) : R Val := construct P topFuel c args

def R.int? : R Val → Option Int
  | .ok (.int n) => some n
  | _ => none
def R.bool? : R Val → Option Bool
  | .ok (.bool b) => some b
  | _ => none
def R.str? : R Val → Option (List Char)
  | .ok (.str s) => some s
  | _ => none
def R.enum? : R Val → Option (Id × Int)
  | .ok (.enum c n) => some (c, n)
  | _ => none
def R.isNone : R Val → Bool
  | .ok .none => true
  | _ => false
def R.exc? {α} : R α → Option Id
  | .error (.exc c) => some c
  | _ => none

end Bridge.Py
