import BridgeVerif.Model.Session
import BridgeVerif.Model.JsonLog
/-!
# The log file of a session, also when the session is abandoned  (C13; the record → JSON step of C08)

`entryOf` : the arguments `Server.run` passes to `JsonLogWriter.write` for a board record.
`logFileText` : the text in the output file after a sequence of writer operations — `JsonWriter.open`,
`_write_content` (with its `_first_line` flag) and `close`.
`abortedMain` : the actions of the main thread when the body of `Server.run` raises after the actions `pre`:
the `with` statement (`JsonWriter.__exit__`) closes the writer; nothing else is emitted.
-/
namespace Bridge

/-- the double-dummy table as the `dict` the configured board carries (rows N, E, S, W; columns C, D, H, S, NT) -/
def ddaTable (f : Seat → Suit → Int) : Dda := Seat.all.map fun p => (p, Suit.all.map fun s => (s, f p s))

/-- `game_log_writer.write(board_id=…, west_player=ew, north_player=ns, east_player=ew, south_player=ns, …,
scoring=Scoring.IMP, …)` -/
def entryOf (r : BoardRecord) : LogEntry :=
  { boardId := r.boardId, north := r.nsName, east := r.ewName, south := r.nsName, west := r.ewName,
    dealer := r.dealer, deal := r.deal, scoring := .IMP, bids := r.calls, contract := r.contract,
    play := r.play, tricks := r.tricks.map Int.ofNat, scoreNS := r.scoreNS, scoreEW := r.scoreEW,
    dda := r.dda.map ddaTable }

/-- writer state: the text so far and the `_first_line` flag -/
def writerStep (acc : Str × Bool) : LogOp → Str × Bool
  | .open => (acc.1 ++ jsonOpen (jkey "logs"), true)
  | .write r => (acc.1 ++ (if acc.2 then [] else ",\n".toList) ++ pyDumps (logJson (entryOf r)), false)
  | .close => (acc.1 ++ (if acc.2 then "]}".toList else "\n]}".toList), acc.2)

/-- the content of the output file after the writer operations `ops` -/
def logFileText (ops : List LogOp) : Str := (ops.foldl writerStep ([], false)).1

def isOpenAct : SAct Text LogOp → Bool | .emit .open => true | _ => false
def isCloseAct : SAct Text LogOp → Bool | .emit .close => true | _ => false

/-- main's actions when `Server.run` raises after `pre` : leaving the `with` block closes the writer if it was
opened and not yet closed -/
def abortedMain (pre : List (SAct Text LogOp)) : List (SAct Text LogOp) :=
  if pre.any isOpenAct && !pre.any isCloseAct then pre ++ [.emit .close] else pre

/-- before the repair of D6 the writer was closed on the normal path only -/
def abortedMainOld (pre : List (SAct Text LogOp)) : List (SAct Text LogOp) := pre

end Bridge
