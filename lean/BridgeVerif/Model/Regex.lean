/-
  Bridge.Re — a small, total, kernel-reducible model of CPython 3.12's `re` module
  (`str` patterns) for the subset of regular expressions used by the code base.

  SYNTAX (everything else makes `parse` return `none`):
    * literal characters; `.` (any character except `\n`);
    * escapes `\d \D \s \S \w \W`, `\t \n \r`, and `\c` for every `c` that is not an
      ASCII letter or digit (escaped punctuation);
    * classes `[...]`, `[^...]` with ranges, the escapes above, `]` first, literal `-`
      first / last / after a range (CPython's own scanning algorithm is replicated);
    * capturing groups `( … )` numbered by their opening parenthesis, non-capturing
      `(?: … )`, alternation `|`;
    * greedy quantifiers `* + ? {n} {n,m} {n,}` (numbers < 4294967295 = MAXREPEAT).
    Rejected (`none`): lazy / possessive quantifiers, `^ $ \A \Z \b \B`, look-arounds,
    back-references, named groups, inline flags, `\x.. \u.... \N{..} \0 \a \f \v`,
    an unescaped `{` that is not one of the three quantifier forms (CPython would read
    it as a literal, or as `{,m}`), and everything CPython rejects (`a**`, `*a`, `(`,
    `[z-a]`, `[a-\d]`, `{3,2}` …).
    Flags: IGNORECASE only (the `ic : Bool` argument).

  SEMANTICS: CPython's backtracking matcher (Modules/_sre/sre_lib.h), in continuation
  passing style.
    * alternation tries its branches left to right; quantifiers are greedy and backtrack;
    * a group keeps the span of its LAST successful iteration; captures are undone on
      backtracking; a group that took no part is `none`;
    * repetition is the REPEAT / MAX_UNTIL loop: the first `min` iterations are
      mandatory and are run even if they consume nothing; after that another iteration
      is attempted only if `count < max` and the previous optional iteration did not
      start at the current position (`last_ptr` check) — i.e. ONE empty optional
      iteration is performed (and may set captures: `(a*)*b` on `aab` gives group 1 =
      (2,2)), a second one is not;
    * `fullmatch` and the "must advance" rule of `sub` / `findall` are conditions checked
      at the final success point, and FAIL INTO the backtracking (as `match_all` /
      `must_advance` do in sre), they are not filters applied afterwards.

  CHARACTER CLASSES (Unicode 15.0.0, the database of CPython 3.12):
    * `\s` : exact (`str.isspace`): U+0009–000D, 001C–001F, 0020, 0085, 00A0, 1680,
             2000–200A, 2028, 2029, 202F, 205F, 3000.
    * `\d` : exact: all 680 characters of category Nd (68 runs of ten, `digitBlocks`).
    * `\w` : exact (`str.isalnum` or `_`): ASCII by comparison, the rest by the table
             `wordRanges` (744 intervals).
    * IGNORECASE: `lower` is CPython's simple lower-case mapping (`Py_UNICODE_TOLOWER`),
             exact on ALL of Unicode 15.0 (table `lowerTable`, 182 runs); `fold` adds
             sre's extra equivalences (`re._casefix._EXTRA_CASES`: i~ı, s~ſ, µ~μ, …).
             Two characters match case-insensitively iff their `fold`s are equal; for
             Unicode 15.0 this coincides with sre's rule for literals and for class
             members (checked exhaustively by the differential test).  Hence `K` (U+212A)
             ~ `k` ~ `K`;  `ſ` ~ `s` ~ `S`;  `İ` ~ `ı` ~ `i` ~ `I`.

  FUEL: the matcher recurses structurally on a fuel argument; `Res.oof` (out of fuel) is
  distinct from `Res.fail` and is propagated, never confused with a failed branch.  The
  `py*` functions choose `fuelFor re s.length` and return `none` on `oof`.
-/

namespace Bridge.Re

/-! ## Characters -/

/-- Python `str.isspace` / sre `\s` for `str` patterns. -/
def isSpaceNat (n : Nat) : Bool :=
  if n < 0x80 then (Nat.ble 9 n && Nat.ble n 13) || (Nat.ble 0x1C n && Nat.ble n 0x20)
  else n == 0x85 || n == 0xA0 || n == 0x1680 || (Nat.ble 0x2000 n && Nat.ble n 0x200A)
    || n == 0x2028 || n == 0x2029 || n == 0x202F || n == 0x205F || n == 0x3000

/-- First code points of the runs of ten consecutive decimal digits (category Nd,
Unicode 15.0.0); U+1D7CE–U+1D7FF is five runs. -/
def digitBlocks : List Nat :=
  [0x30, 0x660, 0x6F0, 0x7C0, 0x966, 0x9E6, 0xA66, 0xAE6, 0xB66, 0xBE6, 0xC66, 0xCE6,
   0xD66, 0xDE6, 0xE50, 0xED0, 0xF20, 0x1040, 0x1090, 0x17E0, 0x1810, 0x1946, 0x19D0, 0x1A80,
   0x1A90, 0x1B50, 0x1BB0, 0x1C40, 0x1C50, 0xA620, 0xA8D0, 0xA900, 0xA9D0, 0xA9F0, 0xAA50, 0xABF0,
   0xFF10, 0x104A0, 0x10D30, 0x11066, 0x110F0, 0x11136, 0x111D0, 0x112F0, 0x11450, 0x114D0, 0x11650, 0x116C0,
   0x11730, 0x118E0, 0x11950, 0x11C50, 0x11D50, 0x11DA0, 0x11F50, 0x16A60, 0x16AC0, 0x16B50, 0x1D7CE, 0x1D7D8,
   0x1D7E2, 0x1D7EC, 0x1D7F6, 0x1E140, 0x1E2F0, 0x1E4F0, 0x1E950, 0x1FBF0]

def inBlocks (n : Nat) : List Nat → Bool
  | [] => false
  | b :: t => (Nat.ble b n && Nat.blt n (b + 10)) || inBlocks n t

/-- Python `str.isdecimal` / sre `\d` for `str` patterns. -/
def isDigitNat (n : Nat) : Bool :=
  if n < 0x80 then Nat.ble 0x30 n && Nat.ble n 0x39 else inBlocks n digitBlocks

/-- The alphanumeric characters (`str.isalnum`) above U+007F, Unicode 15.0.0, as closed
intervals sorted by their first element (744 intervals). -/
def wordRanges : List (Nat × Nat) :=
  [(0xAA, 0xAA), (0xB2, 0xB3), (0xB5, 0xB5), (0xB9, 0xBA), (0xBC, 0xBE), (0xC0, 0xD6),
   (0xD8, 0xF6), (0xF8, 0x2C1), (0x2C6, 0x2D1), (0x2E0, 0x2E4), (0x2EC, 0x2EC), (0x2EE, 0x2EE),
   (0x370, 0x374), (0x376, 0x377), (0x37A, 0x37D), (0x37F, 0x37F), (0x386, 0x386), (0x388, 0x38A),
   (0x38C, 0x38C), (0x38E, 0x3A1), (0x3A3, 0x3F5), (0x3F7, 0x481), (0x48A, 0x52F), (0x531, 0x556),
   (0x559, 0x559), (0x560, 0x588), (0x5D0, 0x5EA), (0x5EF, 0x5F2), (0x620, 0x64A), (0x660, 0x669),
   (0x66E, 0x66F), (0x671, 0x6D3), (0x6D5, 0x6D5), (0x6E5, 0x6E6), (0x6EE, 0x6FC), (0x6FF, 0x6FF),
   (0x710, 0x710), (0x712, 0x72F), (0x74D, 0x7A5), (0x7B1, 0x7B1), (0x7C0, 0x7EA), (0x7F4, 0x7F5),
   (0x7FA, 0x7FA), (0x800, 0x815), (0x81A, 0x81A), (0x824, 0x824), (0x828, 0x828), (0x840, 0x858),
   (0x860, 0x86A), (0x870, 0x887), (0x889, 0x88E), (0x8A0, 0x8C9), (0x904, 0x939), (0x93D, 0x93D),
   (0x950, 0x950), (0x958, 0x961), (0x966, 0x96F), (0x971, 0x980), (0x985, 0x98C), (0x98F, 0x990),
   (0x993, 0x9A8), (0x9AA, 0x9B0), (0x9B2, 0x9B2), (0x9B6, 0x9B9), (0x9BD, 0x9BD), (0x9CE, 0x9CE),
   (0x9DC, 0x9DD), (0x9DF, 0x9E1), (0x9E6, 0x9F1), (0x9F4, 0x9F9), (0x9FC, 0x9FC), (0xA05, 0xA0A),
   (0xA0F, 0xA10), (0xA13, 0xA28), (0xA2A, 0xA30), (0xA32, 0xA33), (0xA35, 0xA36), (0xA38, 0xA39),
   (0xA59, 0xA5C), (0xA5E, 0xA5E), (0xA66, 0xA6F), (0xA72, 0xA74), (0xA85, 0xA8D), (0xA8F, 0xA91),
   (0xA93, 0xAA8), (0xAAA, 0xAB0), (0xAB2, 0xAB3), (0xAB5, 0xAB9), (0xABD, 0xABD), (0xAD0, 0xAD0),
   (0xAE0, 0xAE1), (0xAE6, 0xAEF), (0xAF9, 0xAF9), (0xB05, 0xB0C), (0xB0F, 0xB10), (0xB13, 0xB28),
   (0xB2A, 0xB30), (0xB32, 0xB33), (0xB35, 0xB39), (0xB3D, 0xB3D), (0xB5C, 0xB5D), (0xB5F, 0xB61),
   (0xB66, 0xB6F), (0xB71, 0xB77), (0xB83, 0xB83), (0xB85, 0xB8A), (0xB8E, 0xB90), (0xB92, 0xB95),
   (0xB99, 0xB9A), (0xB9C, 0xB9C), (0xB9E, 0xB9F), (0xBA3, 0xBA4), (0xBA8, 0xBAA), (0xBAE, 0xBB9),
   (0xBD0, 0xBD0), (0xBE6, 0xBF2), (0xC05, 0xC0C), (0xC0E, 0xC10), (0xC12, 0xC28), (0xC2A, 0xC39),
   (0xC3D, 0xC3D), (0xC58, 0xC5A), (0xC5D, 0xC5D), (0xC60, 0xC61), (0xC66, 0xC6F), (0xC78, 0xC7E),
   (0xC80, 0xC80), (0xC85, 0xC8C), (0xC8E, 0xC90), (0xC92, 0xCA8), (0xCAA, 0xCB3), (0xCB5, 0xCB9),
   (0xCBD, 0xCBD), (0xCDD, 0xCDE), (0xCE0, 0xCE1), (0xCE6, 0xCEF), (0xCF1, 0xCF2), (0xD04, 0xD0C),
   (0xD0E, 0xD10), (0xD12, 0xD3A), (0xD3D, 0xD3D), (0xD4E, 0xD4E), (0xD54, 0xD56), (0xD58, 0xD61),
   (0xD66, 0xD78), (0xD7A, 0xD7F), (0xD85, 0xD96), (0xD9A, 0xDB1), (0xDB3, 0xDBB), (0xDBD, 0xDBD),
   (0xDC0, 0xDC6), (0xDE6, 0xDEF), (0xE01, 0xE30), (0xE32, 0xE33), (0xE40, 0xE46), (0xE50, 0xE59),
   (0xE81, 0xE82), (0xE84, 0xE84), (0xE86, 0xE8A), (0xE8C, 0xEA3), (0xEA5, 0xEA5), (0xEA7, 0xEB0),
   (0xEB2, 0xEB3), (0xEBD, 0xEBD), (0xEC0, 0xEC4), (0xEC6, 0xEC6), (0xED0, 0xED9), (0xEDC, 0xEDF),
   (0xF00, 0xF00), (0xF20, 0xF33), (0xF40, 0xF47), (0xF49, 0xF6C), (0xF88, 0xF8C), (0x1000, 0x102A),
   (0x103F, 0x1049), (0x1050, 0x1055), (0x105A, 0x105D), (0x1061, 0x1061), (0x1065, 0x1066), (0x106E, 0x1070),
   (0x1075, 0x1081), (0x108E, 0x108E), (0x1090, 0x1099), (0x10A0, 0x10C5), (0x10C7, 0x10C7), (0x10CD, 0x10CD),
   (0x10D0, 0x10FA), (0x10FC, 0x1248), (0x124A, 0x124D), (0x1250, 0x1256), (0x1258, 0x1258), (0x125A, 0x125D),
   (0x1260, 0x1288), (0x128A, 0x128D), (0x1290, 0x12B0), (0x12B2, 0x12B5), (0x12B8, 0x12BE), (0x12C0, 0x12C0),
   (0x12C2, 0x12C5), (0x12C8, 0x12D6), (0x12D8, 0x1310), (0x1312, 0x1315), (0x1318, 0x135A), (0x1369, 0x137C),
   (0x1380, 0x138F), (0x13A0, 0x13F5), (0x13F8, 0x13FD), (0x1401, 0x166C), (0x166F, 0x167F), (0x1681, 0x169A),
   (0x16A0, 0x16EA), (0x16EE, 0x16F8), (0x1700, 0x1711), (0x171F, 0x1731), (0x1740, 0x1751), (0x1760, 0x176C),
   (0x176E, 0x1770), (0x1780, 0x17B3), (0x17D7, 0x17D7), (0x17DC, 0x17DC), (0x17E0, 0x17E9), (0x17F0, 0x17F9),
   (0x1810, 0x1819), (0x1820, 0x1878), (0x1880, 0x1884), (0x1887, 0x18A8), (0x18AA, 0x18AA), (0x18B0, 0x18F5),
   (0x1900, 0x191E), (0x1946, 0x196D), (0x1970, 0x1974), (0x1980, 0x19AB), (0x19B0, 0x19C9), (0x19D0, 0x19DA),
   (0x1A00, 0x1A16), (0x1A20, 0x1A54), (0x1A80, 0x1A89), (0x1A90, 0x1A99), (0x1AA7, 0x1AA7), (0x1B05, 0x1B33),
   (0x1B45, 0x1B4C), (0x1B50, 0x1B59), (0x1B83, 0x1BA0), (0x1BAE, 0x1BE5), (0x1C00, 0x1C23), (0x1C40, 0x1C49),
   (0x1C4D, 0x1C7D), (0x1C80, 0x1C88), (0x1C90, 0x1CBA), (0x1CBD, 0x1CBF), (0x1CE9, 0x1CEC), (0x1CEE, 0x1CF3),
   (0x1CF5, 0x1CF6), (0x1CFA, 0x1CFA), (0x1D00, 0x1DBF), (0x1E00, 0x1F15), (0x1F18, 0x1F1D), (0x1F20, 0x1F45),
   (0x1F48, 0x1F4D), (0x1F50, 0x1F57), (0x1F59, 0x1F59), (0x1F5B, 0x1F5B), (0x1F5D, 0x1F5D), (0x1F5F, 0x1F7D),
   (0x1F80, 0x1FB4), (0x1FB6, 0x1FBC), (0x1FBE, 0x1FBE), (0x1FC2, 0x1FC4), (0x1FC6, 0x1FCC), (0x1FD0, 0x1FD3),
   (0x1FD6, 0x1FDB), (0x1FE0, 0x1FEC), (0x1FF2, 0x1FF4), (0x1FF6, 0x1FFC), (0x2070, 0x2071), (0x2074, 0x2079),
   (0x207F, 0x2089), (0x2090, 0x209C), (0x2102, 0x2102), (0x2107, 0x2107), (0x210A, 0x2113), (0x2115, 0x2115),
   (0x2119, 0x211D), (0x2124, 0x2124), (0x2126, 0x2126), (0x2128, 0x2128), (0x212A, 0x212D), (0x212F, 0x2139),
   (0x213C, 0x213F), (0x2145, 0x2149), (0x214E, 0x214E), (0x2150, 0x2189), (0x2460, 0x249B), (0x24EA, 0x24FF),
   (0x2776, 0x2793), (0x2C00, 0x2CE4), (0x2CEB, 0x2CEE), (0x2CF2, 0x2CF3), (0x2CFD, 0x2CFD), (0x2D00, 0x2D25),
   (0x2D27, 0x2D27), (0x2D2D, 0x2D2D), (0x2D30, 0x2D67), (0x2D6F, 0x2D6F), (0x2D80, 0x2D96), (0x2DA0, 0x2DA6),
   (0x2DA8, 0x2DAE), (0x2DB0, 0x2DB6), (0x2DB8, 0x2DBE), (0x2DC0, 0x2DC6), (0x2DC8, 0x2DCE), (0x2DD0, 0x2DD6),
   (0x2DD8, 0x2DDE), (0x2E2F, 0x2E2F), (0x3005, 0x3007), (0x3021, 0x3029), (0x3031, 0x3035), (0x3038, 0x303C),
   (0x3041, 0x3096), (0x309D, 0x309F), (0x30A1, 0x30FA), (0x30FC, 0x30FF), (0x3105, 0x312F), (0x3131, 0x318E),
   (0x3192, 0x3195), (0x31A0, 0x31BF), (0x31F0, 0x31FF), (0x3220, 0x3229), (0x3248, 0x324F), (0x3251, 0x325F),
   (0x3280, 0x3289), (0x32B1, 0x32BF), (0x3400, 0x4DBF), (0x4E00, 0xA48C), (0xA4D0, 0xA4FD), (0xA500, 0xA60C),
   (0xA610, 0xA62B), (0xA640, 0xA66E), (0xA67F, 0xA69D), (0xA6A0, 0xA6EF), (0xA717, 0xA71F), (0xA722, 0xA788),
   (0xA78B, 0xA7CA), (0xA7D0, 0xA7D1), (0xA7D3, 0xA7D3), (0xA7D5, 0xA7D9), (0xA7F2, 0xA801), (0xA803, 0xA805),
   (0xA807, 0xA80A), (0xA80C, 0xA822), (0xA830, 0xA835), (0xA840, 0xA873), (0xA882, 0xA8B3), (0xA8D0, 0xA8D9),
   (0xA8F2, 0xA8F7), (0xA8FB, 0xA8FB), (0xA8FD, 0xA8FE), (0xA900, 0xA925), (0xA930, 0xA946), (0xA960, 0xA97C),
   (0xA984, 0xA9B2), (0xA9CF, 0xA9D9), (0xA9E0, 0xA9E4), (0xA9E6, 0xA9FE), (0xAA00, 0xAA28), (0xAA40, 0xAA42),
   (0xAA44, 0xAA4B), (0xAA50, 0xAA59), (0xAA60, 0xAA76), (0xAA7A, 0xAA7A), (0xAA7E, 0xAAAF), (0xAAB1, 0xAAB1),
   (0xAAB5, 0xAAB6), (0xAAB9, 0xAABD), (0xAAC0, 0xAAC0), (0xAAC2, 0xAAC2), (0xAADB, 0xAADD), (0xAAE0, 0xAAEA),
   (0xAAF2, 0xAAF4), (0xAB01, 0xAB06), (0xAB09, 0xAB0E), (0xAB11, 0xAB16), (0xAB20, 0xAB26), (0xAB28, 0xAB2E),
   (0xAB30, 0xAB5A), (0xAB5C, 0xAB69), (0xAB70, 0xABE2), (0xABF0, 0xABF9), (0xAC00, 0xD7A3), (0xD7B0, 0xD7C6),
   (0xD7CB, 0xD7FB), (0xF900, 0xFA6D), (0xFA70, 0xFAD9), (0xFB00, 0xFB06), (0xFB13, 0xFB17), (0xFB1D, 0xFB1D),
   (0xFB1F, 0xFB28), (0xFB2A, 0xFB36), (0xFB38, 0xFB3C), (0xFB3E, 0xFB3E), (0xFB40, 0xFB41), (0xFB43, 0xFB44),
   (0xFB46, 0xFBB1), (0xFBD3, 0xFD3D), (0xFD50, 0xFD8F), (0xFD92, 0xFDC7), (0xFDF0, 0xFDFB), (0xFE70, 0xFE74),
   (0xFE76, 0xFEFC), (0xFF10, 0xFF19), (0xFF21, 0xFF3A), (0xFF41, 0xFF5A), (0xFF66, 0xFFBE), (0xFFC2, 0xFFC7),
   (0xFFCA, 0xFFCF), (0xFFD2, 0xFFD7), (0xFFDA, 0xFFDC), (0x10000, 0x1000B), (0x1000D, 0x10026), (0x10028, 0x1003A),
   (0x1003C, 0x1003D), (0x1003F, 0x1004D), (0x10050, 0x1005D), (0x10080, 0x100FA), (0x10107, 0x10133), (0x10140, 0x10178),
   (0x1018A, 0x1018B), (0x10280, 0x1029C), (0x102A0, 0x102D0), (0x102E1, 0x102FB), (0x10300, 0x10323), (0x1032D, 0x1034A),
   (0x10350, 0x10375), (0x10380, 0x1039D), (0x103A0, 0x103C3), (0x103C8, 0x103CF), (0x103D1, 0x103D5), (0x10400, 0x1049D),
   (0x104A0, 0x104A9), (0x104B0, 0x104D3), (0x104D8, 0x104FB), (0x10500, 0x10527), (0x10530, 0x10563), (0x10570, 0x1057A),
   (0x1057C, 0x1058A), (0x1058C, 0x10592), (0x10594, 0x10595), (0x10597, 0x105A1), (0x105A3, 0x105B1), (0x105B3, 0x105B9),
   (0x105BB, 0x105BC), (0x10600, 0x10736), (0x10740, 0x10755), (0x10760, 0x10767), (0x10780, 0x10785), (0x10787, 0x107B0),
   (0x107B2, 0x107BA), (0x10800, 0x10805), (0x10808, 0x10808), (0x1080A, 0x10835), (0x10837, 0x10838), (0x1083C, 0x1083C),
   (0x1083F, 0x10855), (0x10858, 0x10876), (0x10879, 0x1089E), (0x108A7, 0x108AF), (0x108E0, 0x108F2), (0x108F4, 0x108F5),
   (0x108FB, 0x1091B), (0x10920, 0x10939), (0x10980, 0x109B7), (0x109BC, 0x109CF), (0x109D2, 0x10A00), (0x10A10, 0x10A13),
   (0x10A15, 0x10A17), (0x10A19, 0x10A35), (0x10A40, 0x10A48), (0x10A60, 0x10A7E), (0x10A80, 0x10A9F), (0x10AC0, 0x10AC7),
   (0x10AC9, 0x10AE4), (0x10AEB, 0x10AEF), (0x10B00, 0x10B35), (0x10B40, 0x10B55), (0x10B58, 0x10B72), (0x10B78, 0x10B91),
   (0x10BA9, 0x10BAF), (0x10C00, 0x10C48), (0x10C80, 0x10CB2), (0x10CC0, 0x10CF2), (0x10CFA, 0x10D23), (0x10D30, 0x10D39),
   (0x10E60, 0x10E7E), (0x10E80, 0x10EA9), (0x10EB0, 0x10EB1), (0x10F00, 0x10F27), (0x10F30, 0x10F45), (0x10F51, 0x10F54),
   (0x10F70, 0x10F81), (0x10FB0, 0x10FCB), (0x10FE0, 0x10FF6), (0x11003, 0x11037), (0x11052, 0x1106F), (0x11071, 0x11072),
   (0x11075, 0x11075), (0x11083, 0x110AF), (0x110D0, 0x110E8), (0x110F0, 0x110F9), (0x11103, 0x11126), (0x11136, 0x1113F),
   (0x11144, 0x11144), (0x11147, 0x11147), (0x11150, 0x11172), (0x11176, 0x11176), (0x11183, 0x111B2), (0x111C1, 0x111C4),
   (0x111D0, 0x111DA), (0x111DC, 0x111DC), (0x111E1, 0x111F4), (0x11200, 0x11211), (0x11213, 0x1122B), (0x1123F, 0x11240),
   (0x11280, 0x11286), (0x11288, 0x11288), (0x1128A, 0x1128D), (0x1128F, 0x1129D), (0x1129F, 0x112A8), (0x112B0, 0x112DE),
   (0x112F0, 0x112F9), (0x11305, 0x1130C), (0x1130F, 0x11310), (0x11313, 0x11328), (0x1132A, 0x11330), (0x11332, 0x11333),
   (0x11335, 0x11339), (0x1133D, 0x1133D), (0x11350, 0x11350), (0x1135D, 0x11361), (0x11400, 0x11434), (0x11447, 0x1144A),
   (0x11450, 0x11459), (0x1145F, 0x11461), (0x11480, 0x114AF), (0x114C4, 0x114C5), (0x114C7, 0x114C7), (0x114D0, 0x114D9),
   (0x11580, 0x115AE), (0x115D8, 0x115DB), (0x11600, 0x1162F), (0x11644, 0x11644), (0x11650, 0x11659), (0x11680, 0x116AA),
   (0x116B8, 0x116B8), (0x116C0, 0x116C9), (0x11700, 0x1171A), (0x11730, 0x1173B), (0x11740, 0x11746), (0x11800, 0x1182B),
   (0x118A0, 0x118F2), (0x118FF, 0x11906), (0x11909, 0x11909), (0x1190C, 0x11913), (0x11915, 0x11916), (0x11918, 0x1192F),
   (0x1193F, 0x1193F), (0x11941, 0x11941), (0x11950, 0x11959), (0x119A0, 0x119A7), (0x119AA, 0x119D0), (0x119E1, 0x119E1),
   (0x119E3, 0x119E3), (0x11A00, 0x11A00), (0x11A0B, 0x11A32), (0x11A3A, 0x11A3A), (0x11A50, 0x11A50), (0x11A5C, 0x11A89),
   (0x11A9D, 0x11A9D), (0x11AB0, 0x11AF8), (0x11C00, 0x11C08), (0x11C0A, 0x11C2E), (0x11C40, 0x11C40), (0x11C50, 0x11C6C),
   (0x11C72, 0x11C8F), (0x11D00, 0x11D06), (0x11D08, 0x11D09), (0x11D0B, 0x11D30), (0x11D46, 0x11D46), (0x11D50, 0x11D59),
   (0x11D60, 0x11D65), (0x11D67, 0x11D68), (0x11D6A, 0x11D89), (0x11D98, 0x11D98), (0x11DA0, 0x11DA9), (0x11EE0, 0x11EF2),
   (0x11F02, 0x11F02), (0x11F04, 0x11F10), (0x11F12, 0x11F33), (0x11F50, 0x11F59), (0x11FB0, 0x11FB0), (0x11FC0, 0x11FD4),
   (0x12000, 0x12399), (0x12400, 0x1246E), (0x12480, 0x12543), (0x12F90, 0x12FF0), (0x13000, 0x1342F), (0x13441, 0x13446),
   (0x14400, 0x14646), (0x16800, 0x16A38), (0x16A40, 0x16A5E), (0x16A60, 0x16A69), (0x16A70, 0x16ABE), (0x16AC0, 0x16AC9),
   (0x16AD0, 0x16AED), (0x16B00, 0x16B2F), (0x16B40, 0x16B43), (0x16B50, 0x16B59), (0x16B5B, 0x16B61), (0x16B63, 0x16B77),
   (0x16B7D, 0x16B8F), (0x16E40, 0x16E96), (0x16F00, 0x16F4A), (0x16F50, 0x16F50), (0x16F93, 0x16F9F), (0x16FE0, 0x16FE1),
   (0x16FE3, 0x16FE3), (0x17000, 0x187F7), (0x18800, 0x18CD5), (0x18D00, 0x18D08), (0x1AFF0, 0x1AFF3), (0x1AFF5, 0x1AFFB),
   (0x1AFFD, 0x1AFFE), (0x1B000, 0x1B122), (0x1B132, 0x1B132), (0x1B150, 0x1B152), (0x1B155, 0x1B155), (0x1B164, 0x1B167),
   (0x1B170, 0x1B2FB), (0x1BC00, 0x1BC6A), (0x1BC70, 0x1BC7C), (0x1BC80, 0x1BC88), (0x1BC90, 0x1BC99), (0x1D2C0, 0x1D2D3),
   (0x1D2E0, 0x1D2F3), (0x1D360, 0x1D378), (0x1D400, 0x1D454), (0x1D456, 0x1D49C), (0x1D49E, 0x1D49F), (0x1D4A2, 0x1D4A2),
   (0x1D4A5, 0x1D4A6), (0x1D4A9, 0x1D4AC), (0x1D4AE, 0x1D4B9), (0x1D4BB, 0x1D4BB), (0x1D4BD, 0x1D4C3), (0x1D4C5, 0x1D505),
   (0x1D507, 0x1D50A), (0x1D50D, 0x1D514), (0x1D516, 0x1D51C), (0x1D51E, 0x1D539), (0x1D53B, 0x1D53E), (0x1D540, 0x1D544),
   (0x1D546, 0x1D546), (0x1D54A, 0x1D550), (0x1D552, 0x1D6A5), (0x1D6A8, 0x1D6C0), (0x1D6C2, 0x1D6DA), (0x1D6DC, 0x1D6FA),
   (0x1D6FC, 0x1D714), (0x1D716, 0x1D734), (0x1D736, 0x1D74E), (0x1D750, 0x1D76E), (0x1D770, 0x1D788), (0x1D78A, 0x1D7A8),
   (0x1D7AA, 0x1D7C2), (0x1D7C4, 0x1D7CB), (0x1D7CE, 0x1D7FF), (0x1DF00, 0x1DF1E), (0x1DF25, 0x1DF2A), (0x1E030, 0x1E06D),
   (0x1E100, 0x1E12C), (0x1E137, 0x1E13D), (0x1E140, 0x1E149), (0x1E14E, 0x1E14E), (0x1E290, 0x1E2AD), (0x1E2C0, 0x1E2EB),
   (0x1E2F0, 0x1E2F9), (0x1E4D0, 0x1E4EB), (0x1E4F0, 0x1E4F9), (0x1E7E0, 0x1E7E6), (0x1E7E8, 0x1E7EB), (0x1E7ED, 0x1E7EE),
   (0x1E7F0, 0x1E7FE), (0x1E800, 0x1E8C4), (0x1E8C7, 0x1E8CF), (0x1E900, 0x1E943), (0x1E94B, 0x1E94B), (0x1E950, 0x1E959),
   (0x1EC71, 0x1ECAB), (0x1ECAD, 0x1ECAF), (0x1ECB1, 0x1ECB4), (0x1ED01, 0x1ED2D), (0x1ED2F, 0x1ED3D), (0x1EE00, 0x1EE03),
   (0x1EE05, 0x1EE1F), (0x1EE21, 0x1EE22), (0x1EE24, 0x1EE24), (0x1EE27, 0x1EE27), (0x1EE29, 0x1EE32), (0x1EE34, 0x1EE37),
   (0x1EE39, 0x1EE39), (0x1EE3B, 0x1EE3B), (0x1EE42, 0x1EE42), (0x1EE47, 0x1EE47), (0x1EE49, 0x1EE49), (0x1EE4B, 0x1EE4B),
   (0x1EE4D, 0x1EE4F), (0x1EE51, 0x1EE52), (0x1EE54, 0x1EE54), (0x1EE57, 0x1EE57), (0x1EE59, 0x1EE59), (0x1EE5B, 0x1EE5B),
   (0x1EE5D, 0x1EE5D), (0x1EE5F, 0x1EE5F), (0x1EE61, 0x1EE62), (0x1EE64, 0x1EE64), (0x1EE67, 0x1EE6A), (0x1EE6C, 0x1EE72),
   (0x1EE74, 0x1EE77), (0x1EE79, 0x1EE7C), (0x1EE7E, 0x1EE7E), (0x1EE80, 0x1EE89), (0x1EE8B, 0x1EE9B), (0x1EEA1, 0x1EEA3),
   (0x1EEA5, 0x1EEA9), (0x1EEAB, 0x1EEBB), (0x1F100, 0x1F10C), (0x1FBF0, 0x1FBF9), (0x20000, 0x2A6DF), (0x2A700, 0x2B739),
   (0x2B740, 0x2B81D), (0x2B820, 0x2CEA1), (0x2CEB0, 0x2EBE0), (0x2F800, 0x2FA1D), (0x30000, 0x3134A), (0x31350, 0x323AF)]

/-- `n` lies in one of the intervals of a list sorted by first element. -/
def inSortedRanges (n : Nat) : List (Nat × Nat) → Bool
  | [] => false
  | (lo, hi) :: t => if n < lo then false else Nat.ble n hi || inSortedRanges n t

/-- sre `\w` for `str` patterns: `str.isalnum` or `_`. -/
def isWordNat (n : Nat) : Bool :=
  if n < 0x80 then
    (Nat.ble 0x30 n && Nat.ble n 0x39) || (Nat.ble 0x41 n && Nat.ble n 0x5A) || n == 0x5F
      || (Nat.ble 0x61 n && Nat.ble n 0x7A)
  else inSortedRanges n wordRanges

/-- Simple lower-case mapping of Unicode 15.0.0 as runs `(first, last, stride, image of first)`,
sorted by `first`: `c ↦ image + (c - first)` for `first ≤ c ≤ last`, `(c - first) % stride = 0`. -/
def lowerTable : List (Nat × Nat × Nat × Nat) :=
  [(0x41, 0x5A, 1, 0x61), (0xC0, 0xD6, 1, 0xE0), (0xD8, 0xDE, 1, 0xF8), (0x100, 0x12E, 2, 0x101),
   (0x130, 0x130, 1, 0x69), (0x132, 0x136, 2, 0x133), (0x139, 0x147, 2, 0x13A), (0x14A, 0x176, 2, 0x14B),
   (0x178, 0x178, 1, 0xFF), (0x179, 0x17D, 2, 0x17A), (0x181, 0x181, 1, 0x253), (0x182, 0x184, 2, 0x183),
   (0x186, 0x186, 1, 0x254), (0x187, 0x187, 1, 0x188), (0x189, 0x18A, 1, 0x256), (0x18B, 0x18B, 1, 0x18C),
   (0x18E, 0x18E, 1, 0x1DD), (0x18F, 0x18F, 1, 0x259), (0x190, 0x190, 1, 0x25B), (0x191, 0x191, 1, 0x192),
   (0x193, 0x193, 1, 0x260), (0x194, 0x194, 1, 0x263), (0x196, 0x196, 1, 0x269), (0x197, 0x197, 1, 0x268),
   (0x198, 0x198, 1, 0x199), (0x19C, 0x19C, 1, 0x26F), (0x19D, 0x19D, 1, 0x272), (0x19F, 0x19F, 1, 0x275),
   (0x1A0, 0x1A4, 2, 0x1A1), (0x1A6, 0x1A6, 1, 0x280), (0x1A7, 0x1A7, 1, 0x1A8), (0x1A9, 0x1A9, 1, 0x283),
   (0x1AC, 0x1AC, 1, 0x1AD), (0x1AE, 0x1AE, 1, 0x288), (0x1AF, 0x1AF, 1, 0x1B0), (0x1B1, 0x1B2, 1, 0x28A),
   (0x1B3, 0x1B5, 2, 0x1B4), (0x1B7, 0x1B7, 1, 0x292), (0x1B8, 0x1B8, 1, 0x1B9), (0x1BC, 0x1BC, 1, 0x1BD),
   (0x1C4, 0x1C4, 1, 0x1C6), (0x1C5, 0x1C5, 1, 0x1C6), (0x1C7, 0x1C7, 1, 0x1C9), (0x1C8, 0x1C8, 1, 0x1C9),
   (0x1CA, 0x1CA, 1, 0x1CC), (0x1CB, 0x1DB, 2, 0x1CC), (0x1DE, 0x1EE, 2, 0x1DF), (0x1F1, 0x1F1, 1, 0x1F3),
   (0x1F2, 0x1F4, 2, 0x1F3), (0x1F6, 0x1F6, 1, 0x195), (0x1F7, 0x1F7, 1, 0x1BF), (0x1F8, 0x21E, 2, 0x1F9),
   (0x220, 0x220, 1, 0x19E), (0x222, 0x232, 2, 0x223), (0x23A, 0x23A, 1, 0x2C65), (0x23B, 0x23B, 1, 0x23C),
   (0x23D, 0x23D, 1, 0x19A), (0x23E, 0x23E, 1, 0x2C66), (0x241, 0x241, 1, 0x242), (0x243, 0x243, 1, 0x180),
   (0x244, 0x244, 1, 0x289), (0x245, 0x245, 1, 0x28C), (0x246, 0x24E, 2, 0x247), (0x370, 0x372, 2, 0x371),
   (0x376, 0x376, 1, 0x377), (0x37F, 0x37F, 1, 0x3F3), (0x386, 0x386, 1, 0x3AC), (0x388, 0x38A, 1, 0x3AD),
   (0x38C, 0x38C, 1, 0x3CC), (0x38E, 0x38F, 1, 0x3CD), (0x391, 0x3A1, 1, 0x3B1), (0x3A3, 0x3AB, 1, 0x3C3),
   (0x3CF, 0x3CF, 1, 0x3D7), (0x3D8, 0x3EE, 2, 0x3D9), (0x3F4, 0x3F4, 1, 0x3B8), (0x3F7, 0x3F7, 1, 0x3F8),
   (0x3F9, 0x3F9, 1, 0x3F2), (0x3FA, 0x3FA, 1, 0x3FB), (0x3FD, 0x3FF, 1, 0x37B), (0x400, 0x40F, 1, 0x450),
   (0x410, 0x42F, 1, 0x430), (0x460, 0x480, 2, 0x461), (0x48A, 0x4BE, 2, 0x48B), (0x4C0, 0x4C0, 1, 0x4CF),
   (0x4C1, 0x4CD, 2, 0x4C2), (0x4D0, 0x52E, 2, 0x4D1), (0x531, 0x556, 1, 0x561), (0x10A0, 0x10C5, 1, 0x2D00),
   (0x10C7, 0x10C7, 1, 0x2D27), (0x10CD, 0x10CD, 1, 0x2D2D), (0x13A0, 0x13EF, 1, 0xAB70), (0x13F0, 0x13F5, 1, 0x13F8),
   (0x1C90, 0x1CBA, 1, 0x10D0), (0x1CBD, 0x1CBF, 1, 0x10FD), (0x1E00, 0x1E94, 2, 0x1E01), (0x1E9E, 0x1E9E, 1, 0xDF),
   (0x1EA0, 0x1EFE, 2, 0x1EA1), (0x1F08, 0x1F0F, 1, 0x1F00), (0x1F18, 0x1F1D, 1, 0x1F10), (0x1F28, 0x1F2F, 1, 0x1F20),
   (0x1F38, 0x1F3F, 1, 0x1F30), (0x1F48, 0x1F4D, 1, 0x1F40), (0x1F59, 0x1F5F, 2, 0x1F51), (0x1F68, 0x1F6F, 1, 0x1F60),
   (0x1F88, 0x1F8F, 1, 0x1F80), (0x1F98, 0x1F9F, 1, 0x1F90), (0x1FA8, 0x1FAF, 1, 0x1FA0), (0x1FB8, 0x1FB9, 1, 0x1FB0),
   (0x1FBA, 0x1FBB, 1, 0x1F70), (0x1FBC, 0x1FBC, 1, 0x1FB3), (0x1FC8, 0x1FCB, 1, 0x1F72), (0x1FCC, 0x1FCC, 1, 0x1FC3),
   (0x1FD8, 0x1FD9, 1, 0x1FD0), (0x1FDA, 0x1FDB, 1, 0x1F76), (0x1FE8, 0x1FE9, 1, 0x1FE0), (0x1FEA, 0x1FEB, 1, 0x1F7A),
   (0x1FEC, 0x1FEC, 1, 0x1FE5), (0x1FF8, 0x1FF9, 1, 0x1F78), (0x1FFA, 0x1FFB, 1, 0x1F7C), (0x1FFC, 0x1FFC, 1, 0x1FF3),
   (0x2126, 0x2126, 1, 0x3C9), (0x212A, 0x212A, 1, 0x6B), (0x212B, 0x212B, 1, 0xE5), (0x2132, 0x2132, 1, 0x214E),
   (0x2160, 0x216F, 1, 0x2170), (0x2183, 0x2183, 1, 0x2184), (0x24B6, 0x24CF, 1, 0x24D0), (0x2C00, 0x2C2F, 1, 0x2C30),
   (0x2C60, 0x2C60, 1, 0x2C61), (0x2C62, 0x2C62, 1, 0x26B), (0x2C63, 0x2C63, 1, 0x1D7D), (0x2C64, 0x2C64, 1, 0x27D),
   (0x2C67, 0x2C6B, 2, 0x2C68), (0x2C6D, 0x2C6D, 1, 0x251), (0x2C6E, 0x2C6E, 1, 0x271), (0x2C6F, 0x2C6F, 1, 0x250),
   (0x2C70, 0x2C70, 1, 0x252), (0x2C72, 0x2C72, 1, 0x2C73), (0x2C75, 0x2C75, 1, 0x2C76), (0x2C7E, 0x2C7F, 1, 0x23F),
   (0x2C80, 0x2CE2, 2, 0x2C81), (0x2CEB, 0x2CED, 2, 0x2CEC), (0x2CF2, 0x2CF2, 1, 0x2CF3), (0xA640, 0xA66C, 2, 0xA641),
   (0xA680, 0xA69A, 2, 0xA681), (0xA722, 0xA72E, 2, 0xA723), (0xA732, 0xA76E, 2, 0xA733), (0xA779, 0xA77B, 2, 0xA77A),
   (0xA77D, 0xA77D, 1, 0x1D79), (0xA77E, 0xA786, 2, 0xA77F), (0xA78B, 0xA78B, 1, 0xA78C), (0xA78D, 0xA78D, 1, 0x265),
   (0xA790, 0xA792, 2, 0xA791), (0xA796, 0xA7A8, 2, 0xA797), (0xA7AA, 0xA7AA, 1, 0x266), (0xA7AB, 0xA7AB, 1, 0x25C),
   (0xA7AC, 0xA7AC, 1, 0x261), (0xA7AD, 0xA7AD, 1, 0x26C), (0xA7AE, 0xA7AE, 1, 0x26A), (0xA7B0, 0xA7B0, 1, 0x29E),
   (0xA7B1, 0xA7B1, 1, 0x287), (0xA7B2, 0xA7B2, 1, 0x29D), (0xA7B3, 0xA7B3, 1, 0xAB53), (0xA7B4, 0xA7C2, 2, 0xA7B5),
   (0xA7C4, 0xA7C4, 1, 0xA794), (0xA7C5, 0xA7C5, 1, 0x282), (0xA7C6, 0xA7C6, 1, 0x1D8E), (0xA7C7, 0xA7C9, 2, 0xA7C8),
   (0xA7D0, 0xA7D0, 1, 0xA7D1), (0xA7D6, 0xA7D8, 2, 0xA7D7), (0xA7F5, 0xA7F5, 1, 0xA7F6), (0xFF21, 0xFF3A, 1, 0xFF41),
   (0x10400, 0x10427, 1, 0x10428), (0x104B0, 0x104D3, 1, 0x104D8), (0x10570, 0x1057A, 1, 0x10597), (0x1057C, 0x1058A, 1, 0x105A3),
   (0x1058C, 0x10592, 1, 0x105B3), (0x10594, 0x10595, 1, 0x105BB), (0x10C80, 0x10CB2, 1, 0x10CC0), (0x118A0, 0x118BF, 1, 0x118C0),
   (0x16E40, 0x16E5F, 1, 0x16E60), (0x1E900, 0x1E921, 1, 0x1E922)]

def lowerLookup (n : Nat) : List (Nat × Nat × Nat × Nat) → Nat
  | [] => n
  | (lo, hi, stride, img) :: t =>
    if n < lo then n
    else if Nat.ble n hi && (n - lo) % stride == 0 then img + (n - lo)
    else lowerLookup n t

/-- `Py_UNICODE_TOLOWER` on code points (exact for Unicode 15.0.0). -/
def lowerNat (n : Nat) : Nat :=
  if n < 0x80 then (if Nat.ble 0x41 n && Nat.ble n 0x5A then n + 32 else n)
  else if n < 0xC0 then n
  else lowerLookup n lowerTable

/-- sre's extra case equivalences (`re._casefix._EXTRA_CASES`): every non-minimal member
of a class of lower-case letters, with the minimal member of its class. -/
def foldTable : List (Nat × Nat) :=
  [(0x131, 0x69), (0x17F, 0x73), (0x3B9, 0x345), (0x3BC, 0xB5), (0x3C3, 0x3C2), (0x3D0, 0x3B2),
   (0x3D1, 0x3B8), (0x3D5, 0x3C6), (0x3D6, 0x3C0), (0x3F0, 0x3BA), (0x3F1, 0x3C1), (0x3F5, 0x3B5),
   (0x1C80, 0x432), (0x1C81, 0x434), (0x1C82, 0x43E), (0x1C83, 0x441), (0x1C84, 0x442), (0x1C85, 0x442),
   (0x1C86, 0x44A), (0x1C87, 0x463), (0x1E9B, 0x1E61), (0x1FBE, 0x345), (0x1FD3, 0x390), (0x1FE3, 0x3B0),
   (0xA64B, 0x1C88), (0xFB06, 0xFB05)]

def foldLookup (n : Nat) : List (Nat × Nat) → Nat
  | [] => n
  | (a, b) :: t => if n < a then n else if n == a then b else foldLookup n t

/-- Canonical representative for IGNORECASE comparison. -/
def foldNat (n : Nat) : Nat :=
  let l := lowerNat n
  if l < 0x80 then l else foldLookup l foldTable

def lower (c : Char) : Char := Char.ofNat (lowerNat c.toNat)
def fold (c : Char) : Char := Char.ofNat (foldNat c.toNat)
def isSpace (c : Char) : Bool := isSpaceNat c.toNat
def isDigit (c : Char) : Bool := isDigitNat c.toNat
def isWord (c : Char) : Bool := isWordNat c.toNat

/-- Do pattern character `p` and subject character `x` match? -/
def charEq (ic : Bool) (p x : Char) : Bool :=
  p == x || (ic && foldNat p.toNat == foldNat x.toNat)

/-! ## Abstract syntax -/

inductive ClassItem where
  | ch (c : Char)
  | range (lo hi : Char)
  | digit (neg : Bool)      -- `\d` / `\D`
  | space (neg : Bool)      -- `\s` / `\S`
  | word (neg : Bool)       -- `\w` / `\W`
  deriving Repr, DecidableEq, Inhabited

inductive Re where
  | eps
  | lit (c : Char)
  | any                                          -- `.`
  | cls (neg : Bool) (items : List ClassItem)    -- `[...]`, and `\d` etc. outside a class
  | seq (a b : Re)
  | alt (a b : Re)
  | group (idx : Nat) (r : Re)                   -- capturing group number `idx ≥ 1`
  | rep (min : Nat) (max : Option Nat) (r : Re)  -- greedy; `max = none` is unbounded
  deriving Repr, DecidableEq, Inhabited

namespace Re

/-- Number of groups = largest group index. -/
def ngroups : Re → Nat
  | eps | lit _ | any | cls _ _ => 0
  | seq a b | alt a b => Nat.max a.ngroups b.ngroups
  | group i r => Nat.max i r.ngroups
  | rep _ _ r => r.ngroups

/-- Size used for the fuel bound: a repetition counts its mandatory iterations. -/
def size : Re → Nat
  | eps | lit _ | any | cls _ _ => 1
  | seq a b | alt a b => a.size + b.size + 1
  | group _ r => r.size + 1
  | rep mn _ r => (mn + 3) * (r.size + 1)

end Re

/-! ## Character-level matching -/

/-- Is there a code point `c` with `lo ≤ c < lo + n` and `foldNat c = tgt`? -/
def rangeAnyFold (tgt : Nat) : Nat → Nat → Bool
  | _, 0 => false
  | lo, n + 1 => foldNat lo == tgt || rangeAnyFold tgt (lo + 1) n

def ClassItem.test (ic : Bool) (x : Char) : ClassItem → Bool
  | .ch c => charEq ic c x
  | .range lo hi =>
    let n := x.toNat
    (Nat.ble lo.toNat n && Nat.ble n hi.toNat) ||
      (ic && rangeAnyFold (foldNat n) lo.toNat (hi.toNat + 1 - lo.toNat))
  | .digit neg => isDigit x != neg
  | .space neg => isSpace x != neg
  | .word neg => isWord x != neg

def classTest (ic : Bool) (x : Char) : List ClassItem → Bool
  | [] => false
  | i :: t => i.test ic x || classTest ic x t

/-! ## The backtracking matcher -/

/-- Result of a search: `oof` = the fuel ran out (no information). -/
inductive Res (α : Type) where
  | ok (a : α)
  | fail
  | oof
  deriving Repr, DecidableEq

abbrev Caps := List (Option (Nat × Nat))

/-- Matcher state: current position, the subject from that position on, the captures. -/
structure St where
  pos : Nat
  rest : List Char
  caps : Caps
  deriving Repr, DecidableEq

def setCap (caps : Caps) (idx : Nat) (v : Nat × Nat) : Caps :=
  match idx with
  | 0 => caps
  | i + 1 => caps.set i (some v)

/-- One character step. -/
def stepChar (p : Char → Bool) (st : St) (k : St → Res St) : Res St :=
  match st.rest with
  | [] => .fail
  | x :: xs => if p x then k { st with pos := st.pos + 1, rest := xs } else .fail

mutual
/-- `run ic fuel r st k`: match `r` at `st`, then continue with `k`; first success wins. -/
def run (ic : Bool) : Nat → Re → St → (St → Res St) → Res St
  | 0, _, _, _ => .oof
  | _ + 1, .eps, st, k => k st
  | _ + 1, .lit c, st, k => stepChar (charEq ic c) st k
  | _ + 1, .any, st, k => stepChar (fun x => x != '\n') st k
  | _ + 1, .cls neg items, st, k => stepChar (fun x => classTest ic x items != neg) st k
  | f + 1, .seq a b, st, k => run ic f a st (fun st' => run ic f b st' k)
  | f + 1, .alt a b, st, k =>
    match run ic f a st k with
    | .fail => run ic f b st k
    | r => r
  | f + 1, .group i r, st, k =>
    run ic f r st (fun st' => k { st' with caps := setCap st'.caps i (st.pos, st'.pos) })
  | f + 1, .rep mn mx r, st, k => loop ic f mn mx r 0 none st k
termination_by structural fuel => fuel

/-- sre's MAX_UNTIL: `count` iterations done; `last` = start of the previous optional
iteration (`last_ptr`). -/
def loop (ic : Bool) : Nat → Nat → Option Nat → Re → Nat → Option Nat → St → (St → Res St) → Res St
  | 0, _, _, _, _, _, _, _ => .oof
  | f + 1, mn, mx, r, count, last, st, k =>
    if count < mn then
      run ic f r st (fun st' => loop ic f mn mx r (count + 1) last st' k)
    else if (match mx with | none => true | some m => count < m) && last != some st.pos then
      match run ic f r st (fun st' => loop ic f mn mx r (count + 1) (some st.pos) st' k) with
      | .fail => k st
      | res => res
    else k st
termination_by structural fuel => fuel
end

structure MatchObj where
  span : Nat × Nat                      -- group 0
  groups : List (Option (Nat × Nat))    -- groups 1..n
  deriving Repr, DecidableEq, Inhabited

/-- Fuel used by the `py*` functions (`n` = length of the subject). The recursion depth of
`run` is at most the nesting depth of `re` plus, for each level of nested repetition,
`min + n + 2` iterations (an optional iteration that consumes nothing is the last one);
this is far below the bound chosen here. -/
def fuelFor (re : Re) (n : Nat) : Nat := (re.size + 1) * (n + 2) * 4 + 64

/-- Anchored match at (`pos`, `rest`), with explicit fuel; `full` = must end at the end of
the subject; `mustAdv` = an empty match at `pos` is refused (sre's `must_advance`). Both
conditions fail into the backtracking. -/
def matchCore (ic : Bool) (re : Re) (fuel : Nat) (pos : Nat) (rest : List Char)
    (full mustAdv : Bool) : Res MatchObj :=
  match run ic fuel re { pos := pos, rest := rest, caps := List.replicate re.ngroups none }
      (fun st => if (full && !st.rest.isEmpty) || (mustAdv && st.pos == pos) then .fail else .ok st) with
  | .ok st => .ok { span := (pos, st.pos), groups := st.caps }
  | .fail => .fail
  | .oof => .oof

/-- As `matchAt`, but telling "no match" from "out of fuel". -/
def matchAtRes (ic : Bool) (re : Re) (s : List Char) (start : Nat) (full : Bool) : Res MatchObj :=
  if start ≤ s.length then
    matchCore ic re (fuelFor re s.length) start (s.drop start) full false
  else .fail

/-- Match anchored at character index `start` (no match if `start > s.length`);
`full` = the match must end at the end of `s`. (`none` also if the fuel ran out, which
`fuelFor` is chosen to prevent; use `matchAtRes` to tell the difference.) -/
def matchAt (ic : Bool) (re : Re) (s : List Char) (start : Nat) (full : Bool) : Option MatchObj :=
  match matchAtRes ic re s start full with
  | .ok m => some m
  | _ => none

/-- Leftmost match starting at `pos` or later; `mustAdv` only concerns position `pos`. -/
def searchFrom (ic : Bool) (re : Re) (fuel : Nat) : Nat → List Char → Bool → Res MatchObj
  | pos, rest, mustAdv =>
    match matchCore ic re fuel pos rest false mustAdv with
    | .ok m => .ok m
    | .oof => .oof
    | .fail =>
      match rest with
      | [] => .fail
      | _ :: xs => searchFrom ic re fuel (pos + 1) xs false

/-- All non-overlapping matches, as `re.finditer` / `sub` / `findall` enumerate them
(CPython ≥ 3.7: after an empty match the next match at the same position must be
non-empty). `n` bounds the number of matches; `none` = out of fuel. -/
def allMatches (ic : Bool) (re : Re) (fuel : Nat) : Nat → Nat → List Char → Bool → Option (List MatchObj)
  | 0, _, _, _ => none
  | n + 1, pos, rest, mustAdv =>
    match searchFrom ic re fuel pos rest mustAdv with
    | .oof => none
    | .fail => some []
    | .ok m =>
      match allMatches ic re fuel n m.span.2 (rest.drop (m.span.2 - pos)) (m.span.2 == m.span.1) with
      | none => none
      | some ms => some (m :: ms)

/-! ## Parser -/

def isAsciiAlnum (c : Char) : Bool :=
  let n := c.toNat
  (Nat.ble 0x30 n && Nat.ble n 0x39) || (Nat.ble 0x41 n && Nat.ble n 0x5A)
    || (Nat.ble 0x61 n && Nat.ble n 0x7A)

/-- The character after a backslash (same meaning inside and outside a class, for the
subset): a class item, or `none` if unsupported. -/
def escapeItem (c : Char) : Option ClassItem :=
  match c with
  | 'd' => some (.digit false)
  | 'D' => some (.digit true)
  | 's' => some (.space false)
  | 'S' => some (.space true)
  | 'w' => some (.word false)
  | 'W' => some (.word true)
  | 't' => some (.ch '\t')
  | 'n' => some (.ch '\n')
  | 'r' => some (.ch '\r')
  | _ => if isAsciiAlnum c then none else some (.ch c)

/-- One class member (CPython's `code1` / `code2`), and the remaining input. -/
def classAtom : List Char → Option (ClassItem × List Char)
  | [] => none
  | '\\' :: c :: cs => (escapeItem c).map fun i => (i, cs)
  | '\\' :: [] => none
  | c :: cs => some (.ch c, cs)

/-- Body of a class after `[` / `[^`; `acc` = members so far, reversed. Mirrors the loop
of `sre_parse._parse`. -/
def classLoop : Nat → List Char → List ClassItem → Option (List ClassItem × List Char)
  | 0, _, _ => none
  | _ + 1, [], _ => none
  | f + 1, c :: cs, acc =>
    if c == ']' && !acc.isEmpty then some (acc.reverse, cs)
    else
      match classAtom (c :: cs) with
      | none => none
      | some (i1, cs1) =>
        match cs1 with
        | '-' :: ']' :: cs2 => some ((ClassItem.ch '-' :: i1 :: acc).reverse, cs2)
        | '-' :: cs2 =>
          match classAtom cs2 with
          | some (.ch hi, cs3) =>
            match i1 with
            | .ch lo => if hi.toNat < lo.toNat then none else classLoop f cs3 (.range lo hi :: acc)
            | _ => none
          | _ => none
        | _ => classLoop f cs1 (i1 :: acc)

def parseClass (cs : List Char) : Option (Re × List Char) :=
  let (neg, cs) := match cs with
    | '^' :: t => (true, t)
    | _ => (false, cs)
  (classLoop (cs.length + 1) cs []).map fun (items, rest) => (Re.cls neg items, rest)

/-- Leading ASCII decimal digits. -/
def takeNumber : List Char → Nat → Bool → (Option Nat × List Char)
  | c :: cs, acc, seen =>
    if Nat.ble 0x30 c.toNat && Nat.ble c.toNat 0x39 then takeNumber cs (acc * 10 + (c.toNat - 0x30)) true
    else (if seen then some acc else none, c :: cs)
  | [], acc, seen => (if seen then some acc else none, [])

def maxRepeat : Nat := 4294967295

/-- After `{`: `n}`, `n,m}` or `n,}`. -/
def parseBraces (cs : List Char) : Option (Nat × Option Nat × List Char) :=
  match takeNumber cs 0 false with
  | (some n, '}' :: rest) => if n < maxRepeat then some (n, some n, rest) else none
  | (some n, ',' :: rest) =>
    match takeNumber rest 0 false with
    | (some m, '}' :: rest') => if n ≤ m && m < maxRepeat then some (n, some m, rest') else none
    | (none, '}' :: rest') => if n < maxRepeat then some (n, none, rest') else none
    | _ => none
  | _ => none

def mkSeq : List Re → Re
  | [] => .eps
  | [r] => r
  | r :: rs => .seq r (mkSeq rs)

def mkAlt : List Re → Re
  | [] => .eps
  | [r] => r
  | r :: rs => .alt r (mkAlt rs)

/-- An open group (or the top level) during parsing. -/
structure Frame where
  gidx : Option Nat           -- `some i`: capturing group `i`
  alts : List Re              -- finished alternatives, reversed
  cur : List (Re × Bool)      -- current sequence, reversed; `true` = may take a quantifier

def Frame.seqRe (fr : Frame) : Re := mkSeq (fr.cur.reverse.map (·.1))
def Frame.close (fr : Frame) : Re :=
  let body := mkAlt (fr.seqRe :: fr.alts).reverse
  match fr.gidx with
  | some i => .group i body
  | none => body
def Frame.push (fr : Frame) (r : Re) : Frame := { fr with cur := (r, true) :: fr.cur }

/-- Apply a quantifier to the last item ("nothing to repeat" / "multiple repeat" → `none`). -/
def Frame.quant (fr : Frame) (mn : Nat) (mx : Option Nat) : Option Frame :=
  match fr.cur with
  | (r, true) :: t => some { fr with cur := (.rep mn mx r, false) :: t }
  | _ => none

/-- Main loop: `ng` = groups opened so far, `top` = innermost open frame, `stk` = the others. -/
def parseLoop : Nat → List Char → Nat → Frame → List Frame → Option Re
  | 0, _, _, _, _ => none
  | _ + 1, [], _, top, [] => some top.close
  | _ + 1, [], _, _, _ :: _ => none
  | f + 1, c :: cs, ng, top, stk =>
    match c with
    | '(' =>
      match cs with
      | '?' :: ':' :: cs' => parseLoop f cs' ng { gidx := none, alts := [], cur := [] } (top :: stk)
      | '?' :: _ => none
      | _ => parseLoop f cs (ng + 1) { gidx := some (ng + 1), alts := [], cur := [] } (top :: stk)
    | ')' =>
      match stk with
      | [] => none
      | parent :: stk' => parseLoop f cs ng (parent.push top.close) stk'
    | '|' => parseLoop f cs ng { top with alts := top.seqRe :: top.alts, cur := [] } stk
    | '*' => (top.quant 0 none).bind fun t => parseLoop f cs ng t stk
    | '+' => (top.quant 1 none).bind fun t => parseLoop f cs ng t stk
    | '?' => (top.quant 0 (some 1)).bind fun t => parseLoop f cs ng t stk
    | '{' =>
      match parseBraces cs with
      | none => none
      | some (mn, mx, cs') => (top.quant mn mx).bind fun t => parseLoop f cs' ng t stk
    | '[' =>
      match parseClass cs with
      | none => none
      | some (r, cs') => parseLoop f cs' ng (top.push r) stk
    | '\\' =>
      match cs with
      | [] => none
      | e :: cs' =>
        match escapeItem e with
        | none => none
        | some (.ch x) => parseLoop f cs' ng (top.push (.lit x)) stk
        | some item => parseLoop f cs' ng (top.push (.cls false [item])) stk
    | '.' => parseLoop f cs ng (top.push .any) stk
    | '^' => none
    | '$' => none
    | _ => parseLoop f cs ng (top.push (.lit c)) stk

/-- Parse a pattern; `none` = outside the supported subset (or rejected by CPython). -/
def parse (pat : List Char) : Option Re :=
  parseLoop (pat.length + 1) pat 0 { gidx := none, alts := [], cur := [] } []

/-! ## The Python-level API -/

def slice (s : List Char) (b e : Nat) : List Char := (s.drop b).take (e - b)

/-- `m.group(i)`: outer `none` = no such group; inner `none` = did not participate. -/
def MatchObj.groupText (m : MatchObj) (s : List Char) (i : Nat) : Option (Option (List Char)) :=
  match i with
  | 0 => some (some (slice s m.span.1 m.span.2))
  | j + 1 =>
    match m.groups[j]? with
    | none => none
    | some none => some none
    | some (some (b, e)) => some (some (slice s b e))

def resToOpt {α : Type} : Res α → Option (Option α)
  | .ok a => some (some a)
  | .fail => some none
  | .oof => none

/-- `re.match(pat, s, flags)`. Outer `none` = pattern outside the subset (or out of fuel). -/
def pyMatch (ic : Bool) (pat s : List Char) : Option (Option MatchObj) :=
  match parse pat with
  | none => none
  | some re => resToOpt (matchCore ic re (fuelFor re s.length) 0 s false false)

/-- `re.fullmatch(pat, s, flags)`. -/
def pyFullmatch (ic : Bool) (pat s : List Char) : Option (Option MatchObj) :=
  match parse pat with
  | none => none
  | some re => resToOpt (matchCore ic re (fuelFor re s.length) 0 s true false)

/-- `re.search(pat, s, flags)`. -/
def pySearch (ic : Bool) (pat s : List Char) : Option (Option MatchObj) :=
  match parse pat with
  | none => none
  | some re => resToOpt (searchFrom ic re (fuelFor re s.length) 0 s false)

/-- The matches enumerated by `re.finditer(pat, s, flags)`. -/
def pyFinditer (ic : Bool) (pat s : List Char) : Option (List MatchObj) :=
  match parse pat with
  | none => none
  | some re => allMatches ic re (fuelFor re s.length) (2 * s.length + 4) 0 s false

/-- Splice `repl` over the matches; `i` = end of the previous match. -/
def subBuild (s repl : List Char) : Nat → List MatchObj → List Char
  | i, [] => s.drop i
  | i, m :: ms => slice s i m.span.1 ++ repl ++ subBuild s repl m.span.2 ms

/-- `re.sub(pat, repl, s, flags=…)` for a literal replacement text (`none` if `repl`
contains a backslash). -/
def pySub (ic : Bool) (pat repl s : List Char) : Option (List Char) :=
  if repl.contains '\\' then none
  else (pyFinditer ic pat s).map (subBuild s repl 0)

/-- `re.findall(pat, s, flags)`: one row per match — `[group 0]` if the pattern has no
groups, else the texts of groups 1..n (`[]` for a group that did not participate). -/
def pyFindall (ic : Bool) (pat s : List Char) : Option (List (List (List Char))) :=
  (pyFinditer ic pat s).map fun ms =>
    ms.map fun m =>
      match m.groups with
      | [] => [slice s m.span.1 m.span.2]
      | gs => gs.map fun g =>
        match g with
        | none => []
        | some (b, e) => slice s b e

/-! ## Sanity checks (kernel evaluation) -/

example : pyMatch true "North bids (\\d)(C|D|H|S|NT)".toList "north BIDS 3nt".toList
    = some (some { span := (0, 14), groups := [some (11, 12), some (12, 14)] }) := by decide +kernel

example : ((pyMatch true "North bids (\\d)(C|D|H|S|NT)".toList "north BIDS 3nt".toList).bind id).map
      (fun m => (m.groupText "north BIDS 3nt".toList 1, m.groupText "north BIDS 3nt".toList 2,
                 m.groupText "north BIDS 3nt".toList 3))
    = some (some (some ['3']), some (some ['n', 't']), none) := by decide +kernel

example : pyMatch false "North bids (\\d)(C|D|H|S|NT)".toList "north BIDS 3nt".toList = some none := by
  decide +kernel

-- empty iterations: one empty optional iteration is run and captures, then the loop stops
example : pyMatch false "(a*)*b".toList "aab".toList
    = some (some { span := (0, 3), groups := [some (2, 2)] }) := by decide +kernel
example : pyMatch false "(a|b?)*c".toList "abc".toList
    = some (some { span := (0, 3), groups := [some (2, 2)] }) := by decide +kernel
example : pyMatch false "(|a)+".toList "aa".toList
    = some (some { span := (0, 0), groups := [some (0, 0)] }) := by decide +kernel

-- a group keeps its last iteration; a group that did not take part is `none`
example : pyMatch false "((a)|b)*".toList "ab".toList
    = some (some { span := (0, 2), groups := [some (1, 2), some (0, 1)] }) := by decide +kernel
example : pyFullmatch false "(a)|(b)".toList "b".toList
    = some (some { span := (0, 1), groups := [none, some (0, 1)] }) := by decide +kernel

-- fullmatch backtracks into the pattern
example : pyFullmatch false "a|ab".toList "ab".toList
    = some (some { span := (0, 2), groups := [] }) := by decide +kernel

example : pySearch false "\\[[ ]?([A-Z][a-zA-Z]+) \"([^\"]*)\"[ ]?\\]".toList "x [Dealer \"N\"]".toList
    = some (some { span := (2, 14), groups := [some (3, 9), some (11, 12)] }) := by decide +kernel

example : (pyMatch false
      "([NESW]):([2-9TJQKA\\.]{16}|-) ([2-9TJQKA\\.]{16}|-) ([2-9TJQKA\\.]{16}|-) ([2-9TJQKA\\.]{16}|-)".toList
      "N:AKQJ.T987.6543.2 - 765.65.AKQJT.982 -".toList).map (·.map (·.groups))
    = some (some [some (0, 1), some (2, 18), some (19, 20), some (21, 37), some (38, 39)]) := by
  decide +kernel

-- CPython >= 3.7 treatment of empty matches
example : pySub false "x*".toList "-".toList "abxd".toList = some "-a-b--d-".toList := by decide +kernel
example : pySub false "[ \\t\\r\\n]+".toList " ".toList "a \n b".toList = some "a b".toList := by
  decide +kernel
example : pyFindall false "(\\d+)\\.(\\d*)|x".toList "1.5 x 22.".toList
    = some [[['1'], ['5']], [[], []], [['2', '2'], []]] := by decide +kernel

-- case folding specials of sre
example : pyFullmatch true "sk".toList ['ſ', 'K'] = some (some { span := (0, 2), groups := [] }) := by
  decide +kernel
example : pyFullmatch true "[a-z]+".toList ['K', 'ſ', 'İ'] = some (some { span := (0, 3), groups := [] }) := by
  decide +kernel
example : pyFullmatch true ['ı'] "I".toList = some (some { span := (0, 1), groups := [] }) := by
  decide +kernel

-- outside the subset
example : parse "a*?".toList = none := by decide +kernel
example : parse "^a".toList = none := by decide +kernel
example : parse "(?P<x>a)".toList = none := by decide +kernel
example : parse "(a)\\1".toList = none := by decide +kernel
example : parse "a{2}{3}".toList = none := by decide +kernel

end Bridge.Re
