import BridgeVerif.Model.Json
import BridgeVerif.Model.Notation
import BridgeVerif.Model.Hands
import BridgeVerif.Model.Play
/-!
# Model of the JSON writers and parser (data_handler/json_handler/writer.py, parser.py) — C12, C13, C17

`JsonWriter.open / _write_content / close` produce the framing; `JsonLogWriter.write` and
`JsonBoardSettingWriter.write` assemble one record; `convert_board_setting` / `convert_board_log` rebuild the
library's value objects.  `none` = the Python function raises.
-/
namespace Bridge

abbrev Str := List Char

/-- `pbn_handler.writer.Scoring` (its `.value` is what is written) -/
inductive Scoring | MP | MatchPoints | IMP | Cavendish | Chicago | Rubber | BAM | Instant
  deriving DecidableEq, Repr
def Scoring.value : Scoring → Str
  | .MP => "MP".toList | .MatchPoints => "MatchPoints".toList | .IMP => "IMP".toList
  | .Cavendish => "Cavendish".toList | .Chicago => "Chicago".toList | .Rubber => "Rubber".toList
  | .BAM => "BAM".toList | .Instant => "Instant".toList

/-- a double-dummy table as the `dict` it is: rows and columns in insertion order -/
abbrev Dda := List (Seat × List (Suit × Int))

/-- the arguments of `JsonLogWriter.write` -/
structure LogEntry where
  boardId : Str
  north : Str
  east : Str
  south : Str
  west : Str
  dealer : Seat
  deal : Hands
  scoring : Scoring
  bids : List Call
  contract : Contract
  play : Option (List Trick)
  tricks : Option Int
  scoreNS : Int
  scoreEW : Int
  dda : Option Dda

/-- the arguments of `JsonBoardSettingWriter.write` / the fields of `BoardSetting` -/
structure SettingEntry where
  boardId : Str
  dealer : Seat
  deal : Hands
  vul : Vul
  dda : Option Dda

/-! ### writer: framing -/
/-- `open()` -/
def jsonOpen (tag : Str) : Str := "{\"".toList ++ tag ++ "\": [\n".toList
/-- the text after `open()`, the given record lines, and (when `closed`) `close()` -/
def jsonFrame (tag : Str) (lines : List Str) (closed : Bool) : Str :=
  jsonOpen tag ++ List.intercalate ",\n".toList lines ++
  (if closed then (if lines.isEmpty then "]}".toList else "\n]}".toList) else [])

/-! ### writer: records -/
def jstr (s : Str) : Json := .str s
def jkey (s : String) : Str := s.toList

/-- `convert_deal` -/
def dealJson (h : Hands) : Json :=
  .obj [(jkey "N", .arr ((dealToJson h .N).map jstr)), (jkey "E", .arr ((dealToJson h .E).map jstr)),
        (jkey "S", .arr ((dealToJson h .S).map jstr)), (jkey "W", .arr ((dealToJson h .W).map jstr))]

def ddaJson (d : Dda) : Json :=
  .obj (d.map fun (p, row) => (p.name, Json.obj (row.map fun (s, v) => (s.name, Json.int v))))

/-- `str(contract.declarer)` : `'None'` when there is none -/
def seatOptStr : Option Seat → Str | some p => p.name | none => "None".toList

def trickJson (t : Trick) : Json :=
  .obj [(jkey "leader", jstr t.leader.name), (jkey "cards", .arr (t.cards.map fun c => jstr (cardStr c)))]

/-- the dict built by `JsonLogWriter.write` -/
def logJson (e : LogEntry) : Json :=
  .obj ([(jkey "players", .obj [(jkey "N", jstr e.north), (jkey "E", jstr e.east),
                                (jkey "S", jstr e.south), (jkey "W", jstr e.west)]),
         (jkey "board_id", jstr e.boardId),
         (jkey "dealer", jstr e.dealer.name),
         (jkey "deal", dealJson e.deal),
         (jkey "vulnerability", jstr (vulStr e.contract.vul)),
         (jkey "bid_history", .arr (e.bids.map fun c => jstr (callStr c))),
         (jkey "contract", jstr (contractStr e.contract)),
         (jkey "declarer", if e.contract.isPassedOut then .null else jstr (seatOptStr e.contract.declarer)),
         (jkey "play_history", match e.play with | none => .null | some ts => .arr (ts.map trickJson)),
         (jkey "taken_trick", match e.tricks with | none => .null | some n => .int n),
         (jkey "score_type", jstr e.scoring.value),
         (jkey "scores", .obj [(jkey "NS", .int e.scoreNS), (jkey "EW", .int e.scoreEW)])] ++
        (match e.dda with | none => [] | some d => [(jkey "dda", ddaJson d)]))

/-- the dict built by `JsonBoardSettingWriter.write` -/
def settingJson (e : SettingEntry) : Json :=
  .obj ([(jkey "board_id", jstr e.boardId), (jkey "dealer", jstr e.dealer.name), (jkey "deal", dealJson e.deal),
         (jkey "vulnerability", jstr (vulStr e.vul))] ++
        (match e.dda with | none => [] | some d => [(jkey "dda", ddaJson d)]))

/-- the complete text written by `open(); write(e) for e in es; close()` -/
def logText (es : List LogEntry) : Str := jsonFrame (jkey "logs") (es.map fun e => pyDumps (logJson e)) true
def settingsText (es : List SettingEntry) : Str :=
  jsonFrame (jkey "board_settings") (es.map fun e => pyDumps (settingJson e)) true

/-! ### parser -/
def Json.str? : Json → Option Str | .str s => some s | _ => none
def Json.arr? : Json → Option (List Json) | .arr l => some l | _ => none
def Json.obj? : Json → Option (List (Str × Json)) | .obj l => some l | _ => none

def suitOfKey? (s : Str) : Option Suit := suitOfName? s

/-- `{Card.str_to_card(card) for card in hands[k]}` -/
def handOfJsonVal? (j : Json) : Option (List Card) :=
  match j with
  | .arr l => (l.mapM Json.str?).bind handOfJson?
  | .str s => handOfJson? (s.map fun c => [c])     -- iterating a str yields its characters (always fails: 1-char cards)
  | _ => none

/-- `hands_parser` -/
def handsOfJson? (j : Json) : Option Hands := do
  let n ← (j.get? (jkey "N")).bind handOfJsonVal?
  let e ← (j.get? (jkey "E")).bind handOfJsonVal?
  let s ← (j.get? (jkey "S")).bind handOfJsonVal?
  let w ← (j.get? (jkey "W")).bind handOfJsonVal?
  pure fun p => match p with | .N => n | .E => e | .S => s | .W => w

/-- `{Player[p]: {Suit[s]: n for s, n in d.items()} for p, d in data['dda'].items()}`
(the values are taken as they are; the model keeps integers only) -/
def ddaOfJson? (j : Json) : Option Dda :=
  match j with
  | .obj rows => rows.mapM fun (p, row) => do
      let p ← seatOfName? p
      let cols ← row.obj?
      let cols ← cols.mapM fun (s, v) => do
        let s ← suitOfKey? s
        match v with
        | .int n => pure (s, n)
        | _ => none
      pure (p, cols)
  | _ => none

/-- `convert_board_setting` -/
def settingOfJson? (j : Json) : Option SettingEntry := do
  let id ← (j.get? (jkey "board_id")).bind Json.str?
  let dealer ← ((j.get? (jkey "dealer")).bind Json.str?).bind seatOfName?
  let deal ← (j.get? (jkey "deal")).bind handsOfJson?
  let vul ← ((j.get? (jkey "vulnerability")).bind Json.str?).bind strToVul?
  let dda ← match j.get? (jkey "dda") with
    | none => pure none
    | some d => (ddaOfJson? d).map some
  pure { boardId := id, dealer := dealer, deal := deal, vul := vul, dda := dda }

/-- what `convert_board_log` returns (`BoardLog`) -/
structure LogRead where
  boardId : Str
  hands : Hands
  dealer : Seat
  vul : Vul
  declarer : Option Seat
  contract : Contract
  tricks : Option Int
  players : Option (List (Seat × Str))
  bids : Option (List Call)
  play : Option (List Trick)
  dda : Option Dda
  scoreType : Option Str
  scores : Option (List (Side × Int))

def sideOfName? (s : Str) : Option Side :=
  if s = "NS".toList then some .NS else if s = "EW".toList then some .EW else none

def trickOfJson? (j : Json) : Option Trick := do
  let ldr ← ((j.get? (jkey "leader")).bind Json.str?).bind seatOfName?
  let cs ← (j.get? (jkey "cards")).bind Json.arr?
  let cs ← cs.mapM fun c => c.str?.bind strToCard?
  pure ⟨ldr, cs⟩

/-- `convert_board_log` -/
def logOfJson? (j : Json) : Option LogRead := do
  let st ← settingOfJson? j
  let declJ ← j.get? (jkey "declarer")
  let declarer ← match declJ with
    | .null => pure none
    | .str s => (seatOfName? s).map some
    | _ => none
  let ctext ← (j.get? (jkey "contract")).bind Json.str?
  let contract ← strToContract? ctext st.vul declarer
  let tricks ← match ← j.get? (jkey "taken_trick") with
    | .null => pure none
    | .int n => pure (some n)
    | _ => none
  let players ← match j.get? (jkey "players") with
    | none => pure none
    | some (.obj l) => (l.mapM fun (pv : Str × Json) => do let p ← seatOfName? pv.1; let v ← pv.2.str?; pure (p, v)).map some
    | some _ => none
  let bids ← match j.get? (jkey "bid_history") with
    | none => pure none
    | some (.arr l) => (l.mapM fun (b : Json) => b.str?.bind strToCall?).map some
    | some _ => none
  let play ← match j.get? (jkey "play_history") with
    | none => pure none
    | some .null => pure none
    | some (.arr l) => (l.mapM trickOfJson?).map some
    | some _ => none
  let scoreType ← match j.get? (jkey "score_type") with
    | none => pure none
    | some (.str s) => pure (some s)
    | some _ => none
  let scores ← match j.get? (jkey "scores") with
    | none => pure none
    | some (.obj l) => (l.mapM fun (kv : Str × Json) => do
        let k ← sideOfName? kv.1
        match kv.2 with | Json.int n => pure (k, n) | _ => none).map some
    | some _ => none
  pure { boardId := st.boardId, hands := st.deal, dealer := st.dealer, vul := st.vul, declarer := declarer,
         contract := contract, tricks := tricks, players := players, bids := bids, play := play,
         dda := st.dda, scoreType := scoreType, scores := scores }

/-- `JsonParser.parse_board_logs` on a text -/
def parseBoardLogs? (text : Str) : Option (List LogRead) := do
  let doc ← jsonLoad text
  let l ← (doc.get? (jkey "logs")).bind Json.arr?
  l.mapM logOfJson?

/-- `JsonParser.parse_board_settings` on a text: `data['logs'] if 'logs' in data else data['board_settings']` -/
def parseBoardSettings? (text : Str) : Option (List SettingEntry) := do
  let doc ← jsonLoad text
  let l ← match doc.get? (jkey "logs") with
    | some x => x.arr?
    | none => (doc.get? (jkey "board_settings")).bind Json.arr?
  l.mapM settingOfJson?

end Bridge
