import BridgeVerif.Model.Session
import BridgeVerif.Model.Msg
/-!
# The bundled network client as the code writes it  (client.py `Client.run`, `_deal`, `bidding_phase`, `playing_phase`,
after `_connect`)

The client follows a board from the messages it receives: it parses the board header and its own cards, keeps its OWN
`BiddingPhase` to know whose turn it is, its OWN `ObservedPlayingPhase` (own hand, dummy's hand once shown) to know whose
turn it is in the play, parses every relayed call and card, and — when it is its turn, or dummy's turn and it is
declarer — sends the decision of its bidding / playing system.  The systems are oracles here: `calls` / `cards` are the
decisions they will return, in order (for the bundled `WeakBid` / `RandomPlay` see `Spec/Replica.lean: bundledDecisions`).
`clientReactive p calls cards s2c` consumes the stream `s2c p` and returns the actions performed (`none` = the client
raises — a parse failure, a replica that rejects a relayed action, an assertion — or blocks on an empty stream).
-/
namespace Bridge

abbrev ClientActs := List (SAct Text LogOp)

structure ClientIn where
  s : List Text          -- still to be received on `s2c p`
  calls : List Call      -- decisions the bidding system will return
  cards : List Card      -- decisions the playing system will return

def ClientIn.recv (i : ClientIn) : Option (Text × ClientIn) :=
  match i.s with
  | m :: r => some (m, { i with s := r })
  | [] => none
def ClientIn.nextCall (i : ClientIn) : Option (Call × ClientIn) :=
  match i.calls with
  | c :: r => some (c, { i with calls := r })
  | [] => none
def ClientIn.nextCard (i : ClientIn) : Option (Card × ClientIn) :=
  match i.cards with
  | c :: r => some (c, { i with cards := r })
  | [] => none

/-- `_deal` : ready for deal, the header (parsed), ready for cards, the own cards (parsed) -/
def clientDealR (p : Seat) (i : ClientIn) : Option (ClientActs × (Nat × Seat × Vul) × List Card × ClientIn) := do
  let (header, i) ← i.recv
  let board ← parseBoard? header
  let (cardsText, i) ← i.recv
  let hand ← (parseCards? cardsText p.formal).bind parseHand?
  pure ([.send (.c2s p) (readyFor p "deal".toList), .recv (.s2c p),
         .send (.c2s p) (readyFor p "cards".toList), .recv (.s2c p)], board, hand, i)

/-- `bidding_phase` : `while not env.has_done()` on the client's own replica -/
def clientBiddingR (p : Seat) : Nat → AState → ClientIn → Option (ClientActs × AState × ClientIn)
  | 0, _, _ => none
  | fuel + 1, s, i =>
    match s.active with
    | none => some ([], s, i)
    | some a => do
      let (acts, call, i) ←
        if a = p then do
          let (c, i) ← i.nextCall                       -- `self.bidding_system.bid(hand, env)`
          pure ([Act.send (.c2s p) (bidMsg c p.formal)], c, i)
        else do
          let (m, i) ← i.recv
          let c ← parseBid? m a.formal
          pure ([Act.send (.c2s p) (readyFor p (a.formal ++ "'s bid".toList)), .recv (.s2c p)], c, i)
      match takeBid s call with
      | .error _ => none
      | .ok (_, .illegal) => none                        -- `raise Exception('')`
      | .ok (s', .finished) => some (acts, s', i)
      | .ok (s', .ongoing) => do
        let (rest, sf, i) ← clientBiddingR p fuel s' i
        pure (acts ++ rest, sf, i)

/-- the four iterations of the inner `for _ in range(4)` of `playing_phase`; `opened` = `hand_open` -/
def clientTrickR (p declarer : Seat) : Nat → Observed → Bool → ClientIn → Option (ClientActs × Observed × Bool × ClientIn)
  | 0, o, opened, i => some ([], o, opened, i)
  | n + 1, o, opened, i => do
    let dummy := declarer.partner
    let a := o.base.active
    -- open dummy's hand
    let (acts0, o, opened, i) ←
      if a = dummy ∧ !opened then
        if dummy ≠ p then do
          let (m, i) ← i.recv
          let dh ← (parseCards? m "Dummy".toList).bind parseHand?
          pure ([Act.send (.c2s p) (readyFor p "dummy".toList), .recv (.s2c p)], o.setDummy dh, true, i)
        else pure ([], o, true, i)
      else pure ([], o, opened, i)
    let (acts1, o, i) ←
      if a = p ∧ p ≠ dummy then do
        let (c, i) ← i.nextCard                          -- `self.playing_system.play(self.hand_set, env)`
        match o.play c p with
        | .error _ => none
        | .ok o' => pure ([Act.send (.c2s p) (playMsg p c false)], o', i)
      else if a = dummy ∧ p = declarer then do
        if o.dummyHand.isNone then none                  -- `assert env.dummy_hand is not None`
        else do
          let (c, i) ← i.nextCard                        -- `self.playing_system.play(env.dummy_hand, env)`
          match o.play c dummy with
          | .error _ => none
          | .ok o' => pure ([Act.send (.c2s p) (playMsg dummy c false)], o', i)
      else do
        let who : Text := if a = dummy then "dummy".toList else a.formal
        let (m, i) ← i.recv
        let c ← parseCard? m a
        match o.play c a with
        | .error _ => none
        | .ok o' =>
          pure ([Act.send (.c2s p) (readyFor p (who ++ "'s card to trick ".toList ++ natStr o.base.trickNum)),
                 .recv (.s2c p)], o', i)
    let (rest, o, opened, i) ← clientTrickR p declarer n o opened i
    pure (acts0 ++ acts1 ++ rest, o, opened, i)

/-- `playing_phase` : `while not env.has_done()` -/
def clientPlayingR (p declarer : Seat) : Nat → Observed → Bool → ClientIn → Option (ClientActs × Observed × ClientIn)
  | 0, _, _, _ => none
  | fuel + 1, o, opened, i =>
    if o.base.hasDone then some ([], o, i)
    else do
      let dummy := declarer.partner
      let a := o.base.active
      let (acts0, i) ←
        if (a = p ∧ p ≠ dummy) ∨ (a = dummy ∧ p = declarer) then do
          let (m, i) ← i.recv
          let leader ← parseLeader? m dummy
          if leader = a then pure ([Act.recv (.s2c p)], i) else none      -- `assert leader is env.active_player`
        else pure ([], i)
      let (t, o, opened, i) ← clientTrickR p declarer 4 o opened i
      let (rest, o, i) ← clientPlayingR p declarer fuel o opened i
      pure (acts0 ++ t ++ rest, o, i)

/-- the board loop of `Client.run`; the message that starts the board ("Start of board") has already been received -/
def clientBoardsR (p : Seat) : Nat → ClientIn → Option (ClientActs × ClientIn)
  | 0, _ => none
  | fuel + 1, i => do
    let (d, (_, dealer, vul), hand, i) ← clientDealR p i
    let (b, s, i) ← clientBiddingR p (320 + 1) (AState.init dealer vul) i
    let contract ← s.contract
    let (pl, i) ←
      if contract.isPassedOut then pure ([], i)
      else
        match contract.declarer, Observed.init contract p hand with
        | some decl, some o0 => do
          let (acts, _, i) ← clientPlayingR p decl 14 o0 false i
          pure (acts, i)
        | _, _ => none                                   -- `assert declarer is not None`
    let (m, i) ← i.recv
    let pre := d ++ b ++ pl ++ [.recv (.s2c p)]
    if m = MSG_END then pure (pre, i)
    else if lowerS m = lowerS MSG_START then do
      let (rest, i) ← clientBoardsR p fuel i
      pure (pre ++ rest, i)
    else none                                            -- `raise Exception()`

/-- the client after `_connect`'s request was answered: the `Teams` message, "ready to start", "Start of board", then
the boards -/
def clientReactive (p : Seat) (calls : List Call) (cards : List Card) (s2c : List Text) : Option ClientActs := do
  let i : ClientIn := { s := s2c, calls := calls, cards := cards }
  let (teams, i) ← i.recv
  let _ ← parseTeamNames? teams
  let (start, i) ← i.recv
  if lowerS start = lowerS MSG_START then do
    let (bs, _) ← clientBoardsR p (s2c.length + 1) i
    pure ([.recv (.s2c p), .send (.c2s p) (p.formal ++ " ready to start".toList), .recv (.s2c p)] ++ bs)
  else none

end Bridge
