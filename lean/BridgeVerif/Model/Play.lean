import BridgeVerif.Core
/-!
# Model of playing_phase.py — `PlayingPhase`, `PlayingPhaseWithHands`, `ObservedPlayingPhase`
(C04, C05, C06, C11).  Sets of cards are lists (compared up to order by the driver);
`history` and `used` are kept newest first.
-/
namespace Bridge

structure Trick where
  leader : Seat
  cards : List Card
  deriving DecidableEq, Repr

structure PState where
  trump : Suit
  declarer : Seat
  dummy : Seat
  leader : Seat
  active : Seat
  trick : List Card            -- cards of the current trick, in the order played
  trickNum : Nat
  history : List Trick         -- newest first
  used : List Card             -- `used_cards` (a set): newest first, no duplicates
  takenNS : Nat
  takenEW : Nat
  deriving DecidableEq, Repr

/-- `PlayingPhase.__init__`; `none` = raises (passed out) or an assertion fails (no declarer) -/
def PState.init (c : Contract) : Option PState :=
  match c.finalBid, c.declarer with
  | some b, some d =>
    some { trump := bidDenom b, declarer := d, dummy := d.partner, leader := d.left, active := d.left,
           trick := [], trickNum := 1, history := [], used := [], takenNS := 0, takenEW := 0 }
  | _, _ => none

def PState.hasDone (s : PState) : Bool := decide (s.trickNum > 13)

/-- loop of `calc_highest`: position `i`, best index `n` so far (−1 = none), its rank `hi` -/
def calcHighestAux (suit : Suit) : List Card → Nat → Int → Int → Int
  | [], _, n, _ => n
  | c :: cs, i, n, hi =>
    if c.suit ≠ suit then calcHighestAux suit cs (i + 1) n hi
    else if hi < (c.rank : Int) then calcHighestAux suit cs (i + 1) (i : Int) (c.rank : Int)
    else calcHighestAux suit cs (i + 1) n hi

/-- `PlayingPhase.calc_highest(suit, cards)` -/
def calcHighest (suit : Suit) (cards : List Card) : Int :=
  if suit = .NT then -1 else calcHighestAux suit cards 0 (-1) (-1)

/-- index chosen by `_set_next_leader` for a complete trick -/
def highestIdx (trump : Suit) (cards : List Card) : Int :=
  let h := calcHighest trump cards
  if h < 0 then
    match cards with
    | [] => -1
    | c :: _ => calcHighest c.suit cards
  else h

def addTaken (s : PState) (sd : Side) : PState :=
  match sd with
  | .NS => { s with takenNS := s.takenNS + 1 }
  | .EW => { s with takenEW := s.takenEW + 1 }

def setAdd (c : Card) (l : List Card) : List Card := if c ∈ l then l else c :: l

/-- `PlayingPhase.play_card(card)` -/
def playCard (s : PState) (c : Card) : PState :=
  let tc := s.trick ++ [c]
  let used := setAdd c s.used
  if tc.length = 4 then
    let hist := { leader := s.leader, cards := tc : Trick } :: s.history
    let ldr := s.leader.rot (highestIdx s.trump tc).toNat
    addTaken { s with trick := [], used := used, history := hist, leader := ldr, active := ldr,
                      trickNum := s.trickNum + 1 } ldr.side
  else
    { s with trick := tc, used := used, active := s.active.left }

inductive PErr | turn | notHeld | dummyNotSet
  deriving DecidableEq, Repr

/-- `PlayingPhase.play_card_by_player` (no hands): turn check only -/
def PState.playBy (s : PState) (c : Card) (p : Seat) : Except PErr PState :=
  if p ≠ s.active then .error .turn else .ok (playCard s c)

/-- `PlayingPhase.available_cards(hand, first_card)` -/
def availableCards (hand : List Card) (first : Option Card) : List Card :=
  match first with
  | none => hand
  | some f =>
    let same := hand.filter fun c => decide (c.suit = f.suit)
    if same.length = 0 then hand else same

/-- `current_available_cards(hand)` -/
def PState.currentAvailable (s : PState) (hand : List Card) : List Card :=
  availableCards hand s.trick.head?

/-! ## PlayingPhaseWithHands -/
structure WithHands where
  base : PState
  hands : Seat → List Card

def WithHands.init (c : Contract) (hands : Seat → List Card) : Option WithHands :=
  (PState.init c).map fun b => { base := b, hands := hands }

/-- `PlayingPhaseWithHands.play_card_by_player`: turn, then possession, then remove and play -/
def WithHands.play (w : WithHands) (c : Card) (p : Seat) : Except PErr WithHands :=
  if p ≠ w.base.active then .error .turn
  else if c ∉ w.hands p then .error .notHeld
  else .ok { base := playCard w.base c,
             hands := fun q => if q = p then (w.hands p).erase c else w.hands q }

/-! ## ObservedPlayingPhase -/
structure Observed where
  base : PState
  me : Seat
  hand : List Card
  dummyHand : Option (List Card)

def Observed.init (c : Contract) (me : Seat) (hand : List Card) : Option Observed :=
  (PState.init c).map fun b => { base := b, me := me, hand := hand, dummyHand := none }

def Observed.setDummy (o : Observed) (dh : List Card) : Observed := { o with dummyHand := some dh }

def Observed.play (o : Observed) (c : Card) (p : Seat) : Except PErr Observed :=
  if p ≠ o.base.active then .error .turn
  else if p = o.me then
    if c ∉ o.hand then .error .notHeld
    else .ok { o with base := playCard o.base c, hand := o.hand.erase c }
  else if p = o.base.dummy then
    match o.dummyHand with
    | none => .error .dummyNotSet
    | some dh =>
      if c ∉ dh then .error .notHeld
      else .ok { o with base := playCard o.base c, dummyHand := some (dh.erase c) }
  else .ok { o with base := playCard o.base c }

end Bridge
