import BridgeVerif.Model.Session
import BridgeVerif.Model.Msg
/-!
# The main thread as the code writes it: driven by the messages it takes from the seat threads' queues
(server.py `Server.run` board loop, `Server.deal`, `Server.bidding_phase`, `Server.playing_phase`)

`Model/Session.lean` computes main's straight-line program and the logged record from the scenario's DECISIONS.  Here main
is modelled the way `Server` is written: it keeps its own `BiddingPhase` and `PlayingPhaseWithHands`, asks the seat whose
turn it is, PARSES the text it receives (`remove_alert_word`, `parse_bid`, `parse_card`), applies it (raising on an
illegal call, an unparseable message, a card not held), relays, and assembles the record from what it parsed.
`mainReactive` consumes the four streams `t2m p` and returns the actions it performs (`none` = it raises, or waits for
ever on an empty stream).

`C08.main_thread_follows_the_messages` (Props/C08.lean): fed the messages the seat threads forward in a session with
conforming decisions whose texts mean what was decided, this program IS `sessionProg sc .main` — in particular the
records it writes are `recordOf`.
-/
namespace Bridge

abbrev MainActs := List (SAct Text LogOp)

/-- what is still to be read from `received_message_queues[p]` -/
abbrev MainIn := Seat → List Text

def MainIn.get (i : MainIn) (p : Seat) : Option (Text × MainIn) :=
  match i p with
  | m :: r => some (m, fun q => if q = p then r else i q)
  | [] => none

def putAll (m : Text) : MainActs := forSeats fun p => [.send (.m2t p) m]
def putAllBut (x : Seat) (m : Text) : MainActs := forSeats fun p => if p = x then [] else [.send (.m2t p) m]

/-- `Server.deal` -/
def mainDealR (k : Nat) (b : BoardSetting) : MainActs :=
  forSeats (fun p => [.send (.m2t p) (boardHeader k b.dealer b.vul), .send (.m2t p) (cardsMsg p.formal (b.deal p))]) ++
  sync ++ sync

/-- `Server.bidding_phase` : `while not bidding_env.has_done()` -/
def mainBiddingR : Nat → AState → MainIn → Option (MainActs × AState × MainIn)
  | 0, _, _ => none
  | fuel + 1, s, i =>
    match s.active with
    | none =>
      -- the auction has ended: `contract()`, then NULL and (PASSED_OUT | NULL) to every seat
      match s.contract with
      | none => none
      | some c =>
        some (forSeats (fun p => [.send (.m2t p) MSG_NULL,
                                   .send (.m2t p) (if c.isPassedOut then MSG_PASSED_OUT else MSG_NULL)]), s, i)
    | some a => do
      let (msg, i) ← i.get a
      let msg' := preprocessBid msg                      -- `if 'alert' in msg.lower(): msg = remove_alert_word(msg)`
      let call ← parseBid? msg' a.formal                 -- raises on an unparseable message
      match takeBid s call with
      | .error _ => none
      | .ok (_, .illegal) => none                        -- `raise Exception('Illegal bid is detected.')`
      | .ok (s', _) =>
        let (rest, sf, i) ← mainBiddingR fuel s' i
        pure (putAll a.formal ++ [.recv (.t2m a)] ++ putAllBut a msg' ++ rest, sf, i)

/-- the four cards of one trick of `Server.playing_phase`; `first` = trick number 1; `idx` = 0..3 -/
def mainTrickR (declarer : Seat) (dummyMsg : Text) (first : Bool) : Nat → WithHands → MainIn →
    Option (MainActs × WithHands × MainIn)
  | 4, w, i => some ([], w, i)
  | idx, w, i =>
    if idx > 4 then none else do
    let dummy := declarer.partner
    let active := w.base.active
    let played := if active = dummy then declarer else active
    let (message, i) ← i.get played
    let card ← parseCard? message active                 -- raises on an unparseable message
    match w.play card active with
    | .error _ => none                                   -- raises: not held (or out of turn)
    | .ok w' =>
      let (rest, wf, i) ← mainTrickR declarer dummyMsg first (idx + 1) w' i
      pure ([.recv (.t2m played)] ++ putAllBut played message ++
            (if first ∧ idx = 0 then putAllBut dummy dummyMsg else []) ++ rest, wf, i)
termination_by idx _ _ => 5 - idx
decreasing_by all_goals omega

/-- `Server.playing_phase` -/
def mainPlayingR (declarer : Seat) (dummyMsg : Text) (w0 : WithHands) (i : MainIn) :
    Option (MainActs × WithHands × MainIn) := do
  let rec tricks : Nat → Nat → WithHands → MainIn → Option (MainActs × WithHands × MainIn)
    | 0, _, w, i => some ([], w, i)
    | n + 1, k, w, i => do
      let leaderName := w.base.leader.formal
      let (t, w, i) ← mainTrickR declarer dummyMsg (k = 1) 0 w i
      let (rest, w, i) ← tricks n (k + 1) w i
      pure (putAll leaderName ++ t ++ rest, w, i)
  let (ts, w, i) ← tricks 13 1 w0 i
  pure (putAll declarer.formal ++ ts, w, i)

/-- the record `Server.run` assembles from what it parsed and played -/
def recordFrom (sc : Scenario) (b : BoardSetting) (calls : List Call) (contract : Contract) (w : Option WithHands) :
    BoardRecord :=
  match contract.finalBid, contract.declarer, w with
  | some _, some decl, some w =>
    let tricks : Nat := match decl.side with | .NS => w.base.takenNS | .EW => w.base.takenEW
    let score : Int := (calcScore contract tricks).getD 0
    { boardId := b.boardId, nsName := sc.nsName, ewName := sc.ewName, dealer := b.dealer, deal := b.deal,
      vul := contract.vul, calls := calls, contract := contract, play := some w.base.history.reverse,
      tricks := some tricks, scoreNS := if decl.side = .NS then score else -score,
      scoreEW := if decl.side = .EW then score else -score, dda := b.dda }
  | _, _, _ =>
    { boardId := b.boardId, nsName := sc.nsName, ewName := sc.ewName, dealer := b.dealer, deal := b.deal,
      vul := contract.vul, calls := calls, contract := contract, play := none, tricks := none,
      scoreNS := 0, scoreEW := 0, dda := b.dda }

/-- one iteration of the board loop of `Server.run`; `k` = 1-based board number, `last` = it is the final board -/
def mainBoardR (sc : Scenario) (k : Nat) (last : Bool) (b : BoardSetting) (i : MainIn) : Option (MainActs × MainIn) := do
  let (bid, s, i) ← mainBiddingR (320 + 1) (AState.init b.dealer b.vul) i
  let contract ← s.contract
  let calls := s.history.reverse                          -- `bidding_env.bid_history` (the model keeps it newest first)
  let (play, w, i) ←
    if contract.isPassedOut then pure ([], none, i)
    else
      match contract.declarer, WithHands.init contract b.deal with     -- a copy of the deal
      | some decl, some w0 => do
        let (acts, w, i) ← mainPlayingR decl (cardsMsg "Dummy".toList (b.deal decl.partner)) w0 i
        pure (acts, some w, i)
      | _, _ => none
  let rec_ := LogOp.write (recordFrom sc b calls contract w)
  pure (mainDealR k b ++ bid ++ play ++
        (if last then [.emit rec_, .emit LogOp.close] ++ putAll MSG_END else [.emit rec_] ++ putAll MSG_NEXT), i)

def mainBoardsR (sc : Scenario) : Nat → List BoardSetting → MainIn → Option MainActs
  | _, [], _ => some []
  | k, [b], i => (mainBoardR sc k true b i).map (·.1)
  | k, b :: rest, i => do
    let (acts, i) ← mainBoardR sc k false b i
    let more ← mainBoardsR sc (k + 1) rest i
    pure (acts ++ more)

/-- the main thread after admission: the seating barrier, the log opened, then the boards -/
def mainReactive (sc : Scenario) (boards : List BoardSetting) (i : MainIn) : Option MainActs :=
  (mainBoardsR sc 1 boards i).map fun acts => sync ++ [.emit LogOp.open] ++ acts

end Bridge
