import BridgeVerif.Model.Notation
/-!
# Model of the Blue Chip Bridge message layer (socket_interface.py, server.py, client.py) — C19

Builders mirror the f-strings; every parser mirrors its regular expression with `re.match` semantics:
greedy `(.*)` (never across `'\n'`) with backtracking, literal parts compared case-insensitively
(`re.IGNORECASE`, ASCII plus the four extra foldings CPython applies: ſ→s, K→k, İ→i, ı→i).
`none` = the Python function raises.  Domain of faithfulness: DESIGN.md appendix F.
-/
namespace Bridge

/-! ### characters -/
def lowerA (c : Char) : Char := if 'A' ≤ c ∧ c ≤ 'Z' then Char.ofNat (c.toNat + 32) else c
def upperA (c : Char) : Char := if 'a' ≤ c ∧ c ≤ 'z' then Char.ofNat (c.toNat - 32) else c
/-- case folding used by `re.IGNORECASE` on the characters that can meet an ASCII pattern letter -/
def foldC (c : Char) : Char :=
  if c = Char.ofNat 0x17F then 's' else if c = Char.ofNat 0x212A then 'k'
  else if c = Char.ofNat 0x130 then 'i' else if c = Char.ofNat 0x131 then 'i' else lowerA c
def eqCI (a b : Char) : Bool := foldC a == foldC b
/-- ASCII white space of `\s` -/
def isWs (c : Char) : Bool :=
  c == ' ' || c == '\t' || c == '\n' || c == '\r' || c == Char.ofNat 11 || c == Char.ofNat 12
def isDigit (c : Char) : Bool := decide ('0' ≤ c ∧ c ≤ '9')

/-- literal prefix, case-insensitive -/
def stripPrefixCI : List Char → List Char → Option (List Char)
  | [], s => some s
  | _ :: _, [] => none
  | p :: ps, c :: cs => if eqCI p c then stripPrefixCI ps cs else none

/-- greedy repetition with backtracking: try to give the first `n`, `n-1`, …, `0` characters to the group -/
def greedy {α : Type} (s : List Char) (k : List Char → List Char → Option α) : Nat → Option α
  | 0 => k [] s
  | n + 1 =>
    match k (s.take (n + 1)) (s.drop (n + 1)) with
    | some r => some r
    | none => greedy s k n

/-- `(.*)` followed by the continuation `k group rest` -/
def dotStar {α : Type} (s : List Char) (k : List Char → List Char → Option α) : Option α :=
  greedy s k (s.takeWhile (· ≠ '\n')).length

/-- decimal value of a non-empty ASCII digit string -/
def decimal? (s : List Char) : Option Nat :=
  if s = [] ∨ ¬ s.all isDigit then none
  else some (s.foldl (fun n c => n * 10 + (c.toNat - '0'.toNat)) 0)

/-- decimal digits of a natural number, most significant first (`str(n)` for a non-negative int) -/
def natDigitsAux : Nat → Nat → List Char → List Char
  | 0, _, acc => acc
  | fuel + 1, n, acc =>
    let acc' := Char.ofNat ('0'.toNat + n % 10) :: acc
    if n < 10 then acc' else natDigitsAux fuel (n / 10) acc'
def natStr (n : Nat) : List Char := natDigitsAux (n + 1) n []

/-! ### builders -/
def rankCh (c : Card) : Char := (rankChar? c.rank).getD '?'

def suitField (hand : List Card) (su : Suit) : List Char :=
  let rs := ((sortDescI hand).filter fun c => decide (c.suit = su)).map rankCh
  if rs.length = 0 then ['-'] else List.intercalate [' '] (rs.map fun c => [c])
where
  sortDescI (l : List Card) : List Card :=
    l.foldr (fun c acc => insertD c acc) []
  insertD (c : Card) : List Card → List Card
    | [] => [c]
    | d :: r => if d.idx ≤ c.idx then c :: d :: r else d :: insertD c r

/-- `Server.hand_to_str` -/
def handToStr (hand : List Card) : List Char :=
  "S ".toList ++ suitField hand .S ++ ". H ".toList ++ suitField hand .H ++
  ". D ".toList ++ suitField hand .D ++ ". C ".toList ++ suitField hand .C ++ ['.']

/-- `f"{name}'s cards : {hand_to_str(hand)}"` (name = formal seat name, or `Dummy`) -/
def cardsMsg (name : List Char) (hand : List Card) : List Char :=
  name ++ "'s cards : ".toList ++ handToStr hand

/-- `Client.create_bid_message` -/
def bidMsg (c : Call) (name : List Char) : List Char :=
  name ++ [' '] ++
    (match c with
     | .pass => "passes".toList | .dbl => "doubles".toList | .rdbl => "redoubles".toList
     | .bid _ => "bids ".toList ++ callStr c)

/-- `Client.card_str` : rank then suit -/
def cardStrRS (c : Card) : List Char := rankCh c :: c.suit.name

/-- `f"{formal} plays {card}"` in either notation -/
def playMsg (p : Seat) (c : Card) (suitFirst : Bool) : List Char :=
  p.formal ++ " plays ".toList ++ (if suitFirst then cardStr c else cardStrRS c)

/-- `Server.convert_vul` -/
def convertVul : Vul → List Char
  | .none => "Neither".toList | .ns => "N/S".toList | .ew => "E/W".toList | .both => "Both".toList

/-- board header sent by `Server.deal` -/
def boardHeader (n : Nat) (dealer : Seat) (v : Vul) : List Char :=
  "Board number ".toList ++ natStr n ++ ". Dealer ".toList ++ dealer.formal ++ ". ".toList ++
  convertVul v ++ " vulnerable.".toList

def teamsMsg (ns ew : List Char) : List Char :=
  "Teams : N/S : \"".toList ++ ns ++ "\" E/W : \"".toList ++ ew ++ ['"']

def connectMsg (team : List Char) (seat : List Char) (version : Nat) : List Char :=
  "Connecting \"".toList ++ team ++ "\" as ".toList ++ seat ++ " using protocol version ".toList ++
  natStr version

def leadPrompt (who : Option Seat) : List Char :=
  (match who with | none => "Dummy".toList | some p => p.formal) ++ " to lead".toList

/-! ### parsers -/
/-- `Client.parse_cards(content, name)` : `{name}'s cards : (.*)` -/
def parseCards? (content name : List Char) : Option (List Char) :=
  (stripPrefixCI (name ++ "'s cards : ".toList) content).map fun r => r.takeWhile (· ≠ '\n')

/-- split on single spaces (`str.split(' ')`) -/
def splitSp (s : List Char) : List (List Char) :=
  s.foldr (fun c acc => if c = ' ' then [] :: acc else
    match acc with
    | [] => [[c]]
    | a :: r => (c :: a) :: r) [[]]

/-- `Card.rank_str_to_int` on a token of any length (ASCII decimal only) -/
def rankOfToken? (t : List Char) : Option Nat :=
  match t with
  | [c] => rankOfChar? c
  | t => decimal? t

def cardsOfGroup? (g : List Char) (su : Suit) : Option (List Card) :=
  ((splitSp g).filter (· ≠ ['-'])).mapM fun t => (rankOfToken? t).bind fun r => mkCard? r su

def dedupC (l : List Card) : List Card := l.foldr (fun c acc => if c ∈ acc then acc else c :: acc) []

/-- `Client.parse_hand` : `S (.*)\. H (.*)\. D (.*)\. C (.*)\.\s?` ; returns the set of cards -/
def parseHand? (content : List Char) : Option (List Card) :=
  match stripPrefixCI "S ".toList content with
  | none => none
  | some r0 =>
    let groups : Option (List (List Char)) :=
      dotStar r0 fun g1 t1 => (stripPrefixCI ". H ".toList t1).bind fun r1 =>
      dotStar r1 fun g2 t2 => (stripPrefixCI ". D ".toList t2).bind fun r2 =>
      dotStar r2 fun g3 t3 => (stripPrefixCI ". C ".toList t3).bind fun r3 =>
      dotStar r3 fun g4 t4 => (stripPrefixCI ['.'] t4).map fun _ => [g1, g2, g3, g4]
    match groups with
    | some [g1, g2, g3, g4] =>
      match cardsOfGroup? g1 .S, cardsOfGroup? g2 .H, cardsOfGroup? g3 .D, cardsOfGroup? g4 .C with
      | some a, some b, some c, some d => some (dedupC (a ++ b ++ c ++ d))
      | _, _, _, _ => none
    | _ => none

/-- `Server.remove_alert_word` : `re.sub(r'\s+Alert\.\s*', '', m, IGNORECASE)` -/
def removeAlertAux : Nat → List Char → List Char
  | 0, s => s
  | _, [] => []
  | fuel + 1, c :: r =>
    if isWs c then
      match stripPrefixCI "Alert.".toList ((c :: r).dropWhile isWs) with
      | some rest => removeAlertAux fuel (rest.dropWhile isWs)
      | none => c :: removeAlertAux fuel r
    else c :: removeAlertAux fuel r
def removeAlert (s : List Char) : List Char := removeAlertAux (s.length + 1) s

def lowerS (s : List Char) : List Char := s.map lowerA
def upperS (s : List Char) : List Char := s.map upperA
def containsSub (needle s : List Char) : Bool :=
  (List.range (s.length + 1)).any fun i => needle.isPrefixOf (s.drop i)

/-- what `Server.bidding_phase` does with a received bid message before parsing -/
def preprocessBid (m : List Char) : List Char :=
  if containsSub "alert".toList (lowerS m) then removeAlert m else m

/-- `MessageInterface.parse_bid(content, player_name)` -/
def parseBid? (content name : List Char) : Option Call :=
  let asBid : Option (Option Call) :=
    match stripPrefixCI (name ++ " bids ".toList) content with
    | some (d :: rest) =>
      if isDigit d then
        let su : Option Suit :=
          match rest with
          | c :: r =>
            if eqCI c 'C' then some .C else if eqCI c 'D' then some .D else if eqCI c 'H' then some .H
            else if eqCI c 'S' then some .S
            else if eqCI c 'N' then (match r with | t :: _ => if eqCI t 'T' then some .NT else none | [] => none)
            else none
          | [] => none
        su.map fun su => levelSuitToCall? (d.toNat - '0'.toNat : Nat) su
      else none
    | _ => none
  match asBid with
  | some r => r          -- the first pattern matched: its result (or its exception) is final
  | none =>
    match stripPrefixCI (name ++ [' ']) content with
    | none => none
    | some r =>
      let w := lowerS (r.takeWhile (· ≠ '\n'))
      if w = "passes".toList then some .pass else if w = "doubles".toList then some .dbl
      else if w = "redoubles".toList then some .rdbl else none

/-- `MessageInterface.parse_card(content, player)` -/
def parseCard? (content : List Char) (p : Seat) : Option Card :=
  match stripPrefixCI (p.formal ++ " plays ".toList) content with
  | none => none
  | some r =>
    match upperS (r.takeWhile (· ≠ '\n')) with
    | a :: b :: _ =>
      if a = 'S' ∨ a = 'H' ∨ a = 'D' ∨ a = 'C' then
        (rankOfChar? b).bind fun rk => (suitOfName? [a]).bind fun su => mkCard? rk su
      else
        (rankOfChar? a).bind fun rk => (suitOfName? [b]).bind fun su => mkCard? rk su
    | _ => none

/-- the words `Client.parse_board` accepts for the vulnerability -/
def vulOfWord? (w : List Char) : Option Vul :=
  if w = "Neither".toList then some .none else if w = "N/S".toList then some .ns
  else if w = "E/W".toList then some .ew else if w = "Both".toList then some .both else none

/-- `Client.parse_board` : `Board number (\d+)\. Dealer (.*)\. (.*) vulnerable\.` -/
def parseBoard? (content : List Char) : Option (Nat × Seat × Vul) :=
  match stripPrefixCI "Board number ".toList content with
  | none => none
  | some r0 =>
    let ds := r0.takeWhile isDigit
    match decimal? ds with
    | none => none
    | some n =>
      match stripPrefixCI ". Dealer ".toList (r0.drop ds.length) with
      | none => none
      | some r1 =>
        let g : Option (List Char × List Char) :=
          dotStar r1 fun gd t1 => (stripPrefixCI ". ".toList t1).bind fun r2 =>
          dotStar r2 fun gv t2 => (stripPrefixCI " vulnerable.".toList t2).map fun _ => (gd, gv)
        match g with
        | none => none
        | some (gd, gv) =>
          match seatOfFormal? gd, vulOfWord? gv with
          | some d, some v => some (n, d, v)
          | _, _ => none

/-- `Client.parse_team_names` : `Teams : N/S : "(.*)".? E/W : "(.*)"` -/
def parseTeamNames? (content : List Char) : Option (List Char × List Char) :=
  match stripPrefixCI "Teams : N/S : \"".toList content with
  | none => none
  | some r0 =>
    dotStar r0 fun g1 t1 =>
      match t1 with
      | '"' :: t2 =>
        let after (t : List Char) : Option (List Char × List Char) :=
          (stripPrefixCI " E/W : \"".toList t).bind fun r1 =>
            dotStar r1 fun g2 t3 => match t3 with | '"' :: _ => some (g1, g2) | _ => none
        -- `.?` is greedy: first try to consume one (non-newline) character
        match t2 with
        | c :: t2' =>
          if c ≠ '\n' then
            match after t2' with
            | some r => some r
            | none => after t2
          else after t2
        | [] => after t2
      | _ => none

/-- `str.capitalize()` on ASCII -/
def capitalizeA (s : List Char) : List Char :=
  match s with
  | [] => []
  | c :: r => upperA c :: lowerS r

/-- `PlayerThread.parse_connection_info` :
`Connecting "(.*)" as (.*) using protocol version (\d+)` → (team, seat, version) -/
def parseConnect? (content : List Char) : Option (List Char × Seat × Nat) :=
  match stripPrefixCI "Connecting \"".toList content with
  | none => none
  | some r0 =>
    let g : Option (List Char × List Char × List Char) :=
      dotStar r0 fun team t1 => (stripPrefixCI "\" as ".toList t1).bind fun r1 =>
      dotStar r1 fun seat t2 => (stripPrefixCI " using protocol version ".toList t2).bind fun r2 =>
        let ds := r2.takeWhile isDigit
        if ds = [] then none else some (team, seat, ds)
    match g with
    | none => none
    | some (team, seat, ds) =>
      match seatOfFormal? (capitalizeA seat), decimal? ds with
      | some p, some v => some (team, p, v)
      | _, _ => none

/-- `Client.parse_leader_message(content, dummy)` : `(.*) to lead` -/
def parseLeader? (content : List Char) (dummy : Seat) : Option Seat :=
  let g : Option (List Char) :=
    dotStar content fun g t => (stripPrefixCI " to lead".toList t).map fun _ => g
  match g with
  | none => none
  | some g => if g = "Dummy".toList then some dummy else seatOfFormal? g

/-- `PlayerThread._check_message` : the expected text with every space standing for `\s+`,
`re.fullmatch`, case-insensitive -/
def checkMessage : List Char → List Char → Bool
  | [], [] => true
  | [], _ :: _ => false
  | e :: es, r =>
    if e = ' ' then
      match r with
      | c :: _ => if isWs c then checkMessage es (r.dropWhile isWs) else false
      | [] => false
    else
      match r with
      | c :: cs => if eqCI e c then checkMessage es cs else false
      | [] => false

end Bridge
