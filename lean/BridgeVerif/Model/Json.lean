/-!
# Model of Python's `json.dumps(d, indent=None)` and `json.loads` for the value class the library uses  (C12, C13, C17)

`pyDumps` : default separators `", "` / `": "`, `ensure_ascii=True` escaping (lower-case `\uXXXX`, surrogate
pairs above the BMP; `0x7f` is escaped).  `jsonLoad` : recursive-descent reader following `json.scanner` /
`py_scanstring` (strict): white space = space, TAB, LF, CR; raw control characters inside a string are errors;
`😀` pairs are combined; a duplicate key keeps its first position and takes the last value
(`dict` semantics).  Outside the modelled domain (the reader answers `none`): numbers with a fraction or an exponent,
`NaN`/`Infinity`, lone surrogates (a Lean `Char` cannot hold one).
-/
namespace Bridge

inductive Json
  | null
  | bool (b : Bool)
  | int (i : Int)
  | str (s : List Char)
  | arr (l : List Json)
  | obj (l : List (List Char × Json))
  deriving Repr, Inhabited

/-! ### writer -/
def hexDigitL (n : Nat) : Char :=
  if n < 10 then Char.ofNat ('0'.toNat + n) else Char.ofNat ('a'.toNat + (n - 10))

def hex4 (n : Nat) : List Char :=
  [hexDigitL (n / 4096 % 16), hexDigitL (n / 256 % 16), hexDigitL (n / 16 % 16), hexDigitL (n % 16)]

/-- `ESCAPE_ASCII` replacement of one character -/
def escChar (c : Char) : List Char :=
  if c = '"' then ['\\', '"'] else if c = '\\' then ['\\', '\\']
  else if c = '\n' then ['\\', 'n'] else if c = '\r' then ['\\', 'r'] else if c = '\t' then ['\\', 't']
  else if c = Char.ofNat 8 then ['\\', 'b'] else if c = Char.ofNat 12 then ['\\', 'f']
  else if 0x20 ≤ c.toNat ∧ c.toNat ≤ 0x7e then [c]
  else if c.toNat < 0x10000 then '\\' :: 'u' :: hex4 c.toNat
  else
    let v := c.toNat - 0x10000
    '\\' :: 'u' :: hex4 (0xd800 + v / 1024) ++ '\\' :: 'u' :: hex4 (0xdc00 + v % 1024)

def dumpStr (s : List Char) : List Char := '"' :: s.flatMap escChar ++ ['"']

/-- decimal digits, most significant first -/
def natDigits : Nat → Nat → List Char → List Char
  | 0, _, acc => acc
  | fuel + 1, n, acc =>
    let acc' := Char.ofNat ('0'.toNat + n % 10) :: acc
    if n < 10 then acc' else natDigits fuel (n / 10) acc'
def natRepr (n : Nat) : List Char := natDigits (n + 1) n []
/-- `str(i)` / `int.__repr__` -/
def intRepr (i : Int) : List Char :=
  match i with
  | .ofNat n => natRepr n
  | .negSucc n => '-' :: natRepr (n + 1)

mutual
def pyDumps : Json → List Char
  | .null => "null".toList
  | .bool true => "true".toList
  | .bool false => "false".toList
  | .int i => intRepr i
  | .str s => dumpStr s
  | .arr l => '[' :: dumpElems l ++ [']']
  | .obj l => '{' :: dumpMembers l ++ ['}']
def dumpElems : List Json → List Char
  | [] => []
  | [x] => pyDumps x
  | x :: y :: r => pyDumps x ++ [',', ' '] ++ dumpElems (y :: r)
def dumpMembers : List (List Char × Json) → List Char
  | [] => []
  | [(k, v)] => dumpStr k ++ [':', ' '] ++ pyDumps v
  | (k, v) :: y :: r => dumpStr k ++ [':', ' '] ++ pyDumps v ++ [',', ' '] ++ dumpMembers (y :: r)
end

/-! ### reader -/
def isJsonWs (c : Char) : Bool := c == ' ' || c == '\t' || c == '\n' || c == '\r'
def skipWs (s : List Char) : List Char := s.dropWhile isJsonWs

def hexVal? (c : Char) : Option Nat :=
  if '0' ≤ c ∧ c ≤ '9' then some (c.toNat - '0'.toNat)
  else if 'a' ≤ c ∧ c ≤ 'f' then some (c.toNat - 'a'.toNat + 10)
  else if 'A' ≤ c ∧ c ≤ 'F' then some (c.toNat - 'A'.toNat + 10) else none

def hex4? (s : List Char) : Option (Nat × List Char) :=
  match s with
  | a :: b :: c :: d :: r =>
    match hexVal? a, hexVal? b, hexVal? c, hexVal? d with
    | some a, some b, some c, some d => some (a * 4096 + b * 256 + c * 16 + d, r)
    | _, _, _, _ => none
  | _ => none

def charOfNat? (n : Nat) : Option Char :=
  if h : n.isValidChar then some ⟨n.toUInt32, by
    have : n < UInt32.size := by
      rcases h with h | ⟨_, h⟩ <;> simp [UInt32.size] <;> omega
    simpa [Nat.toUInt32, UInt32.isValidChar, UInt32.toNat_ofNat', Nat.mod_eq_of_lt this] using h⟩
  else none

/-- the body of a string after the opening quote: (decoded characters, rest after the closing quote) -/
def scanString : Nat → List Char → List Char → Option (List Char × List Char)
  | 0, _, _ => none
  | _, [], _ => none
  | fuel + 1, c :: r, acc =>
    if c = '"' then some (acc.reverse, r)
    else if c = '\\' then
      match r with
      | [] => none
      | e :: r' =>
        if e = '"' then scanString fuel r' ('"' :: acc)
        else if e = '\\' then scanString fuel r' ('\\' :: acc)
        else if e = '/' then scanString fuel r' ('/' :: acc)
        else if e = 'b' then scanString fuel r' (Char.ofNat 8 :: acc)
        else if e = 'f' then scanString fuel r' (Char.ofNat 12 :: acc)
        else if e = 'n' then scanString fuel r' ('\n' :: acc)
        else if e = 'r' then scanString fuel r' ('\r' :: acc)
        else if e = 't' then scanString fuel r' ('\t' :: acc)
        else if e = 'u' then
          match hex4? r' with
          | none => none
          | some (u, r'') =>
            if 0xd800 ≤ u ∧ u ≤ 0xdbff then
              -- a high surrogate: combined with a following `\uDC00..\uDFFF`
              match r'' with
              | '\\' :: 'u' :: r3 =>
                match hex4? r3 with
                | some (u2, r4) =>
                  if 0xdc00 ≤ u2 ∧ u2 ≤ 0xdfff then
                    match charOfNat? (0x10000 + (u - 0xd800) * 1024 + (u2 - 0xdc00)) with
                    | some ch => scanString fuel r4 (ch :: acc)
                    | none => none
                  else none      -- lone high surrogate (outside the modelled domain)
                | none => none
              | _ => none
            else
              match charOfNat? u with
              | some ch => scanString fuel r'' (ch :: acc)
              | none => none     -- lone low surrogate (outside the modelled domain)
        else none
    else if c.toNat < 0x20 then none
    else scanString fuel r (c :: acc)

/-- `-?(0|[1-9]\d*)` ; a following `.`, `e`, `E` is outside the modelled domain -/
def scanInt (s : List Char) : Option (Int × List Char) :=
  let (neg, s1) := match s with | '-' :: r => (true, r) | _ => (false, s)
  let ds := s1.takeWhile fun c => decide ('0' ≤ c ∧ c ≤ '9')
  let rest := s1.drop ds.length
  match ds with
  | [] => none
  | d :: more =>
    let ds' := if d = '0' then ['0'] else ds       -- a leading 0 ends the number
    let rest' := if d = '0' then more ++ rest else rest
    match rest' with
    | '.' :: _ => none
    | 'e' :: _ => none
    | 'E' :: _ => none
    | _ =>
      let n : Nat := ds'.foldl (fun n c => n * 10 + (c.toNat - '0'.toNat)) 0
      some (if neg then -(n : Int) else (n : Int), rest')

def stripLit (lit s : List Char) : Option (List Char) :=
  if lit.isPrefixOf s then some (s.drop lit.length) else none

/-- `dict[key] = value` -/
def objInsert (l : List (List Char × Json)) (k : List Char) (v : Json) : List (List Char × Json) :=
  if l.any (fun kv => kv.1 == k) then l.map fun kv => if kv.1 == k then (k, v) else kv else l ++ [(k, v)]

mutual
/-- one value at the head of the input (no leading white space) -/
def parseValue : Nat → List Char → Option (Json × List Char)
  | 0, _ => none
  | fuel + 1, s =>
    match s with
    | [] => none
    | '"' :: r => (scanString (r.length + 1) r []).map fun (x, rest) => (Json.str x, rest)
    | '{' :: r =>
      match skipWs r with
      | '}' :: rest => some (Json.obj [], rest)
      | r' => parseMembers fuel r' []
    | '[' :: r =>
      match skipWs r with
      | ']' :: rest => some (Json.arr [], rest)
      | r' => parseElems fuel r' []
    | 'n' :: _ => (stripLit "null".toList s).map fun rest => (Json.null, rest)
    | 't' :: _ => (stripLit "true".toList s).map fun rest => (Json.bool true, rest)
    | 'f' :: _ => (stripLit "false".toList s).map fun rest => (Json.bool false, rest)
    | _ => (scanInt s).map fun (i, rest) => (Json.int i, rest)
/-- elements of an array, the input standing at the first character of a value -/
def parseElems : Nat → List Char → List Json → Option (Json × List Char)
  | 0, _, _ => none
  | fuel + 1, s, acc =>
    match parseValue fuel s with
    | none => none
    | some (v, rest) =>
      match skipWs rest with
      | ',' :: r => parseElems fuel (skipWs r) (v :: acc)
      | ']' :: r => some (Json.arr (v :: acc).reverse, r)
      | _ => none
/-- members of an object, the input standing at the opening quote of a key -/
def parseMembers : Nat → List Char → List (List Char × Json) → Option (Json × List Char)
  | 0, _, _ => none
  | fuel + 1, s, acc =>
    match s with
    | '"' :: r =>
      match scanString (r.length + 1) r [] with
      | none => none
      | some (k, rest) =>
        match skipWs rest with
        | ':' :: r1 =>
          match parseValue fuel (skipWs r1) with
          | none => none
          | some (v, rest2) =>
            match skipWs rest2 with
            | ',' :: r2 => parseMembers fuel (skipWs r2) (objInsert acc k v)
            | '}' :: r2 => some (Json.obj (objInsert acc k v), r2)
            | _ => none
        | _ => none
    | _ => none
end

/-- `json.loads(text)` -/
def jsonLoad (s : List Char) : Option Json :=
  match parseValue (s.length + 1) (skipWs s) with
  | some (j, rest) => if skipWs rest = [] then some j else none
  | none => none

/-! ### access -/
def Json.get? (j : Json) (k : List Char) : Option Json :=
  match j with
  | .obj l => (l.find? fun kv => kv.1 == k).map (·.2)
  | _ => none

end Bridge
