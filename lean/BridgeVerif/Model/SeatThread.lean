import BridgeVerif.Model.Session
/-!
# The seat thread as the code writes it: a reactive program driven by its queue  (server.py `PlayerThread.run`,
`_deal`, `_bidding_phase`, `_playing_phase`, after `_connect`)

`Model/Session.lean` gives every thread a straight-line program computed from the scenario.  Here the seat thread is
modelled the way `PlayerThread` is written: its control flow is decided ONLY by the messages it takes from its own
queue (the active player's name, `nothing happens`, `passed out`, the declarer's name, each trick's leader, `next board`,
`End of session`), with its own local bookkeeping (trick counter, seat on turn rotating within a trick, first card of
the first trick).  What it sends is what it received: a client message goes to main, a queue message goes to the client.
`seatReactive p teams q c` consumes the queue stream `q` and the client stream `c` and returns the actions it performs
(`none` = it blocks for ever on an empty stream or meets a message the code raises / returns on).

The theorem `C09.seat_thread_follows_its_queue` (Props/C09.lean) says that, fed the messages main and its client send
it in a session, this program IS the straight-line program `sessionProg sc (.seat p)` of the session model.
-/
namespace Bridge

abbrev SeatActs := List (SAct Text LogOp)

/-- streams still to be read: queue `m2t p`, connection `c2s p` -/
structure SeatIn where
  q : List Text
  c : List Text

/-- `receive_message_from_queue()` -/
def SeatIn.getQ (i : SeatIn) : Option (Text × SeatIn) :=
  match i.q with
  | m :: r => some (m, { i with q := r })
  | [] => none
/-- `receive_message()` from the client (the content is not inspected here: `_check_message`'s verdict is ignored by
`_bidding_phase` / `_playing_phase`, and a conforming client's messages pass it — `C09.ready_messages_pass_the_server_check`) -/
def SeatIn.getC (i : SeatIn) : Option (Text × SeatIn) :=
  match i.c with
  | m :: r => some (m, { i with c := r })
  | [] => none

/-- `_deal` -/
def seatDealR (p : Seat) (i : SeatIn) : Option (SeatActs × SeatIn) := do
  let (_, i) ← i.getC                       -- "<p> ready for deal"
  let (header, i) ← i.getQ
  let (_, i) ← i.getC                       -- "<p> ready for cards"
  let (cards, i) ← i.getQ
  pure ([.recv (.c2s p)] ++ sync ++ [.recv (.m2t p), .send (.s2c p) header] ++
        [.recv (.c2s p)] ++ sync ++ [.recv (.m2t p), .send (.s2c p) cards], i)

/-- `_bidding_phase` : until `nothing happens` arrives -/
def seatBiddingR (p : Seat) : Nat → SeatIn → Option (SeatActs × SeatIn)
  | 0, _ => none
  | fuel + 1, i => do
    let (m, i) ← i.getQ
    if m = MSG_NULL then pure ([.recv (.m2t p)], i)
    else
      let a ← seatOfFormal? m               -- `Player.convert_formal_name(message)` (illegal-bid / error messages: `none`)
      if p = a then do
        let (bid, i) ← i.getC
        let (rest, i) ← seatBiddingR p fuel i
        pure ([.recv (.m2t p), .recv (.c2s p), .send (.t2m p) bid] ++ rest, i)
      else do
        let (_, i) ← i.getC                 -- "<p> ready for <a>'s bid"
        let (relay, i) ← i.getQ
        let (rest, i) ← seatBiddingR p fuel i
        pure ([.recv (.m2t p), .recv (.c2s p), .recv (.m2t p), .send (.s2c p) relay] ++ rest, i)

/-- the four cards of one trick: `active` is the thread's own idea of the seat on turn; `idx` = 0..3; `first` = this is
trick number 1 -/
def seatTrickR (p declarer : Seat) (first : Bool) : Nat → Seat → SeatIn → Option (SeatActs × SeatIn)
  | 4, _, i => some ([], i)
  | idx, active, i =>
    if idx > 4 then none else do
    let dummy := declarer.partner
    let (acts, i) ←
      if p = active ∧ p ≠ dummy then do
        let (card, i) ← i.getC
        pure ((if idx = 0 then [Act.send (.s2c p) (p.formal ++ " to lead".toList)] else []) ++
              [.recv (.c2s p), .send (.t2m p) card], i)
      else if p = declarer ∧ active = dummy then do
        let (card, i) ← i.getC
        pure ((if idx = 0 then [Act.send (.s2c p) "Dummy to lead".toList] else []) ++
              [.recv (.c2s p), .send (.t2m p) card], i)
      else do
        let (_, i) ← i.getC                 -- "<p> ready for <x>'s card to trick <n>"
        let (relay, i) ← i.getQ
        pure ([.recv (.c2s p), .recv (.m2t p), .send (.s2c p) relay], i)
    -- opens dummy's hand: after the first card of the first trick, for every seat but dummy
    let (acts2, i) ←
      if first ∧ idx = 0 ∧ p ≠ dummy then do
        let (_, i) ← i.getC                 -- "<p> ready for dummy"
        let (dh, i) ← i.getQ
        pure ([Act.recv (.c2s p), .recv (.m2t p), .send (.s2c p) dh], i)
      else pure ([], i)
    let (rest, i) ← seatTrickR p declarer first (idx + 1) active.left i
    pure (acts ++ acts2 ++ rest, i)
termination_by idx _ _ => 5 - idx
decreasing_by all_goals omega

/-- `_playing_phase` : the declarer's name, then thirteen tricks, each announced by its leader's name -/
def seatPlayingR (p : Seat) (i : SeatIn) : Option (SeatActs × SeatIn) := do
  let (dn, i) ← i.getQ
  let declarer ← seatOfFormal? dn
  let rec tricks : Nat → Nat → SeatIn → Option (SeatActs × SeatIn)
    | 0, _, i => some ([], i)
    | n + 1, k, i => do
      let (ln, i) ← i.getQ
      let leader ← seatOfFormal? ln
      let (t, i) ← seatTrickR p declarer (k = 1) 0 leader i
      let (rest, i) ← tricks n (k + 1) i
      pure ([.recv (.m2t p)] ++ t ++ rest, i)
  let (ts, i) ← tricks 13 1 i
  pure ([.recv (.m2t p)] ++ ts, i)

/-- the board loop of `PlayerThread.run` (after "Start of board" has been sent): deal, auction, the second message
(`passed out` / `nothing happens`), play unless passed out, then the status message -/
def seatBoardsR (p : Seat) : Nat → SeatIn → Option (SeatActs × SeatIn)
  | 0, _ => none
  | fuel + 1, i => do
    let (d, i) ← seatDealR p i
    let (b, i) ← seatBiddingR p (i.q.length + 1) i
    let (second, i) ← i.getQ
    let (pl, i) ←
      if second = MSG_PASSED_OUT then pure ([], i)
      else if second = MSG_NULL then seatPlayingR p i
      else none                               -- `raise Exception('Server error')`
    let (status, i) ← i.getQ
    let pre := d ++ b ++ [.recv (.m2t p)] ++ pl
    if status = MSG_NEXT then do
      let (rest, i) ← seatBoardsR p fuel i
      pure (pre ++ [.recv (.m2t p), .send (.s2c p) MSG_START] ++ rest, i)
    else if status = MSG_END then
      pure (pre ++ [.recv (.m2t p), .send (.s2c p) MSG_END], i)
    else none                                 -- `raise Exception('Unexpected status message …')`

/-- the whole thread after admission: the seating barrier, the `Teams` message, "ready to start", "Start of board",
then the board loop -/
def seatReactive (p : Seat) (teams : Text) (q c : List Text) : Option SeatActs := do
  let i : SeatIn := { q := q, c := c }
  let (_, i) ← i.getC                        -- "<p> ready to start"
  let (bs, _) ← seatBoardsR p (q.length + 1) i
  pure (sync ++ [.send (.s2c p) teams, .recv (.c2s p), .send (.s2c p) MSG_START] ++ bs)

end Bridge
