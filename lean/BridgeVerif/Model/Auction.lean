import BridgeVerif.Core
/-!
# Model of bidding_phase.py (`BiddingPhase`)  — C01, C02, C03

`takeBid` follows `take_bid` statement by statement.  Histories are kept **newest first**
(appending a call is a `cons`); the driver prints them oldest first.
`Except.error ()` = "raise Exception('Bidding phase has already ended.')".
-/
namespace Bridge

structure AState where
  dealer : Seat
  vul : Vul
  active : Option Seat
  lastBidder : Option Seat
  lastBid : Option (Fin 35)
  calledX : Bool
  calledXX : Bool
  history : List Call                      -- newest first
  perSeat : Seat → List Call               -- newest first
  declCheck : Side → Suit → Option Seat
  avail : Call → Bool                      -- the 38-slot vector

def AState.init (d : Seat) (v : Vul) : AState :=
  { dealer := d, vul := v, active := some d, lastBidder := none, lastBid := none,
    calledX := false, calledXX := false, history := [], perSeat := fun _ => [],
    declCheck := fun _ _ => none,
    avail := fun c => match c with | .dbl => false | .rdbl => false | _ => true }

def AState.hasDone (s : AState) : Bool := s.active.isNone

/-- common tail of `take_bid`: append to both histories, advance the turn, recompute X / XX -/
def advance (s : AState) (p : Seat) (c : Call) : AState :=
  let nxt := p.left
  let avail' : Call → Bool :=
    match s.lastBidder with
    | none => s.avail
    | some lb => fun k => match k with
      | .dbl => (!s.calledX) && (!s.calledXX) && !(nxt.isPartner lb)
      | .rdbl => s.calledX && (!s.calledXX) && nxt.isPartner lb
      | k => s.avail k
  { s with history := c :: s.history,
           perSeat := fun q => if q = p then c :: s.perSeat q else s.perSeat q,
           active := some nxt, avail := avail' }

/-- the "regular bids" branch of `take_bid` before the common tail -/
def bidState (s : AState) (p : Seat) (i : Fin 35) : AState :=
  let dc : Side → Suit → Option Seat := fun sd su =>
    if sd = p.side ∧ su = bidDenom i ∧ s.declCheck sd su = none then some p else s.declCheck sd su
  { s with lastBidder := some p, lastBid := some i, declCheck := dc,
           calledX := false, calledXX := false,
           avail := fun k => match k with
             | .bid j => if j ≤ i then false else s.avail k
             | k => s.avail k }

def takeBid (s : AState) (c : Call) : Except Unit (AState × Res) :=
  match s.active with
  | none => .error ()
  | some p =>
    if s.avail c = false then .ok (s, .illegal) else
    match c with
    | .pass =>
      if 3 ≤ s.history.length ∧ s.history.head? = some .pass ∧ s.history.tail.head? = some .pass then
        .ok ({ s with history := c :: s.history,
                      perSeat := fun q => if q = p then c :: s.perSeat q else s.perSeat q,
                      active := none }, .finished)
      else .ok (advance s p c, .ongoing)
    | .dbl => .ok (advance { s with calledX := true } p c, .ongoing)
    | .rdbl => .ok (advance { s with calledXX := true } p c, .ongoing)
    | .bid i => .ok (advance (bidState s p i) p c, .ongoing)

/-- `BiddingPhase.contract()`; outer `none` = returns None (not finished);
the inner assertion failure (`last_bidder is None` with a last bid) is unreachable and modelled as `none`. -/
def AState.contract (s : AState) : Option Contract :=
  match s.active with
  | some _ => none
  | none =>
    match s.lastBid with
    | none => some ⟨none, false, false, s.vul, none⟩
    | some b =>
      match s.lastBidder with
      | none => none
      | some lb => some ⟨some b, s.calledX, s.calledXX, s.vul, s.declCheck lb.side (bidDenom b)⟩

/-- offer a list of calls in order; a refused / illegal call leaves the state as it is -/
def runAuction (s : AState) : List Call → AState × List (Except Unit Res)
  | [] => (s, [])
  | c :: cs =>
    match takeBid s c with
    | .error () => let r := runAuction s cs; (r.1, .error () :: r.2)
    | .ok (s', res) => let r := runAuction s' cs; (r.1, .ok res :: r.2)

end Bridge
