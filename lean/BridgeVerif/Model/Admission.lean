import BridgeVerif.Model.Msg
/-!
# Model of admission (server.py: `Server.run` accept loop, `PlayerThread._connect`)  — C20

The accept loop serves one connection at a time: it accepts, starts the connection's thread and waits for that
thread's verdict (`event_thread`) before accepting the next one; it stops as soon as all four seats are taken.
So admission is a fold of `admitReq` over the connection requests in the order they are accepted.
-/
namespace Bridge

structure Request where
  team : List Char
  seat : Seat
  version : Nat

/-- the seat table `team_names` : team name per seat, `none` while free -/
abbrev Table := Seat → Option (List Char)

def Table.empty : Table := fun _ => none
def Table.full (t : Table) : Bool := Seat.all.all fun p => (t p).isSome
def Table.set (t : Table) (p : Seat) (name : List Char) : Table := fun q => if q = p then some name else t q

inductive Verdict
  | seated
  | badVersion        -- `protocol_version != PROTOCOL_VERSION`
  | seatTaken         -- `team_names[player] is not None`
  | teamMismatch      -- partner seated under another team name
  deriving DecidableEq, Repr

def PROTOCOL_VERSION : Nat := 18

/-- `PlayerThread._connect` up to the verdict: the three tests in the code's order, then the seat is written -/
def admitReq (t : Table) (r : Request) : Table × Verdict :=
  if r.version ≠ PROTOCOL_VERSION then (t, .badVersion)
  else if (t r.seat).isSome then (t, .seatTaken)
  else
    match t r.seat.partner with
    | some pt => if pt ≠ r.team then (t, .teamMismatch) else (t.set r.seat r.team, .seated)
    | none => (t.set r.seat r.team, .seated)

/-- the accept loop `while not all_connected(): accept …` over the requests in accept order: requests are served
while a seat is free; the rest is never accepted.  Returns the final table and one verdict per SERVED request. -/
def serve : Table → List Request → Table × List Verdict
  | t, [] => (t, [])
  | t, r :: rs =>
    if t.full then (t, [])
    else
      let (t', v) := admitReq t r
      let (tf, vs) := serve t' rs
      (tf, v :: vs)

/-- what the connection is sent as the answer to its request -/
def replyText (r : Request) (t : Table) : Verdict → List Char
  | .seated => r.seat.formal ++ " ".toList ++ r.team ++ " seated".toList
  | .badVersion => "ERROR: Protocol version is not ".toList ++ natStr PROTOCOL_VERSION ++ " but ".toList ++
      natStr r.version ++ ".".toList
  | .seatTaken => "ERROR: Player ".toList ++ r.seat.formal ++ " is already seated.".toList
  | .teamMismatch => "ERROR: Team name \"".toList ++ r.team ++ "\" is not same as partner's team name \"".toList ++
      ((t r.seat.partner).getD []) ++ "\".".toList

/-- the `Teams` message every seated client is sent after the seating barrier: North's name for N/S, East's for E/W -/
def teamsOfTable (t : Table) : List Char := teamsMsg ((t .N).getD []) ((t .E).getD [])

/-- the requests that were seated, in order -/
def seatedRequests : List Request → List Verdict → List Request
  | r :: rs, v :: vs => if v = .seated then r :: seatedRequests rs vs else seatedRequests rs vs
  | _, _ => []

end Bridge
