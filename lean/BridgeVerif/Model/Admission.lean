import BridgeVerif.Model.Msg
/-!
# Model of admission (server.py: `Server.run` accept loop, `PlayerThread._connect`)  — C20

The accept loop serves one connection at a time: it accepts, starts the connection's thread and waits for that
thread's verdict (`event_thread`) before accepting the next one; it stops as soon as all four seats are taken.
So admission is a fold of `admitReq` over the connection requests in the order they are accepted.
-/
namespace Bridge

structure Request where
  team : List Char
  seat : Seat
  version : Nat

/-- the seat table `team_names` : team name per seat, `none` while free -/
abbrev Table := Seat → Option (List Char)

def Table.empty : Table := fun _ => none
def Table.full (t : Table) : Bool := Seat.all.all fun p => (t p).isSome
def Table.set (t : Table) (p : Seat) (name : List Char) : Table := fun q => if q = p then some name else t q

inductive Verdict
  | seated
  | badVersion        -- `protocol_version != PROTOCOL_VERSION`
  | seatTaken         -- `team_names[player] is not None`
  | teamMismatch      -- partner seated under another team name
  deriving DecidableEq, Repr

def PROTOCOL_VERSION : Nat := 18

/-- `PlayerThread._connect` up to the verdict: the three tests in the code's order, then the seat is written -/
def admitReq (t : Table) (r : Request) : Table × Verdict :=
  if r.version ≠ PROTOCOL_VERSION then (t, .badVersion)
  else if (t r.seat).isSome then (t, .seatTaken)
  else
    match t r.seat.partner with
    | some pt => if pt ≠ r.team then (t, .teamMismatch) else (t.set r.seat r.team, .seated)
    | none => (t.set r.seat r.team, .seated)

/-- the accept loop `while not all_connected(): accept …` over the requests in accept order: requests are served
while a seat is free; the rest is never accepted.  Returns the final table and one verdict per SERVED request. -/
def serve : Table → List Request → Table × List Verdict
  | t, [] => (t, [])
  | t, r :: rs =>
    if t.full then (t, [])
    else
      let (t', v) := admitReq t r
      let (tf, vs) := serve t' rs
      (tf, v :: vs)

/-- what the connection is sent as the answer to its request -/
def replyText (r : Request) (t : Table) : Verdict → List Char
  | .seated => r.seat.formal ++ " ".toList ++ r.team ++ " seated".toList
  | .badVersion => "ERROR: Protocol version is not ".toList ++ natStr PROTOCOL_VERSION ++ " but ".toList ++
      natStr r.version ++ ".".toList
  | .seatTaken => "ERROR: Player ".toList ++ r.seat.formal ++ " is already seated.".toList
  | .teamMismatch => "ERROR: Team name \"".toList ++ r.team ++ "\" is not same as partner's team name \"".toList ++
      ((t r.seat.partner).getD []) ++ "\".".toList

/-- the `Teams` message every seated client is sent after the seating barrier: North's name for N/S, East's for E/W -/
def teamsOfTable (t : Table) : List Char := teamsMsg ((t .N).getD []) ((t .E).getD [])

/-- the requests that were seated, in order -/
def seatedRequests : List Request → List Verdict → List Request
  | r :: rs, v :: vs => if v = .seated then r :: seatedRequests rs vs else seatedRequests rs vs
  | _, _ => []

/-! ## the connection thread and the accept loop as the code writes them  (C20, tie to the real threads)

`connectR` is `PlayerThread._connect` up to the moment the thread signals its verdict: it receives the request TEXT,
parses it (`parse_connection_info`), applies the three tests against the seat table, answers, and — when seated — waits
for "<Seat> ready for teams" (`_check_message`) before it signals.  What follows for a seated thread is the seating
barrier and `Model/SeatThread.lean`.  `acceptLoopR` is the loop of `Server.run`. -/
namespace Admission

/-- operations of a connection thread during admission, as the scheduler observes them -/
inductive Op
  | recv                       -- `receive_message()`
  | send (t : List Char)       -- `send_message(t)`
  | close                      -- `connection.close()`
  | signal                     -- `event_thread.set()`
  deriving DecidableEq, Repr

/-- `_handle_error(message)` then `event_thread.set()` -/
def reject (msg : List Char) : List Op := [.send msg, .close, .signal]

/-- `PlayerThread._connect` until the verdict is signalled: (operations, table afterwards, seated?) ;
`none` = the request does not parse (the thread dies with an exception before signalling) -/
def connectR (t : Table) (requestText readyText : List Char) : Option (List Op × Table × Bool) :=
  match parseConnect? requestText with
  | none => none
  | some (team, seat, version) =>
    let r : Request := ⟨team, seat, version⟩
    match admitReq t r with
    | (t', Verdict.seated) =>
      -- seated: the reply, then "<Seat> ready for teams" is awaited and checked
      if checkMessage (seat.formal ++ " ready for teams".toList) readyText then
        some ([.recv, .send (replyText r t .seated), .recv, .signal], t', true)
      else
        -- the seat stays written (the code does not undo it): the table keeps the entry although the thread gives up
        some ([.recv, .send (replyText r t .seated), .recv] ++ reject "ERROR: Unexpected message received.".toList, t', false)
    | (_, v) => some (.recv :: reject (replyText r t v), t, false)

/-- what the main thread does per accepted connection: accept, start the thread, wait for its verdict, sleep, look
whether it is alive, clear the event -/
inductive MainOp | accept | start | waitVerdict | sleep | isAlive | clearVerdict
  deriving DecidableEq, Repr

def acceptRound : List MainOp := [.accept, .start, .waitVerdict, .sleep, .isAlive, .clearVerdict]

/-- the accept loop over the connection attempts in accept order: (request text, what that client sends next);
returns the per-connection thread operations, main's operations, the final table -/
def acceptLoopR : Table → List (List Char × List Char) → Option (List (List Op) × List MainOp × Table)
  | t, [] => some ([], [], t)
  | t, (req, ready) :: rest =>
    if Table.full t then some ([], [], t)
    else
      match connectR t req ready with
      | none => none
      | some (ops, t', _) =>
        match acceptLoopR t' rest with
        | none => none
        | some (opss, mops, tf) => some (ops :: opss, acceptRound ++ mops, tf)

end Admission

end Bridge
