import BridgeVerif.Model.JsonLog
import BridgeVerif.Model.Schema
/-!
# What C12 / C17 (JSON half) quantify over, and what "read back exactly as written" means

* `Json.wf` : no object has two members with the same key (a Python `dict` cannot have any).
* `LogEntry.WF` / `SettingEntry.WF` : the arguments are what the library's own types can hold — hands are sets of
  valid cards, the double-dummy table is a `dict` of `dict`s (distinct keys) — and the contract is meaningful:
  a contract that is not passed out has a declarer, a passed-out one has none.
* `LogEntry.readBack` : the record a reader must return for an entry: every field as written, with the hands as
  sets (listed in ascending card order), the contract carrying the same bid, vulnerability, declarer and doubling
  STATUS, and the scoring style as its text.
-/
namespace Bridge

def keysOf (l : List (List Char × Json)) : List (List Char) := l.map (·.1)

mutual
def Json.wf : Json → Bool
  | .arr l => wfElems l
  | .obj l => wfMembers l && decide ((keysOf l).Nodup)
  | _ => true
def wfElems : List Json → Bool
  | [] => true
  | x :: r => x.wf && wfElems r
def wfMembers : List (List Char × Json) → Bool
  | [] => true
  | (_, v) :: r => v.wf && wfMembers r
end

/-- a `Dict[Player, Dict[Suit, int]]` : distinct row keys, distinct column keys in every row -/
def DdaWF (d : Dda) : Prop := (d.map (·.1)).Nodup ∧ ∀ row ∈ d, (row.2.map (·.1)).Nodup
/-- a complete double-dummy row: all five denominations -/
def DdaComplete (d : Dda) : Prop := ∀ row ∈ d, ∀ s ∈ Suit.all, s ∈ row.2.map (·.1)

def HandsWF (h : Hands) : Prop := ∀ p, (h p).Nodup ∧ ∀ c ∈ h p, c.ok = true

structure SettingEntry.WF (e : SettingEntry) : Prop where
  hands : HandsWF e.deal
  dda : ∀ d, e.dda = some d → DdaWF d

structure LogEntry.WF (e : LogEntry) : Prop where
  hands : HandsWF e.deal
  dda : ∀ d, e.dda = some d → DdaWF d
  /-- a contract that is not passed out has a declarer -/
  declarer : e.contract.isPassedOut = false → e.contract.declarer.isSome = true
  /-- a passed-out contract has none -/
  noDeclarer : e.contract.isPassedOut = true → e.contract.declarer = none
  /-- the cards of the recorded tricks are cards -/
  play : ∀ ts, e.play = some ts → ∀ t ∈ ts, ∀ c ∈ t.cards, c.ok = true

/-- the contract a reader must rebuild: same bid, vulnerability and declarer, flags normalised to the doubling status -/
def Contract.norm (c : Contract) : Contract :=
  match c.finalBid with
  | none => ⟨none, false, false, c.vul, none⟩
  | some b => ⟨some b, c.x || c.xx, c.xx, c.vul, c.declarer⟩

def LogEntry.readBack (e : LogEntry) : LogRead :=
  { boardId := e.boardId, hands := fun p => sortAsc (e.deal p), dealer := e.dealer, vul := e.contract.vul,
    declarer := if e.contract.isPassedOut then none else e.contract.declarer,
    contract := e.contract.norm, tricks := e.tricks,
    players := some [(.N, e.north), (.E, e.east), (.S, e.south), (.W, e.west)],
    bids := some e.bids, play := e.play, dda := e.dda, scoreType := some e.scoring.value,
    scores := some [(.NS, e.scoreNS), (.EW, e.scoreEW)] }

/-- the board setting contained in a log entry -/
def LogEntry.setting (e : LogEntry) : SettingEntry :=
  { boardId := e.boardId, dealer := e.dealer, deal := fun p => sortAsc (e.deal p), vul := e.contract.vul, dda := e.dda }

def SettingEntry.readBack (e : SettingEntry) : SettingEntry := { e with deal := fun p => sortAsc (e.deal p) }

/-- the documents as JSON values -/
def logDoc (es : List LogEntry) : Json := .obj [(jkey "logs", .arr (es.map logJson))]
def settingsDoc (es : List SettingEntry) : Json := .obj [(jkey "board_settings", .arr (es.map settingJson))]

end Bridge
