import BridgeVerif.Model.Play
/-!
# The laws of play, stated independently of the loop in `calc_highest`
-/
namespace Bridge

/-- **Law**: the card at position `i` wins the trick `cs` : it is the highest trump played or, when no trump
was played or the contract is no-trump, the highest card of the suit led. -/
def WinsTrick (trump : Suit) (cs : List Card) (i : Nat) : Prop :=
  ∃ c, cs[i]? = some c ∧
    ((trump ≠ .NT ∧ ∃ t ∈ cs, t.suit = trump) →
        c.suit = trump ∧ ∀ c' ∈ cs, c'.suit = trump → c'.rank ≤ c.rank) ∧
    (¬ (trump ≠ .NT ∧ ∃ t ∈ cs, t.suit = trump) →
        ∃ f, cs.head? = some f ∧ c.suit = f.suit ∧ ∀ c' ∈ cs, c'.suit = f.suit → c'.rank ≤ c.rank)

/-- position of the winning card as the model computes it -/
def winnerIdx (trump : Suit) (cs : List Card) : Nat := (highestIdx trump cs).toNat

/-- the flat list of accepted cards (oldest first) cut into tricks, threading the leader:
(completed tricks oldest first, seat to lead / continue, cards of the incomplete trick) -/
def tricksOf (trump : Suit) (ldr : Seat) : List Card → List Trick × Seat × List Card
  | a :: b :: c :: d :: rest =>
    let r := tricksOf trump (ldr.rot (winnerIdx trump [a, b, c, d])) rest
    (⟨ldr, [a, b, c, d]⟩ :: r.1, r.2)
  | rest => ([], ldr, rest)

/-- tricks won by side `sd` among completed tricks: the winner of a trick is the leader of the next one -/
def wonBy (trump : Suit) (ldr : Seat) (sd : Side) : List Card → Nat
  | a :: b :: c :: d :: rest =>
    let w := ldr.rot (winnerIdx trump [a, b, c, d])
    (if w.side = sd then 1 else 0) + wonBy trump w sd rest
  | _ => 0

/-- play a list of cards through `play_card` -/
def runPlay (s : PState) (cs : List Card) : PState := cs.foldl playCard s

/-- four hands that are pairwise disjoint and duplicate-free -/
def IsDeal (hands : Seat → List Card) : Prop :=
  (hands .N ++ hands .E ++ hands .S ++ hands .W).Nodup

/-- offer a list of plays (card, seat) to the full-information game; refused plays change nothing -/
def runFull (w : WithHands) : List (Card × Seat) → WithHands
  | [] => w
  | (c, p) :: ops =>
    match w.play c p with
    | .ok w' => runFull w' ops
    | .error _ => runFull w ops

def allCards (hands : Seat → List Card) : List Card :=
  hands .N ++ hands .E ++ hands .S ++ hands .W

/-- the follow-suit rule -/
def followSuit (hand : List Card) (first : Option Card) : List Card :=
  match first with
  | none => hand
  | some f => if ∀ c ∈ hand, c.suit ≠ f.suit then hand else hand.filter fun c => decide (c.suit = f.suit)

/-- simulation relation: an observer holds the same public state and the true hands it can see -/
structure ObsRel (w : WithHands) (o : Observed) : Prop where
  base : o.base = w.base
  hand : o.hand = w.hands o.me
  dummy : ∀ dh, o.dummyHand = some dh → dh = w.hands w.base.dummy

end Bridge
