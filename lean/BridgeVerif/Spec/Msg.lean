import BridgeVerif.Model.Msg
import BridgeVerif.Model.Framing
/-! Specification vocabulary for C19. -/
namespace Bridge

/-- `m` is `m'` with the case of some ASCII letters changed -/
def CaseVariant (m m' : List Char) : Prop := m.map lowerA = m'.map lowerA

/-- a team name the property quantifies over: no double quote, no line break -/
def NameOK (s : List Char) : Prop := '"' ∉ s ∧ '\n' ∉ s ∧ '\r' ∉ s

/-- white space in the sense of `\s` (ASCII) -/
def AllWs (s : List Char) : Prop := ∀ c ∈ s, isWs c = true

/-- a message body that can be framed: no CR byte -/
def CRFree (m : List Byte) : Prop := CR ∉ m

/-- a proper beginning of a framed message: some CR-free bytes, possibly followed by the CR -/
def PartialFrame (p : List Byte) : Prop := CRFree p ∨ ∃ q, CRFree q ∧ p = q ++ [CR]

/-- valid hand for a message: valid duplicate-free cards -/
def HandOK (hand : List Card) : Prop := hand.Nodup ∧ ∀ c ∈ hand, c.ok = true

end Bridge
