import BridgeVerif.Core
/-!
# The duplicate-bridge scoring law, as formulas (Law 77), written independently of the tables
-/
namespace Bridge

/-- value of one odd trick (the first NT trick is worth 10 more) -/
def trickValue (denom : Suit) : Int :=
  match denom with
  | .C | .D => 20
  | _ => 30

/-- penalty for `u ≥ 1` undertricks -/
def undertrickPenalty (d : Dbl) (vul : Bool) (u : Nat) : Int :=
  match d with
  | .none => (if vul then 100 else 50) * (u : Int)
  | .x =>
    if vul then 200 + 300 * ((u : Int) - 1)
    else if u ≤ 3 then 100 + 200 * ((u : Int) - 1) else 500 + 300 * ((u : Int) - 3)
  | .xx =>
    2 * (if vul then 200 + 300 * ((u : Int) - 1)
         else if u ≤ 3 then 100 + 200 * ((u : Int) - 1) else 500 + 300 * ((u : Int) - 3))

/-- the duplicate score of a contract from declarer's side -/
def dupScore (level : Nat) (denom : Suit) (d : Dbl) (vul : Bool) (tricks : Nat) : Int :=
  let need := level + 6
  if tricks < need then
    0 - undertrickPenalty d vul (need - tricks)
  else
    let over : Int := ((tricks - need : Nat) : Int)
    let mult : Int := match d with | .none => 1 | .x => 2 | .xx => 4
    let contractPts : Int :=
      (trickValue denom * (level : Int) + (if denom = .NT then 10 else 0)) * mult
    let levelBonus : Int :=
      if contractPts ≥ 100 then (if vul then 500 else 300) else 50
    let slamBonus : Int :=
      if level = 6 then (if vul then 750 else 500)
      else if level = 7 then (if vul then 1500 else 1000) else 0
    let insult : Int := match d with | .none => 0 | .x => 50 | .xx => 100
    let overEach : Int :=
      match d with
      | .none => trickValue denom
      | .x => if vul then 200 else 100
      | .xx => if vul then 400 else 200
    contractPts + levelBonus + slamBonus + insult + overEach * over

/-- declarer's side is vulnerable -/
def sideVulnerable (v : Vul) (declarer : Seat) : Bool :=
  match v, declarer with
  | .both, _ => true
  | .none, _ => false
  | .ns, .N | .ns, .S => true
  | .ew, .E | .ew, .W => true
  | _, _ => false

/-- the official IMP scale: number of thresholds reached by `|d|`, signed -/
def impThresholds : List Int :=
  [20, 50, 90, 130, 170, 220, 270, 320, 370, 430, 500, 600, 750, 900, 1100,
   1300, 1500, 1750, 2000, 2250, 2500, 3000, 3500, 4000]

def impCount (a : Int) (ts : List Int) : Nat := (ts.filter (fun t => decide (t ≤ a))).length

def impsSpec (d : Int) : Int :=
  (if d ≥ 0 then 1 else -1) * (impCount d.natAbs impThresholds : Int)

end Bridge
