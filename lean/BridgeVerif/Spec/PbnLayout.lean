import BridgeVerif.Model.Pbn
import BridgeVerif.Spec.Deal
/-!
# Admissible layouts of a PBN import file (C17) and what a written export file must read back as (C18)

A file is a list of lines.  `FileL.lines` renders a layout; `Admissible` says which layouts the property
quantifies over: tags in any order, additional tags and table rows, header lines, LF or CRLF line ends, one or
more blank (semi-empty) lines between games and any number before the first and after the last.
-/
namespace Bridge

/-- one line of a game -/
inductive PbnItem
  /-- `[Name "value"]`, optionally with a space after `[` / before `]`, optionally followed by blanks -/
  | tag (name value : Str) (spOpen spClose : Bool) (trail : Str)
  /-- a row of a table / an auction or play section line -/
  | row (text : Str)

structure GameL where
  items : List PbnItem
  /-- the blank lines that follow the game (white space only, without the line end) -/
  seps : List Str

structure FileL where
  /-- `%` lines at the top (without the line end) -/
  header : List Str
  /-- blank lines before the first game -/
  leading : List Str
  games : List GameL
  /-- `"\n"` or `"\r\n"` -/
  eol : Str

def PbnItem.text : PbnItem → Str
  | .tag n v so sc trail =>
    '[' :: (if so then [' '] else []) ++ n ++ ' ' :: '"' :: v ++ '"' :: (if sc then [' '] else []) ++ ']' :: trail
  | .row t => t

def GameL.lines (eol : Str) (g : GameL) : List Str :=
  g.items.map (fun i => i.text ++ eol) ++ g.seps.map (· ++ eol)

def FileL.lines (f : FileL) : List Str :=
  f.header.map (· ++ f.eol) ++ f.leading.map (· ++ f.eol) ++ f.games.flatMap (GameL.lines f.eol)

def FileL.text (f : FileL) : Str := f.lines.flatten

/-! ### admissibility -/
def isBlank (s : Str) : Bool := s.all fun c => c == ' ' || c == '\t'

/-- no `"; "` and no `"{ "` (comment openers), no quote, no line-end character -/
def plainText (s : Str) : Bool :=
  (find2 ';' ' ' s 0).isNone && (find2 '{' ' ' s 0).isNone && s.all fun c => c != '"' && c != '\n' && c != '\r'

def validTagName (n : Str) : Bool :=
  match n with
  | c :: r => isUpper c && !r.isEmpty && r.all isLetter
  | [] => false

def PbnItem.ok : PbnItem → Bool
  | .tag n v _ _ trail => validTagName n && plainText v && isBlank trail
  -- a table row: something visible, no bracket, no quote, no comment opener, not a `%` line
  | .row t => plainText t && !isBlank t && t.all (fun c => c != '[') && t.head? != some '%'

structure GameL.Admissible (g : GameL) (last : Bool) : Prop where
  items_ok : ∀ i ∈ g.items, i.ok = true
  /-- a game starts with a tag -/
  starts_with_tag : ∃ n v so sc tr rest, g.items = .tag n v so sc tr :: rest
  seps_blank : ∀ s ∈ g.seps, isBlank s = true
  /-- at least one blank line after every game but the last -/
  separated : last = false → g.seps ≠ []

/-- `zip`-free statement of "every game admissible, the last one flagged" -/
def gamesAdmissible : List GameL → Prop
  | [] => True
  | [g] => g.Admissible true
  | g :: r => g.Admissible false ∧ gamesAdmissible r

structure FileL.Admissible (f : FileL) : Prop where
  eol : f.eol = ['\n'] ∨ f.eol = ['\r', '\n']
  header : ∀ h ∈ f.header, h.head? = some '%' ∧ h.all (fun c => c != '\n' && c != '\r') = true
  leading : ∀ s ∈ f.leading, isBlank s = true
  games : gamesAdmissible f.games

/-! ### what a game says about its board -/
/-- value of the first tag called `name` -/
def GameL.firstTag? (g : GameL) (name : Str) : Option Str :=
  g.items.findSome? fun i => match i with
    | .tag n v _ _ _ => if n = name then some v else none
    | .row _ => none

/-- the tag pairs of a game, in file order -/
def GameL.tagList (g : GameL) : List (Str × Str) :=
  g.items.filterMap fun i => match i with
    | .tag n v _ _ _ => some (n, v)
    | .row _ => none

/-- the spellings `Vul.str_to_vul` accepts for a vulnerability -/
def vulSpellings : Vul → List Str
  | .none => ["None".toList, "Love".toList, "-".toList, "NONE".toList]
  | .ns => ["NS".toList]
  | .ew => ["EW".toList]
  | .both => ["Both".toList, "All".toList, "BOTH".toList]

/-- game `g` is a rendering of board `b` : its (first) Deal tag is the deal written from some first seat, its
Dealer tag the dealer, its Vulnerable tag an accepted spelling, its Board tag the identifier -/
def GameL.Describes (g : GameL) (b : SettingEntry) : Prop :=
  (∃ first, g.firstTag? "Deal".toList = toPbn? b.deal first ∧ (toPbn? b.deal first).isSome) ∧
  g.firstTag? "Dealer".toList = some b.dealer.name ∧
  (∃ sp ∈ vulSpellings b.vul, g.firstTag? "Vulnerable".toList = some sp) ∧
  g.firstTag? "Board".toList = some b.boardId

/-- the same board: identifier, dealer, vulnerability, the four hands as sets; a PBN board has no double-dummy table -/
def SameBoard (r b : SettingEntry) : Prop :=
  r.boardId = b.boardId ∧ r.dealer = b.dealer ∧ r.vul = b.vul ∧ (∀ p, (r.deal p).Perm (b.deal p)) ∧ r.dda = none

/-! ### export files: what `PbnWriter` writes, as a layout -/
/-- the game `write_board_result` writes for the tag pairs `tags` : one line per pair, then one empty line -/
def resultGame (tags : List (Str × Str)) : GameL :=
  { items := tags.map fun tc => .tag tc.1 tc.2 false false [], seps := [[]] }

def exportFile (tagss : List (List (Str × Str))) : FileL :=
  { header := [], leading := [], games := tagss.map resultGame, eol := ['\n'] }

/-- the fifteen mandatory tag names, in order -/
def mandatoryTags : List Str :=
  ["Event", "Site", "Date", "Board", "West", "North", "East", "South", "Dealer", "Vulnerable", "Deal", "Scoring",
   "Declarer", "Contract", "Result"].map String.toList

/-- what C18 quantifies over: a positive board number, hands complete or unknown, a result exactly when the board
was played, a declarer when it was played, free-text values without quote / line end / comment opener, and every
tag pair fitting on one line of the format (255 characters including the line end) -/
structure PbnResult.WF (r : PbnResult) : Prop where
  board : 0 < r.boardNum
  deal : PartialDeal r.deal
  tricks : r.contract.isPassedOut = true ↔ r.tricks = none
  declarer : r.contract.isPassedOut = false → r.contract.declarer.isSome = true
  text : plainText r.event = true ∧ plainText r.site = true ∧ plainText r.west = true ∧ plainText r.north = true ∧
         plainText r.east = true ∧ plainText r.south = true
  fits : ∀ tags, resultTags? r = some tags → ∀ tc ∈ tags, (tagLine tc.1 tc.2).length + 1 ≤ MAX_LINE_CHARS

end Bridge
