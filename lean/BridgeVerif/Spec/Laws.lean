import BridgeVerif.Core
/-!
# The Laws of the auction, stated on the call history alone (newest call first)
Independent of the implementation's flags and masks.
-/
namespace Bridge

/-- position (number of later calls) and rank of the last bid -/
def lastBid? : List Call → Option (Nat × Fin 35)
  | [] => none
  | .bid i :: _ => some (0, i)
  | _ :: r => (lastBid? r).map fun p => (p.1 + 1, p.2)

/-- doubling status of the last bid: from the calls made after it -/
def dblOf : List Call → Dbl
  | [] => .none
  | .bid _ :: _ => .none
  | .rdbl :: _ => .xx
  | .dbl :: r => if dblOf r = .xx then .xx else .x
  | .pass :: r => dblOf r

/-- doubled or redoubled -/
def Dbl.isX : Dbl → Bool | .none => false | _ => true
/-- redoubled -/
def Dbl.isXX : Dbl → Bool | .xx => true | _ => false

/-- position (number of later calls) of the standing double, if the status is doubled -/
def dblPos? : List Call → Option Nat
  | [] => none
  | .bid _ :: _ => none
  | .rdbl :: _ => none
  | .dbl :: _ => some 0
  | .pass :: r => (dblPos? r).map (· + 1)

/-- number of trailing passes -/
def trailP : List Call → Nat
  | .pass :: r => trailP r + 1
  | _ => 0

/-- the auction is over (arithmetical form used inside the refinement) -/
def over (h : List Call) : Bool := decide (3 ≤ trailP h ∧ 4 ≤ h.length)

/-- **The Law**: four passes open the auction, or three consecutive passes follow a bid, double or redouble -/
def EndedLaw (h : List Call) : Prop :=
  h = [.pass, .pass, .pass, .pass] ∨
    ∃ c pre, c ≠ Call.pass ∧ h = .pass :: .pass :: .pass :: c :: pre

/-- who made the call that has `k` later calls, in a history of length `n` started by `d` -/
def callerAt (d : Seat) (n k : Nat) : Seat := d.rot (n - 1 - k)

/-- the seat whose turn it is after history `h` -/
def turn (d : Seat) (h : List Call) : Seat := d.rot h.length

/-- legality used by the refinement (redouble: status doubled, last bidder on caller's side) -/
def legal (d : Seat) (h : List Call) (c : Call) : Bool :=
  match c with
  | .pass => true
  | .bid i => match lastBid? h with | none => true | some (_, j) => decide (j < i)
  | .dbl => match lastBid? h with
    | none => false
    | some (k, _) => !(dblOf h).isX && !((turn d h).isPartner (callerAt d h.length k))
  | .rdbl => match lastBid? h with
    | none => false
    | some (k, _) => ((dblOf h).isX && !(dblOf h).isXX) && (turn d h).isPartner (callerAt d h.length k)

/-- **The Law** in full: a double only of an *opponent's* last bid while it is undoubled; a redouble
only of an *opponent's* double of *one's own side's* last bid. -/
def legalLaw (d : Seat) (h : List Call) (c : Call) : Bool :=
  match c with
  | .pass => true
  | .bid i => match lastBid? h with | none => true | some (_, j) => decide (j < i)
  | .dbl => match lastBid? h with
    | none => false
    | some (k, _) => decide (dblOf h = .none) && decide ((callerAt d h.length k).side ≠ (turn d h).side)
  | .rdbl => match lastBid? h, dblPos? h with
    | some (k, _), some m =>
        decide (dblOf h = .x) && decide ((callerAt d h.length m).side ≠ (turn d h).side)
          && decide ((callerAt d h.length k).side = (turn d h).side)
    | _, _ => false

/-- reachable histories: each call was legal when made and the auction was not yet over -/
inductive Legal (d : Seat) : List Call → Prop
  | nil : Legal d []
  | cons {h c} : Legal d h → over h = false → legal d h c = true → Legal d (c :: h)

/-- the history that results from *offering* `ops` in order (spec level): an offered call is kept
iff the auction is not over and the call is legal -/
def accepted (d : Seat) (h : List Call) : List Call → List Call
  | [] => h
  | c :: cs => if over h = false ∧ legal d h c = true then accepted d (c :: h) cs else accepted d h cs

/-- a seat's share of the common history (newest first) -/
def share (d : Seat) : List Call → Seat → List Call
  | [], _ => []
  | c :: h, p => if d.rot h.length = p then c :: share d h p else share d h p

/-- the member of `sd` who first (chronologically) named denomination `su` -/
def firstNamer (d : Seat) : List Call → Side → Suit → Option Seat
  | [], _, _ => none
  | c :: h, sd, su =>
    match firstNamer d h sd su with
    | some p => some p
    | none =>
      match c with
      | .bid i => if (d.rot h.length).side = sd ∧ bidDenom i = su then some (d.rot h.length) else none
      | _ => none

/-- the contract the Laws assign to a finished auction -/
def specContract (d : Seat) (v : Vul) (h : List Call) : Contract :=
  match lastBid? h with
  | none => ⟨none, false, false, v, none⟩
  | some (k, j) =>
    ⟨some j, (dblOf h).isX, (dblOf h).isXX, v,
     firstNamer d h (callerAt d h.length k).side (bidDenom j)⟩

end Bridge

namespace Bridge
/-! ## The purely Law-level specification (no reference to `over` / `legal`) -/

/-- decidable form of `EndedLaw` -/
def endedB : List Call → Bool
  | [.pass, .pass, .pass, .pass] => true
  | .pass :: .pass :: .pass :: c :: _ => !(c == Call.pass)
  | _ => false

/-- reachable histories according to the Laws -/
inductive LegalLaw (d : Seat) : List Call → Prop
  | nil : LegalLaw d []
  | cons {h c} : LegalLaw d h → endedB h = false → legalLaw d h c = true → LegalLaw d (c :: h)

/-- history resulting from offering `ops`: a call is kept iff the auction has not ended and the Laws allow it -/
def acceptedLaw (d : Seat) (h : List Call) : List Call → List Call
  | [] => h
  | c :: cs =>
    if endedB h = false ∧ legalLaw d h c = true then acceptedLaw d (c :: h) cs else acceptedLaw d h cs

/-- the answer the Laws prescribe for one offered call: error after the end, "illegal" for a call the Laws
forbid, otherwise accepted — finishing exactly when the new history is ended -/
def answerLaw (d : Seat) (h : List Call) (c : Call) : Except Unit Res :=
  if endedB h then .error ()
  else if legalLaw d h c then .ok (if endedB (c :: h) then .finished else .ongoing)
  else .ok .illegal

def answersLaw (d : Seat) : List Call → List Call → List (Except Unit Res)
  | _, [] => []
  | h, c :: cs =>
    answerLaw d h c ::
      answersLaw d (if endedB h = false ∧ legalLaw d h c = true then c :: h else h) cs

end Bridge
