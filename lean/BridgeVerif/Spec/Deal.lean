import BridgeVerif.Model.Hands
/-! Specification vocabulary for deal encodings (C14). -/
namespace Bridge

def handsAll (h : Hands) : List Card := h .N ++ h .E ++ h .S ++ h .W

/-- a (possibly partial) deal as `to_pbn` accepts it: valid cards, pairwise disjoint duplicate-free hands,
each hand empty (unknown) or of 13 cards -/
structure PartialDeal (h : Hands) : Prop where
  nodup : (handsAll h).Nodup
  ok : ∀ p, ∀ c ∈ h p, c.ok = true
  size : ∀ p, (h p).length = 0 ∨ (h p).length = 13

/-- equality of hands as sets of cards -/
def SameHands (a b : Hands) : Prop := ∀ p, (a p).Perm (b p)

/-- the ranks of suit `su` held in `hand`, as the PBN field lists them -/
def suitRanksDesc (hand : List Card) (su : Suit) : List Nat :=
  ((sortDesc hand).filter fun c => decide (c.suit = su)).map Card.rank

/-- strictly descending -/
def StrictDesc : List Nat → Prop
  | [] => True
  | [_] => True
  | a :: b :: r => b < a ∧ StrictDesc (b :: r)

end Bridge
