import BridgeVerif.Spec.SessionSpec
import BridgeVerif.Model.Msg
/-!
# What the table manager and each network client make of the messages of a board  (C11, protocol half; C08)

A board's decisions are the messages the four seats SEND (`Decisions`: the call / card a seat decided on, and the
text it sent).  The table manager reads every text with the protocol parsers; the client of seat `p` knows its own
decisions as objects and reads everybody else's from the relays it receives (`Server.bidding_phase` relays the text it
parsed, `Server.playing_phase` relays the message unchanged) — with the SAME parsers (`MessageInterface.parse_bid`,
`parse_card`).  Both sides feed what they read to their own replica (`BiddingPhase`, `PlayingPhaseWithHands` /
`ObservedPlayingPhase`).
-/
namespace Bridge

/-- the texts mean what the senders decided: the call text of seat `j` steps after the dealer parses (alert suffix
removed, as the table manager does) to the decided call; the `j`-th card text parses, for the seat whose turn it is,
to the decided card -/
structure TextsConform (b : BoardSetting) (d : Decisions) : Prop where
  calls : ∀ j (h : j < d.calls.length),
    parseBid? (preprocessBid d.calls[j].2) (b.dealer.rot j).formal = some d.calls[j].1
  cards : ∀ s0, PState.init (boardContract b d) = some s0 → ∀ j (h : j < d.cards.length),
    parseCard? d.cards[j].2 (runPlay s0 ((d.cards.take j).map (·.1))).active = some d.cards[j].1

/-! ### the auction -/
/-- `Server.bidding_phase` : the calls the table manager reads, seat by seat; `none` = it raises -/
def serverCalls (dealer : Seat) : Nat → List (Call × Text) → Option (List Call)
  | _, [] => some []
  | j, (_, text) :: rest => do
    let c ← parseBid? (preprocessBid text) (dealer.rot j).formal
    let cs ← serverCalls dealer (j + 1) rest
    pure (c :: cs)

/-- `Client.bidding_phase` of seat `p` : its own calls as decided, the others' parsed from the relayed text
(the relay is the text the table manager parsed) -/
def clientCalls (p dealer : Seat) : Nat → List (Call × Text) → Option (List Call)
  | _, [] => some []
  | j, (c, text) :: rest => do
    let c' ← if dealer.rot j = p then some c else parseBid? (preprocessBid text) (dealer.rot j).formal
    let cs ← clientCalls p dealer (j + 1) rest
    pure (c' :: cs)

/-- the auction replica after the given calls -/
def auctionAfter (b : BoardSetting) (calls : List Call) : AState := (runAuction (AState.init b.dealer b.vul) calls).1

/-! ### the play -/
/-- `Server.playing_phase` : every card message is parsed for the seat on turn and played in the full-information
game; `none` = it raises (unparseable / out of turn / not held) -/
def serverPlay : WithHands → List (Card × Text) → Option WithHands
  | w, [] => some w
  | w, (_, text) :: rest => do
    let c ← parseCard? text w.base.active
    match w.play c w.base.active with
    | .ok w' => serverPlay w' rest
    | .error _ => none

/-- `Client.playing_phase` of seat `p` (declarer `decl`): its own cards (and dummy's, when it is declarer) as decided,
all others parsed from the relayed message for the seat on turn; dummy's hand — taken from the `Dummy's cards`
message, which carries dummy's true hand — is set right after the opening lead unless `p` is dummy;
`none` = the client raises -/
def clientPlay (p decl : Seat) (dummyHand : List Card) : Observed → Nat → List (Card × Text) → Option Observed
  | o, _, [] => some o
  | o, j, (c, text) :: rest => do
    let a := o.base.active
    let c' ← if senderOf decl a = p then some c else parseCard? text a
    match o.play c' a with
    | .error _ => none
    | .ok o' =>
      let o'' := if j = 0 ∧ p ≠ decl.partner then o'.setDummy dummyHand else o'
      clientPlay p decl dummyHand o'' (j + 1) rest

/-! ### the bundled example client (`WeakBid` + `RandomPlay`) -/
/-- `random.choice` : any function that returns an element of a non-empty list -/
def ChoiceOK (choose : List Card → Card) : Prop := ∀ l, l ≠ [] → choose l ∈ l

/-- the calls four `WeakBid` clients make: the dealer finds 1♣ available and bids it, the other three pass -/
def weakBidCalls (dealer : Seat) : List (Call × Text) :=
  [(.bid ⟨0, by omega⟩, bidMsg (.bid ⟨0, by omega⟩) dealer.formal),
   (.pass, bidMsg .pass dealer.left.formal),
   (.pass, bidMsg .pass dealer.left.left.formal),
   (.pass, bidMsg .pass dealer.left.left.left.formal)]

/-- the cards four `RandomPlay` clients play: whoever plays for the seat on turn chooses among the playable cards
(`current_available_cards`) of that seat's hand and announces it rank-then-suit in that seat's name -/
def randomPlayCards (choose : List Card → Card) : Nat → WithHands → List (Card × Text)
  | 0, _ => []
  | fuel + 1, w =>
    let a := w.base.active
    let c := choose (w.base.currentAvailable (w.hands a))
    match w.play c a with
    | .ok w' => (c, playMsg a c false) :: randomPlayCards choose fuel w'
    | .error _ => []

def bundledDecisions (b : BoardSetting) (choose : List Card → Card) : Decisions :=
  let calls := weakBidCalls b.dealer
  let contract := (contractOfCalls b (calls.map (·.1))).getD ⟨none, false, false, b.vul, none⟩
  { calls := calls,
    cards := match WithHands.init contract b.deal with
      | some w0 => randomPlayCards choose 52 w0
      | none => [] }

end Bridge
