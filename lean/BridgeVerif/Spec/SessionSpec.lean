import BridgeVerif.Model.Session
import BridgeVerif.Spec.Laws
import BridgeVerif.Spec.Play
import BridgeVerif.Spec.Scoring
/-!
# Declarative specification of a session: what each seat is told (C10) and what the log says (C08)

Written per seat and per board, on the boards and the players' decisions only — no threads, no queues.
-/
namespace Bridge

/-- what a client can be told -/
inductive SEvent
  | teams (ns ew : Text)
  | startOfBoard
  | endOfSession
  | header (n : Nat) (dealer : Seat) (vul : Vul)
  | ownCards (hand : List Card)
  | relayCall (who : Seat) (text : Text)        -- the call message of seat `who`, as relayed
  | relayCard (who : Seat) (text : Text)        -- the card message for seat `who`'s card
  | leadPrompt (who : Seat) (isDummy : Bool)    -- "`who` to lead" / "Dummy to lead"
  | dummyCards (hand : List Card)

/-- the text of an event on the connection of seat `p` -/
def SEvent.render (p : Seat) : SEvent → Text
  | .teams ns ew => teamsMsg ns ew
  | .startOfBoard => MSG_START
  | .endOfSession => MSG_END
  | .header n d v => boardHeader n d v
  | .ownCards h => cardsMsg p.formal h
  | .relayCall _ text => text
  | .relayCard _ text => text
  | .leadPrompt who isDummy => if isDummy then "Dummy to lead".toList else who.formal ++ " to lead".toList
  | .dummyCards h => cardsMsg "Dummy".toList h

/-- the auction as seat `p` hears it: every call except its own, in order (alert suffix removed) -/
def callEvents (p dealer : Seat) : Nat → List (Call × Text) → List SEvent
  | _, [] => []
  | j, (_, text) :: rest =>
    let a := dealer.rot j
    (if a = p then [] else [SEvent.relayCall a (preprocessBid text)]) ++ callEvents p dealer (j + 1) rest

/-- the connection on which the card of seat `a` arrives: declarer plays dummy's cards -/
def senderOf (decl a : Seat) : Seat := if a = decl.partner then decl else a

/-- the play as seat `p` hears it.  `s` = public play state before the card, `j` = index of the card -/
def cardEvents (p decl : Seat) (dummyHand : List Card) : PState → Nat → List (Card × Text) → List SEvent
  | _, _, [] => []
  | s, j, (c, text) :: rest =>
    let a := s.active
    (if s.trick = [] ∧ senderOf decl a = p then [SEvent.leadPrompt a (decide (a = decl.partner))] else []) ++
    (if senderOf decl a = p then [] else [SEvent.relayCard a text]) ++
    (if j = 0 ∧ p ≠ decl.partner then [SEvent.dummyCards dummyHand] else []) ++
    cardEvents p decl dummyHand (playCard s c) (j + 1) rest

/-- the contract the calls lead to (the auction model, proved equal to the Laws in C01–C03) -/
def boardContract (b : BoardSetting) (d : Decisions) : Contract :=
  (contractOfCalls b (d.calls.map (·.1))).getD ⟨none, false, false, b.vul, none⟩

/-- everything seat `p` is told about board number `k` -/
def boardEvents (p : Seat) (k : Nat) (last : Bool) (b : BoardSetting) (d : Decisions) : List SEvent :=
  let contract := boardContract b d
  [SEvent.header k b.dealer b.vul, SEvent.ownCards (b.deal p)] ++
  callEvents p b.dealer 0 d.calls ++
  (match PState.init contract, contract.declarer with
   | some s0, some decl => cardEvents p decl (b.deal decl.partner) s0 0 d.cards
   | _, _ => []) ++
  [if last then SEvent.endOfSession else SEvent.startOfBoard]

def boardsEvents (p : Seat) : Nat → List (BoardSetting × Decisions) → List SEvent
  | _, [] => []
  | k, [(b, d)] => boardEvents p k true b d
  | k, (b, d) :: rest => boardEvents p k false b d ++ boardsEvents p (k + 1) rest

/-- everything seat `p` is told in a session, after it has been seated -/
def seatEvents (sc : Scenario) (p : Seat) : List SEvent :=
  [SEvent.teams sc.nsName sc.ewName, SEvent.startOfBoard] ++ boardsEvents p 1 sc.boards

def seatStream (sc : Scenario) (p : Seat) : List Text := (seatEvents sc p).map (SEvent.render p)

/-! ## conforming decisions -/
/-- the calls form one complete legal auction: every call is accepted by the Laws and the auction has ended
exactly with the last one (histories are kept newest first) -/
def ConformingAuction (b : BoardSetting) (d : Decisions) : Prop :=
  let h := (d.calls.map (·.1)).reverse
  LegalLaw b.dealer h ∧ EndedLaw h

/-- play a list of cards, each by the seat on turn; `none` as soon as one is refused -/
def playsAccepted (w0 : WithHands) (cards : List Card) : Option WithHands :=
  cards.foldlM (fun w c => match w.play c w.base.active with | .ok w' => some w' | .error _ => none) w0

/-- the cards are 52 accepted plays of the deal (each by the seat on turn, of a card it holds), or none when
the board is passed out -/
def ConformingPlay (b : BoardSetting) (d : Decisions) : Prop :=
  match WithHands.init (boardContract b d) b.deal with
  | none => d.cards = []
  | some w0 => d.cards.length = 52 ∧ (playsAccepted w0 (d.cards.map (·.1))).isSome

end Bridge
