/-!
# A network of straight-line sequential processes: single-reader/single-writer FIFO channels,
one reusable counting barrier, externally visible outputs.  (C08–C11, C13, C20)

Nothing here is specific to bridge.  A thread is a list of actions (its remaining program).
`step n t` is the next synchronisation step of thread `t`; it is `none` when `t` has finished or is blocked
(receive on an empty channel; barrier departure before all parties have arrived).
-/
namespace Bridge

/-- synchronisation actions -/
inductive Act (Chan Msg Out : Type)
  | send (c : Chan) (m : Msg)     -- `Queue.put` / `socket.sendall` : never blocks
  | recv (c : Chan)               -- `Queue.get` / `receive_message` : blocks while the channel is empty
  | arrive                        -- first half of `Barrier.wait()`
  | depart                        -- second half: blocks until every party has arrived as often
  | emit (o : Out)                -- an externally visible effect of this thread (a write to the log file)
  deriving Repr

/-- pointwise update -/
def upd {α β : Type} [DecidableEq α] (f : α → β) (a : α) (b : β) : α → β :=
  fun x => if x = a then b else f x

section
variable {Tid Chan Msg Out : Type} [DecidableEq Tid] [DecidableEq Chan]

structure Net (Tid Chan Msg Out : Type) where
  prog : Tid → List (Act Chan Msg Out)     -- remaining program
  chan : Chan → List Msg                   -- FIFO contents
  hist : Chan → List Msg                   -- everything ever sent on the channel (monotone log)
  arrived : Tid → Nat                      -- barrier arrivals so far
  departed : Tid → Nat                     -- barrier departures so far
  outs : Tid → List Out                    -- outputs emitted so far

/-- all parties have arrived more often than `t` has departed -/
def canDepart (parties : List Tid) (n : Net Tid Chan Msg Out) (t : Tid) : Bool :=
  parties.all fun q => decide (n.departed t < n.arrived q)

/-- one step of thread `t` -/
def step (parties : List Tid) (n : Net Tid Chan Msg Out) (t : Tid) : Option (Net Tid Chan Msg Out) :=
  match n.prog t with
  | [] => none
  | .send c m :: rest =>
    some { n with prog := upd n.prog t rest, chan := upd n.chan c (n.chan c ++ [m]),
                  hist := upd n.hist c (n.hist c ++ [m]) }
  | .recv c :: rest =>
    match n.chan c with
    | [] => none
    | _ :: ms => some { n with prog := upd n.prog t rest, chan := upd n.chan c ms }
  | .arrive :: rest =>
    some { n with prog := upd n.prog t rest, arrived := upd n.arrived t (n.arrived t + 1) }
  | .depart :: rest =>
    if canDepart parties n t then
      some { n with prog := upd n.prog t rest, departed := upd n.departed t (n.departed t + 1) }
    else none
  | .emit o :: rest =>
    some { n with prog := upd n.prog t rest, outs := upd n.outs t (n.outs t ++ [o]) }

/-- run a schedule (a list of thread names); `none` if some chosen thread was not enabled -/
def runSched (parties : List Tid) (n : Net Tid Chan Msg Out) : List Tid → Option (Net Tid Chan Msg Out)
  | [] => some n
  | t :: ts =>
    match step parties n t with
    | none => none
    | some n' => runSched parties n' ts

/-- a run: any sequence of enabled steps -/
inductive Run (parties : List Tid) : Net Tid Chan Msg Out → List Tid → Net Tid Chan Msg Out → Prop
  | nil (n) : Run parties n [] n
  | cons {n n' n'' t ts} : step parties n t = some n' → Run parties n' ts n'' → Run parties n (t :: ts) n''

/-- nobody can move -/
def Stuck (parties : List Tid) (n : Net Tid Chan Msg Out) : Prop := ∀ t, step parties n t = none

/-- every thread has run to the end of its program -/
def AllDone (n : Net Tid Chan Msg Out) : Prop := ∀ t, n.prog t = []

/-- static discipline of a program table: channel `c` is written only by `wr c` and read only by `rd c` -/
def Disciplined (wr rd : Chan → Tid) (prog : Tid → List (Act Chan Msg Out)) : Prop :=
  ∀ t, ∀ a ∈ prog t,
    (∀ c m, a = Act.send c m → t = wr c) ∧ (∀ c, a = Act.recv c → t = rd c)

/-- the messages a program sends on channel `c`, in order -/
def sendsOn (c : Chan) : List (Act Chan Msg Out) → List Msg
  | [] => []
  | .send c' m :: r => if c' = c then m :: sendsOn c r else sendsOn c r
  | _ :: r => sendsOn c r

/-- the outputs a program emits, in order -/
def emitsOf : List (Act Chan Msg Out) → List Out
  | [] => []
  | .emit o :: r => o :: emitsOf r
  | _ :: r => emitsOf r

/-- initial network for a program table -/
def Net.init (prog : Tid → List (Act Chan Msg Out)) : Net Tid Chan Msg Out :=
  { prog := prog, chan := fun _ => [], hist := fun _ => [], arrived := fun _ => 0,
    departed := fun _ => 0, outs := fun _ => [] }

end

/-! ### payload erasure: enabledness never depends on what is sent -/
def Act.erase {Chan Msg Out : Type} : Act Chan Msg Out → Act Chan Unit Unit
  | .send c _ => .send c ()
  | .recv c => .recv c
  | .arrive => .arrive
  | .depart => .depart
  | .emit _ => .emit ()

def Net.erase {Tid Chan Msg Out : Type} (n : Net Tid Chan Msg Out) : Net Tid Chan Unit Unit :=
  { prog := fun t => (n.prog t).map Act.erase, chan := fun c => (n.chan c).map fun _ => (),
    hist := fun c => (n.hist c).map fun _ => (), arrived := n.arrived, departed := n.departed,
    outs := fun t => (n.outs t).map fun _ => () }

end Bridge
