/-!
# Core value objects (mirror of suit.py, card.py, player.py, pair.py, vul.py, bid.py, contract.py)

No imports.  Every enum exposes the same numeric `value` as the Python `Enum`, because the
code computes with the values (`Player(self.value % 4 + 1)`, `Bid((level-1)*5+suit.value)`).
-/

namespace Bridge

/-! ## Suit -/
inductive Suit | C | D | H | S | NT
  deriving DecidableEq, Repr, Inhabited

namespace Suit
def value : Suit → Nat | C => 1 | D => 2 | H => 3 | S => 4 | NT => 5
def ofValue? : Nat → Option Suit
  | 1 => some C | 2 => some D | 3 => some H | 4 => some S | 5 => some NT | _ => none
def isMinor (s : Suit) : Bool := decide (s.value ≤ 2)
def isMajor (s : Suit) : Bool := decide (2 < s.value ∧ s.value ≤ 4)
def name : Suit → List Char
  | C => ['C'] | D => ['D'] | H => ['H'] | S => ['S'] | NT => ['N', 'T']
def all : List Suit := [C, D, H, S, NT]
def all4 : List Suit := [C, D, H, S]
end Suit

/-! ## Vul -/
inductive Vul | none | ns | ew | both
  deriving DecidableEq, Repr, Inhabited

namespace Vul
def value : Vul → Nat | none => 1 | ns => 2 | ew => 3 | both => 4
def all : List Vul := [none, ns, ew, both]
end Vul

/-! ## Side (pair.py) -/
inductive Side | NS | EW
  deriving DecidableEq, Repr, Inhabited

namespace Side
def value : Side → Nat | NS => 1 | EW => 2
def ofValue? : Nat → Option Side | 1 => some NS | 2 => some EW | _ => none
/-- `Pair(3 - self.value)` -/
def opp : Side → Side | NS => EW | EW => NS
/-- `vul is Vul.BOTH or vul.name == self.name` -/
def isVul (s : Side) (v : Vul) : Bool :=
  match v, s with
  | .both, _ => true
  | .ns, NS => true
  | .ew, EW => true
  | _, _ => false
def all : List Side := [NS, EW]
end Side

/-! ## Seat (player.py) -/
inductive Seat | N | E | S | W
  deriving DecidableEq, Repr, Inhabited

namespace Seat
def value : Seat → Nat | N => 1 | E => 2 | S => 3 | W => 4
def ofValue? : Nat → Option Seat
  | 1 => some N | 2 => some E | 3 => some S | 4 => some W | _ => none
/-- `Player(self.value % 4 + 1)` -/
def left : Seat → Seat | N => E | E => S | S => W | W => N
/-- `Player((self.value + 1) % 4 + 1)` -/
def partner : Seat → Seat | N => S | E => W | S => N | W => E
/-- `Player((self.value + 2) % 4 + 1)` -/
def right : Seat → Seat | N => W | E => N | S => E | W => S
/-- `Pair((self.value + 1) % 2 + 1)` -/
def side : Seat → Side | N => .NS | S => .NS | E => .EW | W => .EW
/-- `player.value % 2 == self.value % 2` -/
def isPartner (a b : Seat) : Bool := decide (b.value % 2 = a.value % 2)
def isVul (p : Seat) (v : Vul) : Bool := p.side.isVul v
def all : List Seat := [N, E, S, W]
/-- `n` steps clockwise from `d`. -/
def rot (d : Seat) : Nat → Seat
  | 0 => d
  | n + 1 => (rot d n).left
def name : Seat → List Char | N => ['N'] | E => ['E'] | S => ['S'] | W => ['W']
def formal : Seat → List Char
  | N => "North".toList | E => "East".toList | S => "South".toList | W => "West".toList
def idx : Seat → Nat | N => 0 | E => 1 | S => 2 | W => 3
end Seat

/-! ## Card -/
structure Card where
  rank : Nat
  suit : Suit
  deriving DecidableEq, Repr, Inhabited

namespace Card
/-- what `Card.__post_init__` accepts -/
def ok (c : Card) : Bool := decide (2 ≤ c.rank ∧ c.rank ≤ 14) && decide (c.suit ≠ .NT)
/-- `int(card)` -/
def idx (c : Card) : Nat := c.rank - 2 + (c.suit.value - 1) * 13
/-- `Card.int_to_card` (for 0 ≤ x ≤ 51) -/
def ofIdx? (x : Nat) : Option Card :=
  if x > 51 then none else
    match Suit.ofValue? (x / 13 + 1) with
    | some s => some ⟨x % 13 + 2, s⟩
    | none => none
def ofIdx (x : Nat) : Card := (ofIdx? x).getD ⟨2, .C⟩
/-- the 52 cards in index order -/
def deck : List Card := (List.range 52).map ofIdx
/-- `card < other` -/
def lt (a b : Card) : Bool := decide (a.idx < b.idx)
end Card

/-! ## Call (bid.py `Bid`) -/
inductive Call
  | bid (i : Fin 35)
  | pass
  | dbl
  | rdbl
  deriving DecidableEq, Repr, Inhabited

namespace Call
/-- `Bid.idx` (0-based) -/
def idx : Call → Nat
  | bid i => i.val | pass => 35 | dbl => 36 | rdbl => 37
/-- `Bid.value` -/
def value (c : Call) : Nat := c.idx + 1
def ofIdx? (x : Nat) : Option Call :=
  if h : x < 35 then some (bid ⟨x, h⟩)
  else if x = 35 then some pass else if x = 36 then some dbl else if x = 37 then some rdbl
  else none
def all : List Call := (List.range 38).filterMap ofIdx?
end Call

/-- level 1..7 of a bid index -/
def bidLevel (i : Fin 35) : Nat := i.val / 5 + 1
/-- denomination of a bid index: `Suit(idx % 5 + 1)` -/
def bidDenom (i : Fin 35) : Suit :=
  match i.val % 5 with
  | 0 => .C | 1 => .D | 2 => .H | 3 => .S | _ => .NT

/-- `Bid.level_suit_to_bid` : `Bid((level - 1) * 5 + suit.value)` for 1 ≤ level ≤ 7 -/
def levelSuitToBid? (level : Nat) (s : Suit) : Option (Fin 35) :=
  if h : 1 ≤ level ∧ level ≤ 7 ∧ (level - 1) * 5 + s.value - 1 < 35 then
    some ⟨(level - 1) * 5 + s.value - 1, h.2.2⟩
  else none

/-! ## Contract -/
/-- doubling *status* of a contract -/
inductive Dbl | none | x | xx
  deriving DecidableEq, Repr, Inhabited

/-- `Contract` dataclass.  `finalBid = none` models both `None` and `Bid.Pass`
(passed out); `x`, `xx` are the two stored flags. -/
structure Contract where
  finalBid : Option (Fin 35)
  x : Bool := false
  xx : Bool := false
  vul : Vul := .none
  declarer : Option Seat := none
  deriving DecidableEq, Repr, Inhabited

namespace Contract
def isPassedOut (c : Contract) : Bool := c.finalBid.isNone
/-- the status printed by `__str__`: XX if xx, else X if x -/
def dbl (c : Contract) : Dbl := if c.xx then .xx else if c.x then .x else .none
def trump (c : Contract) : Option Suit := c.finalBid.map bidDenom
def level (c : Contract) : Option Nat := c.finalBid.map bidLevel
/-- `Contract.is_vul()` ; `none` = raises ValueError -/
def isVul (c : Contract) : Option Bool :=
  match c.vul with
  | .none => some false
  | .both => some true
  | v => match c.declarer with
    | none => none
    | some d => some (d.isVul v)
end Contract

/-- `BiddingPhaseState` -/
inductive Res | illegal | ongoing | finished
  deriving DecidableEq, Repr

end Bridge
